// C04 part Q — the destination ETX queue (a trie inside state.StateDB) behaves as a FIFO whose
// content is committed by ETXRoot().
//
// State machine over PushETXs / PushETX / PopETX / ReadETX / GetOldestIndex / GetNewestIndex /
// ETXRoot / CommitEtxs + reopen at the returned root / Copy (plus the controller cells UpdateKQuai
// / FreezeKQuai / UnFreezeKQuai that share the same trie) against a slice model (DESIGN.md §4 C04 Q).
package c04

import (
	"bytes"
	"crypto/sha256"
	"fmt"
	"io"
	"math/big"
	"strings"
	"testing"

	"github.com/dominant-strategies/go-quai/common"
	"github.com/dominant-strategies/go-quai/core/rawdb"
	"github.com/dominant-strategies/go-quai/core/state"
	"github.com/dominant-strategies/go-quai/core/types"
	"github.com/dominant-strategies/go-quai/ethdb"
	"github.com/dominant-strategies/go-quai/log"
	"github.com/sirupsen/logrus"
	"pgregory.net/rapid"

	"verifharness/stats"
)

func c04qNullLogger() *log.Logger {
	l := logrus.New()
	l.SetOutput(io.Discard)
	l.SetLevel(logrus.PanicLevel)
	return l
}

// memorydb.Location() returns nil; give the database the location of the destination zone.
type c04qLocDB struct {
	ethdb.Database
	loc common.Location
}

func (d c04qLocDB) Location() common.Location { return d.loc }

type c04qEnv struct {
	loc    common.Location
	logger *log.Logger
	db     state.Database
}

var (
	c04qLocs = []common.Location{{0, 0}, {0, 1}, {1, 0}, {2, 2}}
	c04qEnvs []*c04qEnv

	// process-wide: queue content <-> ETXRoot must be a bijection (per destination location the
	// stored bytes do not depend on the location, so the maps are shared)
	c04qRootOf    = map[string]common.Hash{}
	c04qContentOf = map[common.Hash]string{}
)

func c04qGetEnv(i int) *c04qEnv {
	if c04qEnvs == nil {
		logger := c04qNullLogger()
		log.Global = logger
		for _, loc := range c04qLocs {
			kv := c04qLocDB{rawdb.NewMemoryDatabase(logger), loc}
			c04qEnvs = append(c04qEnvs, &c04qEnv{loc: loc, logger: logger, db: state.NewDatabase(kv)})
		}
	}
	return c04qEnvs[i]
}

func (e *c04qEnv) open(etxRoot common.Hash) (*state.StateDB, error) {
	return state.New(types.EmptyRootHash, etxRoot, big.NewInt(0), e.db, e.db, nil, e.loc, e.logger)
}

// ---- ETX generator ----------------------------------------------------------------------------

var c04qEtxTypeName = []string{"default", "coinbase", "conversion", "coinbaselockup", "wrappingqi", "conversionrevert", "unwrapqi"}

func c04qGenAddr(t *rapid.T, label string, prefix byte, qi bool) common.Address {
	b := rapid.SliceOfN(rapid.Byte(), 20, 20).Draw(t, label)
	b[0] = prefix
	if qi {
		b[1] |= 0x80
	} else {
		b[1] &= 0x7f
	}
	loc := common.Location{prefix >> 4, prefix & 0x0f}
	return common.BytesToAddress(b, loc)
}

func c04qGenBig(t *rapid.T, label string) *big.Int {
	switch rapid.IntRange(0, 5).Draw(t, label+"Kind") {
	case 0:
		return big.NewInt(0)
	case 1:
		return big.NewInt(int64(rapid.IntRange(1, 255).Draw(t, label)))
	case 2:
		return new(big.Int).SetUint64(rapid.Uint64().Draw(t, label))
	case 3:
		return new(big.Int).Sub(new(big.Int).Lsh(big.NewInt(1), 256), big.NewInt(1))
	default:
		return new(big.Int).SetBytes(rapid.SliceOfN(rapid.Byte(), 1, 32).Draw(t, label))
	}
}

// c04qGenETX builds an external transaction of any of the seven ETX types addressed to the
// destination zone, through types.NewTx like every producer in the repository.
func c04qGenETX(t *rapid.T, loc common.Location) *types.Transaction {
	// half of the items come from a small fixed pool per destination, so that different histories
	// arrive at the same queue content (root recurrence across histories)
	if rapid.Bool().Draw(t, "fromPool") {
		i := rapid.IntRange(0, 5).Draw(t, "poolIdx")
		to := common.BytesToAddress(append([]byte{loc.BytePrefix(), byte(i * 40)}, bytes.Repeat([]byte{byte(i + 1)}, 18)...), loc)
		return types.NewTx(&types.ExternalTx{OriginatingTxHash: common.Hash{2: loc.BytePrefix(), 31: byte(i)}, ETXIndex: uint16(i), Gas: 21000 * uint64(i), To: &to,
			Value: big.NewInt(int64(1000 + i)), Sender: common.BytesToAddress(bytes.Repeat([]byte{0x10}, 20), common.Location{1, 0}), EtxType: uint64(i % len(c04qEtxTypeName))})
	}
	typ := rapid.IntRange(0, len(c04qEtxTypeName)-1).Draw(t, "etxType")
	to := c04qGenAddr(t, "to", loc.BytePrefix(), rapid.Bool().Draw(t, "toQi"))
	srcLoc := rapid.SampledFrom(c04qLocs).Draw(t, "srcLoc")
	inner := &types.ExternalTx{
		OriginatingTxHash: common.BytesToHash(rapid.SliceOfN(rapid.Byte(), 32, 32).Draw(t, "origin")),
		ETXIndex:          uint16(rapid.SampledFrom([]int{0, 1, 2, 255, 256, 65535}).Draw(t, "etxIndex")),
		Gas:               rapid.SampledFrom([]uint64{0, 21000, 100000, 1<<63 + 5, ^uint64(0)}).Draw(t, "gas"),
		To:                &to,
		Value:             c04qGenBig(t, "value"),
		Sender:            c04qGenAddr(t, "sender", srcLoc.BytePrefix(), rapid.Bool().Draw(t, "senderQi")),
		EtxType:           uint64(typ),
	}
	switch rapid.IntRange(0, 4).Draw(t, "dataKind") {
	case 0: // nil
	case 1:
		inner.Data = []byte{}
	case 2:
		inner.Data = []byte{byte(rapid.IntRange(0, 3).Draw(t, "lockupByte"))}
	default:
		inner.Data = rapid.SliceOfN(rapid.Byte(), 1, 70).Draw(t, "data")
	}
	if typ == types.DefaultType || rapid.IntRange(0, 3).Draw(t, "alAny") == 0 {
		n := rapid.IntRange(0, 2).Draw(t, "alLen")
		if n > 0 || rapid.Bool().Draw(t, "alEmptyNonNil") {
			inner.AccessList = types.AccessList{}
		}
		for i := 0; i < n; i++ {
			tup := types.AccessTuple{Address: c04qGenAddr(t, "alAddr", loc.BytePrefix(), false)}
			for k := rapid.IntRange(0, 2).Draw(t, "alKeys"); k > 0; k-- {
				tup.StorageKeys = append(tup.StorageKeys, common.BytesToHash(rapid.SliceOfN(rapid.Byte(), 32, 32).Draw(t, "alKey")))
			}
			inner.AccessList = append(inner.AccessList, tup)
		}
	}
	return types.NewTx(inner)
}

// ---- model ------------------------------------------------------------------------------------

type c04qModel struct {
	oldest, newest uint64
	items          []*types.Transaction // items[i] has index oldest+i
	kquai          *big.Int
	updateBit      int // -1 = cell absent (reads as 1), 0, 1
}

func (m *c04qModel) clone() *c04qModel {
	c := *m
	c.items = append([]*types.Transaction(nil), m.items...)
	c.kquai = new(big.Int).Set(m.kquai)
	return &c
}

// content is the canonical description of what ETXRoot commits to.
func (m *c04qModel) content() string {
	var sb strings.Builder
	fmt.Fprintf(&sb, "o=%d n=%d k=%s u=%d", m.oldest, m.newest, m.kquai, m.updateBit)
	hs := sha256.New()
	for _, it := range m.items {
		h := it.Hash()
		hs.Write(h[:])
	}
	sb.Write(hs.Sum(nil)) // fixed-size key: the maps keep up to 2 x 200000 of these
	return sb.String()
}

func c04qDescribe(tx *types.Transaction) (d string) {
	if tx == nil {
		return "<nil>"
	}
	defer func() {
		if p := recover(); p != nil {
			d = fmt.Sprintf("{item whose accessors panic: %v}", p)
		}
	}()
	return fmt.Sprintf("{%s hash=%x to=%x value=%v gas=%d data=%x al=%d sender=%x origin=%x idx=%d}", c04qEtxTypeName[tx.EtxType()%uint64(len(c04qEtxTypeName))],
		tx.Hash().Bytes()[:6], tx.To().Bytes(), tx.Value(), tx.Gas(), tx.Data(), len(tx.AccessList()), tx.ETXSender().Bytes(), tx.OriginatingTxHash().Bytes()[:4], tx.ETXIndex())
}

// c04qSame compares what the destination learns from a queue item with what was pushed.
func c04qSame(got, want *types.Transaction, loc common.Location) (diff string) {
	// an item that makes its own accessors panic (e.g. a field lost in the stored encoding) is an
	// altered item, not a harness failure; no rapid draw happens below
	defer func() {
		if p := recover(); p != nil {
			diff = "unusable-item"
		}
	}()
	if (got == nil) != (want == nil) {
		return "presence"
	}
	if got == nil {
		return ""
	}
	if got.Type() != types.ExternalTxType {
		return "txtype"
	}
	if got.Hash() != want.Hash() {
		return "hash"
	}
	switch {
	case got.To() == nil || !bytes.Equal(got.To().Bytes(), want.To().Bytes()):
		return "to"
	case got.Value().Cmp(want.Value()) != 0:
		return "value"
	case got.Gas() != want.Gas():
		return "gas"
	case !bytes.Equal(got.Data(), want.Data()):
		return "data"
	case !bytes.Equal(got.ETXSender().Bytes(), want.ETXSender().Bytes()):
		return "sender"
	case got.EtxType() != want.EtxType():
		return "etxtype"
	case got.OriginatingTxHash() != want.OriginatingTxHash():
		return "origin"
	case got.ETXIndex() != want.ETXIndex():
		return "etxindex"
	case len(got.AccessList()) != len(want.AccessList()):
		return "accesslist"
	}
	for i, tup := range want.AccessList() {
		g := got.AccessList()[i]
		if !bytes.Equal(g.Address.Bytes(), tup.Address.Bytes()) || len(g.StorageKeys) != len(tup.StorageKeys) {
			return "accesslist"
		}
		for j := range tup.StorageKeys {
			if g.StorageKeys[j] != tup.StorageKeys[j] {
				return "accesslist"
			}
		}
	}
	// the processor routes on the ledger of the recipient as rebuilt for this zone
	if got.To().IsInQiLedgerScope() != want.To().IsInQiLedgerScope() {
		return "to-ledger"
	}
	if l := got.To().Location(); l == nil || !l.Equal(loc) {
		return "to-location"
	}
	// ... and converts it to an internal address of this zone (PopETX / ReadETX re-home the
	// RLP-decoded recipient with the node location for exactly this purpose)
	if _, err := got.To().InternalAddress(); err != nil {
		return "to-internal"
	}
	return ""
}

// ---- the state machine ------------------------------------------------------------------------

func TestC04Q_Queue(t *testing.T) {
	const part = "queue"
	rapid.Check(t, func(t *rapid.T) {
		env := c04qGetEnv(rapid.IntRange(0, len(c04qLocs)-1).Draw(t, "loc"))
		sdb, err := env.open(types.EmptyRootHash)
		if err != nil {
			t.Fatalf("HARNESS: state.New: %v", err)
		}
		m := &c04qModel{kquai: new(big.Int), updateBit: -1}
		var (
			hist                                         []string
			kinds                                        = map[string]bool{}
			reopened, popAfterReopen, popEmpty, big256   bool
			copied, popNonEmpty, readOutside, rootChecks bool
			frozen                                       *state.StateDB // the other side of the last Copy
			frozenModel                                  *c04qModel
			typesSeen                                    = map[uint64]bool{}
		)
		note := func(kind, detail string) {
			kinds[kind] = true
			hist = append(hist, kind+" "+detail)
		}
		fail := func(fp, msg string) {
			stats.Violation(t, part, fp, msg, map[string]any{"location": env.loc.Name(), "history": hist})
		}
		checkCounters := func(s *state.StateDB, mm *c04qModel, who string) {
			o, err1 := s.GetOldestIndex()
			n, err2 := s.GetNewestIndex()
			if err1 != nil || err2 != nil {
				fail("C04/Q/index-error", fmt.Sprintf("%s: index read error %v / %v", who, err1, err2))
				return
			}
			if !o.IsUint64() || !n.IsUint64() || o.Uint64() != mm.oldest || n.Uint64() != mm.newest {
				fail("C04/Q/counters", fmt.Sprintf("%s: oldest/newest = %v/%v, model %d/%d", who, o, n, mm.oldest, mm.newest))
			}
		}
		checkRead := func(s *state.StateDB, mm *c04qModel, idx uint64, who string) {
			got, err := s.ReadETX(new(big.Int).SetUint64(idx))
			if err != nil {
				fail("C04/Q/read-error", fmt.Sprintf("%s: ReadETX(%d): %v", who, idx, err))
				return
			}
			var want *types.Transaction
			if idx >= mm.oldest && idx < mm.newest {
				want = mm.items[idx-mm.oldest]
			}
			if d := c04qSame(got, want, env.loc); d != "" {
				fail("C04/Q/read/"+d, fmt.Sprintf("%s: ReadETX(%d) = %s, model %s (window %d..%d)", who, idx, c04qDescribe(got), c04qDescribe(want), mm.oldest, mm.newest))
			}
		}
		checkWindow := func(s *state.StateDB, mm *c04qModel, who string) {
			checkCounters(s, mm, who)
			lo := mm.oldest
			if lo > 0 {
				lo--
			}
			for i := lo; i <= mm.newest; i++ {
				checkRead(s, mm, i, who)
			}
			k, err := s.GetKQuai()
			if err != nil || k.Cmp(mm.kquai) != 0 {
				fail("C04/Q/kquai", fmt.Sprintf("%s: GetKQuai = %v,%v model %v", who, k, err, mm.kquai))
			}
			ub, err := s.GetUpdateBit()
			wantUB := byte(1)
			if mm.updateBit == 0 {
				wantUB = 0
			}
			if err != nil || ub != wantUB {
				fail("C04/Q/updatebit", fmt.Sprintf("%s: GetUpdateBit = %v,%v model %v", who, ub, err, wantUB))
			}
		}
		checkRoot := func(s *state.StateDB, mm *c04qModel, who string) common.Hash {
			root := s.ETXRoot()
			c := mm.content()
			if prev, ok := c04qRootOf[c]; ok {
				if len(mm.items) > 0 {
					rootChecks = true
				}
				if prev != root {
					fail("C04/Q/root/same-content-different-root", fmt.Sprintf("%s: ETXRoot %x but the same queue content and counters had root %x before", who, root, prev))
				}
			} else if len(c04qRootOf) < 200000 {
				c04qRootOf[c] = root
			}
			if prevC, ok := c04qContentOf[root]; ok {
				if prevC != c {
					fail("C04/Q/root/different-content-same-root", fmt.Sprintf("%s: ETXRoot %x commits to two different queue contents", who, root))
				}
			} else if len(c04qContentOf) < 200000 {
				c04qContentOf[root] = c
			}
			return root
		}
		push := func(list []*types.Transaction) {
			for _, e := range list {
				typesSeen[e.EtxType()] = true
			}
			m.items = append(m.items, list...)
			m.newest += uint64(len(list))
			if m.newest >= 256 {
				big256 = true
			}
		}

		actions := map[string]func(*rapid.T){
			"pushETXs": func(t *rapid.T) {
				n := rapid.IntRange(0, 4).Draw(t, "n")
				list := make([]*types.Transaction, n)
				descr := make([]string, n)
				for i := range list {
					list[i] = c04qGenETX(t, env.loc)
					descr[i] = c04qDescribe(list[i])
				}
				note("pushETXs", strings.Join(descr, " "))
				if err := sdb.PushETXs(list); err != nil {
					fail("C04/Q/push-error", err.Error())
				}
				push(list)
			},
			"pushETX": func(t *rapid.T) {
				e := c04qGenETX(t, env.loc)
				note("pushETX", c04qDescribe(e))
				if err := sdb.PushETX(e); err != nil {
					fail("C04/Q/push-error", err.Error())
				}
				push([]*types.Transaction{e})
			},
			"pushBulk": func(t *rapid.T) {
				if rapid.IntRange(0, 29).Draw(t, "gate") != 0 {
					t.Skip("gated")
				}
				n := rapid.IntRange(120, 300).Draw(t, "n")
				proto := c04qGenETX(t, env.loc)
				note("pushBulk", fmt.Sprintf("%d x %s (etx index varied)", n, c04qDescribe(proto)))
				list := make([]*types.Transaction, n)
				for i := range list {
					to := *proto.To()
					list[i] = types.NewTx(&types.ExternalTx{OriginatingTxHash: proto.OriginatingTxHash(), ETXIndex: uint16(i), Gas: proto.Gas(), To: &to,
						Value: proto.Value(), Data: proto.Data(), AccessList: proto.AccessList(), Sender: proto.ETXSender(), EtxType: proto.EtxType()})
				}
				if err := sdb.PushETXs(list); err != nil {
					fail("C04/Q/push-error", err.Error())
				}
				push(list)
			},
			"pop": func(t *rapid.T) {
				n := 1
				if len(m.items) > 3 && rapid.IntRange(0, 5).Draw(t, "burst") == 0 {
					n = rapid.IntRange(2, len(m.items)).Draw(t, "n")
				}
				note("pop", fmt.Sprint(n))
				for ; n > 0; n-- {
					got, err := sdb.PopETX()
					if err != nil {
						fail("C04/Q/pop-error", err.Error())
						return
					}
					var want *types.Transaction
					if len(m.items) > 0 {
						want = m.items[0]
						m.items = m.items[1:]
						m.oldest++
						popNonEmpty = true
						if reopened {
							popAfterReopen = true
						}
					} else {
						popEmpty = true
					}
					if d := c04qSame(got, want, env.loc); d != "" {
						fail("C04/Q/pop/"+d, fmt.Sprintf("PopETX = %s, model head %s (window now %d..%d)", c04qDescribe(got), c04qDescribe(want), m.oldest, m.newest))
					}
				}
			},
			"read": func(t *rapid.T) {
				hi := m.newest + 2
				idx := uint64(rapid.Uint64Range(0, hi).Draw(t, "index"))
				if idx < m.oldest || idx >= m.newest {
					readOutside = true
				}
				note("read", fmt.Sprint(idx))
				checkRead(sdb, m, idx, "live")
			},
			"reopen": func(t *rapid.T) {
				note("reopen", "")
				want := checkRoot(sdb, m, "before commit")
				root, err := sdb.CommitEtxs()
				if err != nil {
					fail("C04/Q/commit-error", err.Error())
					return
				}
				if root != want {
					fail("C04/Q/root/commit-differs", fmt.Sprintf("CommitEtxs returned %x, ETXRoot() was %x", root, want))
				}
				ns, err := env.open(root)
				if err != nil {
					fail("C04/Q/reopen-error", fmt.Sprintf("state.New at committed ETX root %x: %v", root, err))
					return
				}
				sdb = ns
				reopened = true
				checkWindow(sdb, m, "reopened")
				if r := sdb.ETXRoot(); r != root {
					fail("C04/Q/root/reopen-differs", fmt.Sprintf("reopened ETXRoot %x, committed %x", r, root))
				}
			},
			"copy": func(t *rapid.T) {
				cp := sdb.Copy()
				copied = true
				// continue on either side; the other one is frozen and must not change any more
				if rapid.Bool().Draw(t, "continueOnCopy") {
					note("copy", "continue on the copy")
					frozen, sdb = sdb, cp
				} else {
					note("copy", "continue on the original")
					frozen = cp
				}
				frozenModel = m.clone()
				checkWindow(sdb, m, "after copy")
			},
			"kquai": func(t *rapid.T) {
				v := c04qGenBig(t, "kquai")
				note("kquai", v.String())
				if err := sdb.UpdateKQuai(v); err != nil {
					fail("C04/Q/kquai-error", err.Error())
				}
				m.kquai = new(big.Int).Set(v)
			},
			"freeze": func(t *rapid.T) {
				if rapid.Bool().Draw(t, "freeze") {
					note("freeze", "")
					if err := sdb.FreezeKQuai(); err != nil {
						fail("C04/Q/kquai-error", err.Error())
					}
					m.updateBit = 0
				} else {
					note("unfreeze", "")
					if err := sdb.UnFreezeKQuai(); err != nil {
						fail("C04/Q/kquai-error", err.Error())
					}
					m.updateBit = 1
				}
			},
			"": func(t *rapid.T) { // invariant after every step
				checkCounters(sdb, m, "live")
				checkRead(sdb, m, m.oldest, "live head")
				checkRoot(sdb, m, "live")
			},
		}
		actions["pop2"], actions["pushETXs2"] = actions["pop"], actions["pushETXs"]
		t.Repeat(actions)

		checkWindow(sdb, m, "final")
		checkRoot(sdb, m, "final")
		if frozen != nil {
			checkWindow(frozen, frozenModel, "frozen side of Copy")
			checkRoot(frozen, frozenModel, "frozen side of Copy")
		}

		var bl []string
		for k := range kinds {
			bl = append(bl, k)
		}
		sortStrings(bl)
		labels := []string{"loc:" + env.loc.Name()}
		for _, c := range []struct {
			on bool
			l  string
		}{{reopened, "reopen"}, {popAfterReopen, "pop_after_reopen"}, {popEmpty, "pop_on_empty"}, {popNonEmpty, "pop_nonempty"},
			{big256, "index_ge_256"}, {copied, "copy"}, {readOutside, "read_outside_window"}, {rootChecks, "nonempty_root_recurrence_checked"},
			{len(typesSeen) == len(c04qEtxTypeName), "all_etx_types_in_one_history"}} {
			if c.on {
				labels = append(labels, c.l)
			}
		}
		for ty := range typesSeen {
			labels = append(labels, "etx:"+c04qEtxTypeName[ty])
		}
		stats.Case(part, strings.Join(bl, ",")+fmt.Sprintf("|types=%d|big=%v", len(typesSeen), big256), popAfterReopen, labels...)
		if popAfterReopen && stats.WantSample(part) {
			h := hist
			if len(h) > 25 {
				h = append(append([]string{}, h[:25]...), fmt.Sprintf("… %d more", len(hist)-25))
			}
			stats.Sample(part, map[string]any{"location": env.loc.Name(), "history": h})
		}
	})
}

func sortStrings(s []string) {
	for i := 1; i < len(s); i++ {
		for j := i; j > 0 && s[j] < s[j-1]; j-- {
			s[j], s[j-1] = s[j-1], s[j]
		}
	}
}
