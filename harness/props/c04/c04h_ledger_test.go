// C04 part H — cross-chain transactions are delivered and executed exactly once, in order,
// on a real prime+region+zone hierarchy with forks and head switches. After every step the
// whole ledger is recomputed from the blocks of the current canonical zone chain:
//
//	E  = ETXs emitted by canonical zone blocks (outbound lists),
//	D  = the lists the dominant chain handed down with each coincident block (dom order),
//	X  = ETX-typed transactions executed by canonical zone blocks,
//	Q  = the destination queue read from the head state, P = the head's not-yet-pushed inbound.
//
// Oracle: X ++ Q ++ P == D entry by entry (nothing lost, duplicated, reordered or invented);
// every entry of D is one emitted ETX (same origin id, recipient, sender, gas, data, type,
// value — except the protocol's conversion repricing), delivered with a coincident block at
// or after its origin block; no origin id occurs twice in D; ETXs addressed outside the zone
// never show up; every in-zone ETX whose origin block is followed by a canonical prime block
// has been delivered.
package c04

import (
	"bytes"
	"fmt"
	"math/big"
	"sort"
	"strings"
	"testing"

	"github.com/dominant-strategies/go-quai/common"
	"github.com/dominant-strategies/go-quai/core/rawdb"
	"github.com/dominant-strategies/go-quai/core/types"
	"pgregory.net/rapid"

	"verifharness/sim"
	"verifharness/stats"
)

const partH = "ledger"

type originID struct {
	h common.Hash
	i uint16
}

type ledgerStats struct {
	executed, queued, pendingPush, emitted, delivered int
	types                                             map[uint64]int
	maxGap                                            int // zone blocks between emission and execution
	repriced, reverted                                int
}

func canonicalZoneChain(nd *sim.Node) ([]*types.WorkObject, error) {
	head := nd.Core.CurrentHeader()
	hc := nd.Core.Slice().HeaderChain()
	var rev []*types.WorkObject
	cur := nd.Core.GetBlockByHash(head.Hash())
	for cur != nil && !hc.IsGenesisHash(cur.Hash()) {
		rev = append(rev, cur)
		cur = nd.Core.GetBlockByHash(cur.ParentHash(sim.Zone))
	}
	if cur == nil {
		return nil, fmt.Errorf("canonical chain is broken below %d blocks from the head", len(rev))
	}
	out := make([]*types.WorkObject, len(rev))
	for i := range rev {
		out[len(rev)-1-i] = rev[i]
	}
	return out, nil
}

func sameButRepriced(e, x *types.Transaction) string {
	if !e.To().Equal(*x.To()) {
		return fmt.Sprintf("recipient %x -> %x", e.To().Bytes(), x.To().Bytes())
	}
	if !e.ETXSender().Equal(x.ETXSender()) {
		return "sender changed"
	}
	if e.Gas() != x.Gas() {
		return fmt.Sprintf("gas %d -> %d", e.Gas(), x.Gas())
	}
	if !bytes.Equal(e.Data(), x.Data()) {
		return "data changed"
	}
	if e.EtxType() == types.ConversionType {
		switch x.EtxType() {
		case types.ConversionType:
			return "" // value repriced by the protocol
		case types.ConversionRevertType:
			if e.Value().Cmp(x.Value()) != 0 {
				return fmt.Sprintf("reverted conversion carries %v, original %v", x.Value(), e.Value())
			}
			return ""
		default:
			return fmt.Sprintf("conversion became type %d", x.EtxType())
		}
	}
	if e.EtxType() != x.EtxType() {
		return fmt.Sprintf("type %d -> %d", e.EtxType(), x.EtxType())
	}
	if e.Value().Cmp(x.Value()) != 0 {
		return fmt.Sprintf("value %v -> %v", e.Value(), x.Value())
	}
	if e.Hash() != x.Hash() {
		return "hash changed although no field differs"
	}
	return ""
}

// checkLedger evaluates the oracle on the zone node's current canonical chain.
func checkLedger(n *sim.Net) (fp, msg string, ls ledgerStats) {
	ls.types = map[uint64]int{}
	zone := n.Nodes[sim.Zone]
	chain, err := canonicalZoneChain(zone)
	if err != nil {
		return "chain-broken", err.Error(), ls
	}
	hc := zone.Core.Slice().HeaderChain()
	type emitted struct {
		tx    *types.Transaction
		block int // index in chain
	}
	E := map[originID]emitted{}
	var D []*types.Transaction
	dBlock := []int{} // chain index of the coincident block each D entry came with
	var X []*types.Transaction
	xBlock := []int{}
	var orders []int
	for i, b := range chain {
		for _, e := range b.OutboundEtxs() {
			id := originID{e.OriginatingTxHash(), e.ETXIndex()}
			if _, dup := E[id]; dup {
				return "emitted-twice", fmt.Sprintf("block #%d emits origin id %x:%d a second time", b.NumberU64(sim.Zone), id.h[:6], id.i), ls
			}
			E[id] = emitted{e, i}
			ls.emitted++
		}
		for _, tx := range b.Transactions() {
			if tx.Type() == types.ExternalTxType {
				X = append(X, tx)
				xBlock = append(xBlock, i)
			}
		}
		_, order, err := hc.CalcOrder(b)
		if err != nil {
			return "order-error", err.Error(), ls
		}
		orders = append(orders, order)
		if order < sim.Zone {
			for _, d := range rawdb.ReadInboundEtxs(zone.DB, b.Hash()) {
				D = append(D, d)
				dBlock = append(dBlock, i)
			}
		} else if in := rawdb.ReadInboundEtxs(zone.DB, b.Hash()); len(in) > 0 {
			return "delivery-without-coincidence", fmt.Sprintf("zone-order block #%d carries %d inbound ETXs", b.NumberU64(sim.Zone), len(in)), ls
		}
	}
	// queue at the head + the head's inbound list that the next block will push
	st, err := zone.Core.Processor().State()
	if err != nil {
		return "head-state", err.Error(), ls
	}
	oldest, err1 := st.GetOldestIndex()
	newest, err2 := st.GetNewestIndex()
	if err1 != nil || err2 != nil {
		return "queue-counters", fmt.Sprint(err1, err2), ls
	}
	var Q []*types.Transaction
	for i := new(big.Int).Set(oldest); i.Cmp(newest) < 0; i.Add(i, common.Big1) {
		etx, err := st.ReadETX(i)
		if err != nil || etx == nil {
			return "queue-hole", fmt.Sprintf("queue index %v inside [%v,%v) unreadable: %v", i, oldest, newest, err), ls
		}
		Q = append(Q, etx)
	}
	ls.executed, ls.queued = len(X), len(Q)
	// D's last batch (the head's own, if the head is coincident) has not been pushed yet
	got := append(append([]*types.Transaction{}, X...), Q...)
	headIdx := len(chain) - 1
	nPending := 0
	for i := len(D) - 1; i >= 0 && dBlock[i] == headIdx; i-- {
		nPending++
	}
	ls.pendingPush = nPending
	want := D[:len(D)-nPending]
	ls.delivered = len(D)
	if len(got) != len(want) {
		return "count-mismatch", fmt.Sprintf("dominant chain handed down %d ETXs up to the head's parent, zone executed %d and queues %d", len(want), len(X), len(Q)), ls
	}
	for i := range want {
		if got[i].Hash() != want[i].Hash() {
			where := "executed"
			if i >= len(X) {
				where = "queued"
			}
			return "order-or-content-mismatch", fmt.Sprintf("position %d: dominant chain handed down %x (origin %x:%d) but the zone %s %x (origin %x:%d)", i, want[i].Hash().Bytes()[:6], want[i].OriginatingTxHash().Bytes()[:6], want[i].ETXIndex(), where, got[i].Hash().Bytes()[:6], got[i].OriginatingTxHash().Bytes()[:6], got[i].ETXIndex()), ls
		}
	}
	// an ETX is executed only in a block strictly after the coincident block it came with
	for i := range X {
		if xBlock[i] <= dBlock[i] {
			return "executed-before-delivery", fmt.Sprintf("ETX %x executed in block index %d but delivered with block index %d", X[i].Hash().Bytes()[:6], xBlock[i], dBlock[i]), ls
		}
	}
	// every delivered entry is exactly one emitted ETX of this chain, delivered at/after its origin
	seen := map[originID]bool{}
	for i, d := range D {
		id := originID{d.OriginatingTxHash(), d.ETXIndex()}
		if seen[id] {
			return "delivered-twice", fmt.Sprintf("origin id %x:%d handed down twice", id.h[:6], id.i), ls
		}
		seen[id] = true
		e, ok := E[id]
		if !ok {
			return "delivered-unknown", fmt.Sprintf("handed-down ETX %x:%d (type %d) was not emitted by any canonical zone block", id.h[:6], id.i, d.EtxType()), ls
		}
		if e.block > dBlock[i] {
			return "delivered-before-emission", fmt.Sprintf("ETX %x:%d emitted in block index %d but delivered with block index %d", id.h[:6], id.i, e.block, dBlock[i]), ls
		}
		if d.To().Location() == nil || !d.To().Location().Equal(sim.ZoneLoc) {
			return "delivered-to-wrong-zone", fmt.Sprintf("ETX %x:%d addressed to %v was handed to zone 0-0", id.h[:6], id.i, d.To().Location()), ls
		}
		if why := sameButRepriced(e.tx, d); why != "" {
			return "altered-in-transit", fmt.Sprintf("ETX %x:%d: %s", id.h[:6], id.i, why), ls
		}
		ls.types[d.EtxType()]++
		if d.EtxType() == types.ConversionRevertType {
			ls.reverted++
		} else if e.tx.EtxType() == types.ConversionType && e.tx.Value().Cmp(d.Value()) != 0 {
			ls.repriced++
		}
	}
	for i := range X {
		id := originID{X[i].OriginatingTxHash(), X[i].ETXIndex()}
		if gap := xBlock[i] - E[id].block; gap > ls.maxGap {
			ls.maxGap = gap
		}
	}
	// none lost: everything emitted for this zone at or before the last canonical prime block was handed down
	for id, e := range E {
		if e.tx.To().Location() == nil || !e.tx.To().Location().Equal(sim.ZoneLoc) {
			if seen[id] {
				return "delivered-to-wrong-zone", fmt.Sprintf("ETX %x:%d for another zone was handed down here", id.h[:6], id.i), ls
			}
			continue
		}
		if seen[id] {
			continue
		}
		// Delivery latency the protocol implements (liveness is not demanded, only that nothing is
		// dropped once these blocks exist): coinbase and conversion ETXs are rolled up by the first
		// coincident block after the origin block and handed down by the first prime block after
		// that one; all other ETXs for this zone are handed down by the first region-order block
		// after the origin block.
		if types.IsCoinBaseTx(e.tx) || types.IsConversionTx(e.tx) {
			r := -1
			for j := e.block + 1; j < len(chain); j++ {
				if orders[j] < sim.Zone {
					r = j
					break
				}
			}
			if r >= 0 {
				for j := r + 1; j < len(chain); j++ {
					if orders[j] == sim.Prime {
						return "lost", fmt.Sprintf("ETX %x:%d (type %d) emitted in block #%d; a coincident block followed at #%d and a prime block after it at #%d, but it was never handed down", id.h[:6], id.i, e.tx.EtxType(), chain[e.block].NumberU64(sim.Zone), chain[r].NumberU64(sim.Zone), chain[j].NumberU64(sim.Zone)), ls
					}
				}
			}
		} else {
			for j := e.block + 1; j < len(chain); j++ {
				if orders[j] == sim.Region {
					return "lost", fmt.Sprintf("ETX %x:%d (type %d) emitted in block #%d; a region-order block followed at #%d, but it was never handed down", id.h[:6], id.i, e.tx.EtxType(), chain[e.block].NumberU64(sim.Zone), chain[j].NumberU64(sim.Zone)), ls
				}
			}
		}
	}
	return "", "", ls
}

func TestC04H_Ledger(t *testing.T) {
	rapid.Check(t, func(t *rapid.T) {
		n, err := sim.NewNet(sim.Options{})
		if err != nil {
			t.Fatalf("HARNESS: net: %v", err)
		}
		defer n.Close()
		trunk := sim.NewActor(n)
		if err := trunk.Prelude(); err != nil {
			t.Fatalf("HARNESS: prelude: %v", err)
		}
		var events []string
		var log *[]string = &trunk.Log
		dump := func() any { return map[string]any{"history": *log, "events": events} }
		agg := ledgerStats{types: map[uint64]int{}}
		unexec := false
		check := func(what string) bool {
			fp, msg, ls := checkLedger(n)
			if fp != "" {
				stats.Violation(t, partH, "C04/H/"+fp, what+": "+msg, dump())
				return false
			}
			if ls.maxGap > agg.maxGap {
				agg.maxGap = ls.maxGap
			}
			if ls.executed > agg.executed {
				agg.executed = ls.executed
			}
			for k, v := range ls.types {
				if v > agg.types[k] {
					agg.types[k] = v
				}
			}
			agg.repriced += ls.repriced
			agg.reverted += ls.reverted
			return true
		}
		step := func(a *sim.Actor, what string) bool {
			if err := a.Adopt(); err != nil {
				t.Fatalf("HARNESS: adopt %s: %v", what, err)
			}
			a.Traffic(t)
			if _, err := a.MineRandom(t); err != nil {
				t.Fatalf("HARNESS: mine %s: %v\n%s", what, err, strings.Join(a.Log, "\n"))
			}
			if err := a.Adopt(); err != nil {
				t.Fatalf("HARNESS: adopt %s: %v", what, err)
			}
			return check(what)
		}
		if !check("after prelude") {
			return
		}
		for i, k := 0, rapid.IntRange(2, 12).Draw(t, "trunk"); i < k; i++ {
			if !step(trunk, "trunk") {
				return
			}
		}
		// fork: two branches, head switches between them (ETXs get un-executed and re-delivered)
		if rapid.Bool().Draw(t, "fork") {
			A, B := trunk.Fork(2), trunk.Fork(3)
			log = &A.Log
			for i, k := 0, rapid.IntRange(1, 5).Draw(t, "depthA"); i < k; i++ {
				if !step(A, "branch A") {
					return
				}
			}
			executedOnA := agg.executed
			log = &B.Log
			for i, k := 0, rapid.IntRange(1, 5).Draw(t, "depthB"); i < k; i++ {
				if !step(B, "branch B") {
					return
				}
			}
			for s, k := 0, rapid.IntRange(1, 3).Draw(t, "switches"); s < k; s++ {
				to := A
				name := "A"
				if s%2 == 1 {
					to, name = B, "B"
				}
				events = append(events, "switch to tip of "+name)
				if err := to.Adopt(); err != nil {
					t.Fatalf("HARNESS: switch: %v", err)
				}
				log = &to.Log
				if !check("after switching to " + name) {
					return
				}
			}
			if executedOnA > 0 {
				unexec = true
				stats.Label(partH, "reorg_unexecutes_etx")
			}
		}
		var tl []string
		for k, v := range agg.types {
			if v > 0 {
				tl = append(tl, fmt.Sprintf("t%d", k))
				stats.Label(partH, fmt.Sprintf("delivered_type%d", k))
			}
		}
		sort.Strings(tl)
		if agg.maxGap >= 3 {
			stats.Label(partH, "executed_3+_blocks_after_emission")
		}
		if agg.reverted > 0 {
			stats.Label(partH, "conversion_reverted")
		}
		if agg.repriced > 0 {
			stats.Label(partH, "conversion_repriced")
		}
		nontrivial := agg.executed > 0 && (agg.maxGap >= 3 || unexec)
		stats.Case(partH, fmt.Sprintf("%s gap%d unexec=%v", strings.Join(tl, ","), agg.maxGap, unexec), nontrivial)
		if nontrivial && stats.WantSample(partH) {
			stats.Sample(partH, map[string]any{"max_executed": agg.executed, "delivered_types": tl, "max_gap_blocks": agg.maxGap, "events": events, "tail_of_history": (*log)[max(0, len(*log)-10):]})
		}
	})
}
