// C17 — all storage backends are interchangeable.
// Lock-step state machine over leveldb, pebble, memorydb and the rawdb table wrapper against a
// map model (DESIGN.md §4 C17).
package c17

import (
	"bytes"
	"fmt"
	"io"
	"os"
	"sort"
	"strings"
	"testing"

	"github.com/dominant-strategies/go-quai/common"
	"github.com/dominant-strategies/go-quai/core/rawdb"
	"github.com/dominant-strategies/go-quai/ethdb"
	"github.com/dominant-strategies/go-quai/ethdb/leveldb"
	"github.com/dominant-strategies/go-quai/ethdb/memorydb"
	"github.com/dominant-strategies/go-quai/ethdb/pebble"
	"github.com/dominant-strategies/go-quai/log"
	"github.com/sirupsen/logrus"
	"pgregory.net/rapid"

	"verifharness/stats"
)

func nullLogger() *log.Logger {
	l := logrus.New()
	l.SetOutput(io.Discard)
	l.SetLevel(logrus.PanicLevel)
	return l
}

type store interface {
	Has(key []byte) (bool, error)
	Get(key []byte) ([]byte, error)
	Put(key, value []byte) error
	Delete(key []byte) error
	NewBatch() ethdb.Batch
	NewIterator(prefix, start []byte) ethdb.Iterator
	Compact(start, limit []byte) error
	Close() error
}

type backend struct {
	name   string
	s      store
	reopen func() store // nil for memory backends
}

var (
	logger   = nullLogger()
	loc      = common.Location{0, 0}
	backends []*backend
	caseNo   uint32
)

func openAll(t interface{ Fatalf(string, ...any) }) {
	if backends != nil {
		return
	}
	dir, err := os.MkdirTemp("", "c17")
	if err != nil {
		t.Fatalf("HARNESS: tempdir: %v", err)
	}
	ldbOpen := func() store {
		d, err := leveldb.New(dir+"/ldb", 16, 16, "", false, logger, loc)
		if err != nil {
			panic("HARNESS: leveldb open: " + err.Error())
		}
		return d
	}
	pebOpen := func() store {
		d, err := pebble.New(dir+"/peb", 16, 16, "", false, logger, loc)
		if err != nil {
			panic("HARNESS: pebble open: " + err.Error())
		}
		return d
	}
	backends = []*backend{
		{"leveldb", ldbOpen(), ldbOpen},
		{"pebble", pebOpen(), pebOpen},
		{"memorydb", memorydb.New(logger), nil},
		{"table", rawdb.NewTable(rawdb.NewMemoryDatabase(logger), "tbl-", loc, logger), nil},
	}
}

// ---- model ----------------------------------------------------------------------------------

type bop struct {
	del bool
	k   string
	v   []byte
}

type mbatch struct {
	ops      []bop
	tracking bool
	pending  map[string]*[]byte
	written  bool
}

type model struct {
	db      map[string][]byte
	batches [2]*mbatch
}

func (m *model) apply(ops []bop) {
	for _, o := range ops {
		if o.del {
			delete(m.db, o.k)
		} else {
			m.db[o.k] = o.v
		}
	}
}

func (m *model) iter(prefix, start string) [][2]string {
	var keys []string
	for k := range m.db {
		if strings.HasPrefix(k, prefix) && k >= prefix+start {
			keys = append(keys, k)
		}
	}
	sort.Strings(keys)
	out := make([][2]string, len(keys))
	for i, k := range keys {
		out[i] = [2]string{k, string(m.db[k])}
	}
	return out
}

// heldIter is a set of iterators (one per backend) opened at the same moment, with what the
// model held at that moment.
type heldIter struct {
	its  []ethdb.Iterator
	want [][2]string
	pos  int
}

// opRecorder records what a batch replays.
type opRecorder struct{ ops []bop }

func (r *opRecorder) Put(k, v []byte) error {
	r.ops = append(r.ops, bop{false, string(k), append([]byte{}, v...)})
	return nil
}
func (r *opRecorder) Delete(k []byte) error {
	r.ops = append(r.ops, bop{true, string(k), nil})
	return nil
}
func (r *opRecorder) Logger() *log.Logger { return logger }

// ---- generators -----------------------------------------------------------------------------

var nsLeads = []string{"", "t", "tbl-", "b-", "-l", "\xff", "\x00", "l"}

var keyParts = []string{"a", "ab", "abc", "b", "ba", "\x00", "\xff", "a\xff", "ut", "cl", "ab\x00", "abd"}

func genKey(t *rapid.T, label string) string { return rapid.SampledFrom(keyParts).Draw(t, label) }

func genVal(t *rapid.T) []byte {
	n := rapid.SampledFrom([]int{0, 0, 1, 2, 8, 33, 64}).Draw(t, "vlen")
	return rapid.SliceOfN(rapid.Byte(), n, n).Draw(t, "v")
}

var prefixes = []string{"", "a", "ab", "b", "\xff", "z", "a\xff"}
var starts = []string{"", "", "a", "b", "\x00", "\xff", "bc"}

type collector struct {
	kinds                            []string
	hist                             []string
	nt                               bool
	sawBDel                          [2]bool
	reopened                         bool
	gpAfterDel, iterStart, gpTracked bool
}

func (c *collector) op(kind, detail string) {
	c.kinds = append(c.kinds, kind)
	c.hist = append(c.hist, kind+" "+detail)
}

func TestC17_Lockstep(t *testing.T) {
	openAll(t)
	rapid.Check(t, func(t *rapid.T) {
		caseNo++
		// per-case namespace: cases share the disk databases. The namespace starts with a
		// rotating lead so that keys do not all begin with a hex digit: the leads contain the
		// table backend's own prefix and its bytes, and the extreme bytes.
		ns := fmt.Sprintf("%s%08x/", nsLeads[int(caseNo)%len(nsLeads)], caseNo)
		m := &model{db: map[string][]byte{}}
		var batches [4][2]ethdb.Batch
		col := &collector{}
		var held [2]*heldIter
		fail := func(fp, msg string) {
			stats.Violation(t, "lockstep", fp, msg, map[string]any{"history": col.hist})
		}
		full := func(k string) []byte { return []byte(ns + k) }

		checkGet := func(k string) {
			want, ok := m.db[ns+k]
			for _, b := range backends {
				got, err := b.s.Get(full(k))
				has, herr := b.s.Has(full(k))
				if herr != nil {
					fail("C17/has-error/"+b.name, fmt.Sprintf("Has(%q) error %v", k, herr))
				}
				if ok {
					if err != nil || !bytes.Equal(got, want) {
						fail("C17/get/"+b.name, fmt.Sprintf("Get(%q) = %x,%v want %x", k, got, err, want))
					}
					if !has {
						fail("C17/has/"+b.name, fmt.Sprintf("Has(%q)=false for live key", k))
					}
				} else {
					if err == nil {
						fail("C17/get-absent/"+b.name, fmt.Sprintf("Get(%q) = %x,nil for absent key", k, got))
					}
					if has {
						fail("C17/has-absent/"+b.name, fmt.Sprintf("Has(%q)=true for absent key", k))
					}
				}
			}
		}
		checkIter := func(prefix, start string) {
			want := m.iter(ns+prefix, start)
			for _, b := range backends {
				it := b.s.NewIterator([]byte(ns+prefix), []byte(start))
				var got [][2]string
				for it.Next() {
					got = append(got, [2]string{string(it.Key()), string(it.Value())})
				}
				err := it.Error()
				it.Release()
				if err != nil {
					fail("C17/iter-error/"+b.name, err.Error())
				}
				if len(got) != len(want) {
					fail("C17/iter/"+b.name, fmt.Sprintf("iter(%q,%q) returned %d items want %d: %q vs %q", prefix, start, len(got), len(want), got, want))
					continue
				}
				for i := range got {
					if got[i] != want[i] {
						fail("C17/iter/"+b.name, fmt.Sprintf("iter(%q,%q) item %d = %q want %q", prefix, start, i, got[i], want[i]))
						break
					}
				}
			}
		}
		liveSlots := func(needUnwritten bool) []int {
			var s []int
			for i, b := range m.batches {
				if b != nil && (!needUnwritten || !b.written) {
					s = append(s, i)
				}
			}
			return s
		}
		pickSlot := func(t *rapid.T, needUnwritten bool) int {
			s := liveSlots(needUnwritten)
			if len(s) == 0 {
				t.Skip("no batch")
			}
			return rapid.SampledFrom(s).Draw(t, "slot")
		}

		actions := map[string]func(*rapid.T){
			"put": func(t *rapid.T) {
				k, v := genKey(t, "k"), genVal(t)
				col.op("put", fmt.Sprintf("%q=%x", k, v))
				for _, b := range backends {
					if err := b.s.Put(full(k), v); err != nil {
						fail("C17/put-error/"+b.name, err.Error())
					}
				}
				m.db[ns+k] = v
				checkGet(k)
			},
			// overwrite of a live key with a different value of the same length (what an in-place
			// update optimisation would look like from outside)
			"putSameLen": func(t *rapid.T) {
				var live []string
				for _, k := range keyParts {
					if v, ok := m.db[ns+k]; ok && len(v) > 0 {
						live = append(live, k)
					}
				}
				if len(live) == 0 {
					t.Skip("no live non-empty key")
				}
				k := rapid.SampledFrom(live).Draw(t, "k")
				v := append([]byte{}, m.db[ns+k]...)
				v[rapid.IntRange(0, len(v)-1).Draw(t, "at")] ^= byte(1 + rapid.IntRange(0, 254).Draw(t, "xor"))
				col.op("putSameLen", fmt.Sprintf("%q=%x", k, v))
				for _, b := range backends {
					if err := b.s.Put(full(k), v); err != nil {
						fail("C17/put-error/"+b.name, err.Error())
					}
				}
				m.db[ns+k] = v
				checkGet(k)
			},
			"delete": func(t *rapid.T) {
				k := genKey(t, "k")
				col.op("delete", fmt.Sprintf("%q", k))
				for _, b := range backends {
					if err := b.s.Delete(full(k)); err != nil {
						fail("C17/delete-error/"+b.name, err.Error())
					}
				}
				delete(m.db, ns+k)
				checkGet(k)
			},
			"get": func(t *rapid.T) {
				k := genKey(t, "k")
				col.op("get", fmt.Sprintf("%q", k))
				checkGet(k)
			},
			"iter": func(t *rapid.T) {
				p, s := rapid.SampledFrom(prefixes).Draw(t, "prefix"), rapid.SampledFrom(starts).Draw(t, "start")
				col.op("iter", fmt.Sprintf("%q from %q", p, s))
				if s != "" && len(m.db) > 0 {
					col.nt = true
					col.iterStart = true
				}
				checkIter(p, s)
			},
			"newBatch": func(t *rapid.T) {
				slot := rapid.IntRange(0, 1).Draw(t, "slot")
				col.op("newBatch", fmt.Sprint(slot))
				for i, b := range backends {
					batches[i][slot] = b.s.NewBatch()
					if sz := batches[i][slot].ValueSize(); sz != 0 {
						fail("C17/valuesize-new/"+b.name, fmt.Sprintf("fresh batch ValueSize=%d", sz))
					}
				}
				m.batches[slot] = &mbatch{}
				col.sawBDel[slot] = false
				if rapid.Bool().Draw(t, "track") { // callers enable tracking right after NewBatch
					for i := range backends {
						batches[i][slot].SetPending(true)
					}
					m.batches[slot].pending = map[string]*[]byte{}
					m.batches[slot].tracking = true
				}
			},
			"setPending": func(t *rapid.T) {
				slot := pickSlot(t, true)
				on := rapid.Bool().Draw(t, "on")
				col.op("setPending", fmt.Sprintf("%d %v", slot, on))
				for i := range backends {
					batches[i][slot].SetPending(on)
				}
				mb := m.batches[slot]
				mb.pending = map[string]*[]byte{}
				mb.tracking = on
			},
			"bput": func(t *rapid.T) {
				slot := pickSlot(t, true)
				k, v := genKey(t, "k"), genVal(t)
				col.op("bput", fmt.Sprintf("%d %q=%x", slot, k, v))
				for i, b := range backends {
					if err := batches[i][slot].Put(full(k), v); err != nil {
						fail("C17/bput-error/"+b.name, err.Error())
					}
				}
				mb := m.batches[slot]
				mb.ops = append(mb.ops, bop{false, ns + k, v})
				if mb.tracking {
					vv := v
					mb.pending[ns+k] = &vv
				}
			},
			"bdel": func(t *rapid.T) {
				slot := pickSlot(t, true)
				k := genKey(t, "k")
				col.op("bdel", fmt.Sprintf("%d %q", slot, k))
				for i, b := range backends {
					if err := batches[i][slot].Delete(full(k)); err != nil {
						fail("C17/bdel-error/"+b.name, err.Error())
					}
				}
				mb := m.batches[slot]
				mb.ops = append(mb.ops, bop{true, ns + k, nil})
				if mb.tracking {
					mb.pending[ns+k] = nil
					col.sawBDel[slot] = true
				}
			},
			"getPending": func(t *rapid.T) {
				slot := pickSlot(t, false)
				k := genKey(t, "k")
				mb := m.batches[slot]
				if len(mb.ops) > 0 && rapid.Bool().Draw(t, "fromBatch") {
					k = strings.TrimPrefix(mb.ops[rapid.IntRange(0, len(mb.ops)-1).Draw(t, "opIdx")].k, ns)
				}
				col.op("getPending", fmt.Sprintf("%d %q", slot, k))
				wantDel, wantVal, tracked := false, []byte(nil), false
				if p, ok := mb.pending[ns+k]; ok {
					tracked = true
					if p == nil {
						wantDel = true
					} else {
						wantVal = *p
					}
				}
				if col.sawBDel[slot] && !mb.written {
					col.nt = true
					col.gpAfterDel = true
				}
				if tracked {
					col.gpTracked = true
				}
				for i, b := range backends {
					del, val := batches[i][slot].GetPending(full(k))
					if del != wantDel || !bytes.Equal(val, wantVal) || (tracked && !wantDel && (val == nil) != (wantVal == nil) && len(wantVal) > 0) {
						fail("C17/getpending/"+b.name, fmt.Sprintf("GetPending(%q) = (%v,%x) want (%v,%x) tracked=%v", k, del, val, wantDel, wantVal, tracked))
					}
				}
				// the pending view must never disturb what the database itself answers
				checkGet(k)
			},
			"write": func(t *rapid.T) {
				slot := pickSlot(t, true)
				col.op("write", fmt.Sprint(slot))
				for i, b := range backends {
					if err := batches[i][slot].Write(); err != nil {
						fail("C17/write-error/"+b.name, err.Error())
					}
				}
				mb := m.batches[slot]
				m.apply(mb.ops)
				mb.written = true
				mb.pending = nil
				mb.tracking = false
				for _, k := range keyParts {
					checkGet(k)
				}
				checkIter("", "")
			},
			"reset": func(t *rapid.T) {
				slot := pickSlot(t, false)
				col.op("reset", fmt.Sprint(slot))
				for i, b := range backends {
					batches[i][slot].Reset()
					if sz := batches[i][slot].ValueSize(); sz != 0 {
						fail("C17/valuesize-reset/"+b.name, fmt.Sprintf("ValueSize after Reset=%d", sz))
					}
				}
				m.batches[slot] = &mbatch{}
				col.sawBDel[slot] = false
			},
			"replayToDB": func(t *rapid.T) {
				slot := pickSlot(t, true)
				col.op("replayToDB", fmt.Sprint(slot))
				for i, b := range backends {
					if err := batches[i][slot].Replay(b.s.(ethdb.KeyValueWriter)); err != nil {
						fail("C17/replay-error/"+b.name, err.Error())
					}
				}
				m.apply(m.batches[slot].ops)
				checkIter("", "")
			},
			"replayToBatch": func(t *rapid.T) {
				slot := pickSlot(t, true)
				other := 1 - slot
				if m.batches[other] == nil || m.batches[other].written {
					t.Skip("no target batch")
				}
				col.op("replayToBatch", fmt.Sprintf("%d->%d", slot, other))
				for i, b := range backends {
					if err := batches[i][slot].Replay(batches[i][other]); err != nil {
						fail("C17/replay-error/"+b.name, err.Error())
					}
				}
				src, dst := m.batches[slot], m.batches[other]
				for _, o := range src.ops {
					dst.ops = append(dst.ops, o)
					if dst.tracking {
						if o.del {
							dst.pending[o.k] = nil
							col.sawBDel[other] = true
						} else {
							vv := o.v
							dst.pending[o.k] = &vv
						}
					}
				}
			},
			// an iterator shows the content as of its creation, whatever is written while it is held
			"openIter": func(t *rapid.T) {
				slot := rapid.IntRange(0, 1).Draw(t, "islot")
				if held[slot] != nil {
					t.Skip("iterator slot in use")
				}
				p, s := rapid.SampledFrom(prefixes).Draw(t, "prefix"), rapid.SampledFrom(starts).Draw(t, "start")
				col.op("openIter", fmt.Sprintf("%d %q from %q", slot, p, s))
				h := &heldIter{want: m.iter(ns+p, s)}
				for _, b := range backends {
					h.its = append(h.its, b.s.NewIterator([]byte(ns+p), []byte(s)))
				}
				held[slot] = h
			},
			"stepIter": func(t *rapid.T) {
				var live []int
				for i, h := range held {
					if h != nil {
						live = append(live, i)
					}
				}
				if len(live) == 0 {
					t.Skip("no held iterator")
				}
				slot := rapid.SampledFrom(live).Draw(t, "islot")
				h := held[slot]
				n := rapid.IntRange(1, 4).Draw(t, "nsteps")
				col.op("stepIter", fmt.Sprintf("%d x%d (writes since it was opened: %d)", slot, n, len(col.hist)))
				for k := 0; k < n; k++ {
					for i, b := range backends {
						ok := h.its[i].Next()
						if h.pos >= len(h.want) {
							if ok {
								fail("C17/held-iter/"+b.name, fmt.Sprintf("iterator opened earlier yields %q=%x after the %d items that existed when it was opened", h.its[i].Key(), h.its[i].Value(), len(h.want)))
							}
							continue
						}
						if !ok {
							fail("C17/held-iter/"+b.name, fmt.Sprintf("iterator opened earlier ends after %d of the %d items that existed when it was opened (error %v)", h.pos, len(h.want), h.its[i].Error()))
							continue
						}
						if got := [2]string{string(h.its[i].Key()), string(h.its[i].Value())}; got != h.want[h.pos] {
							fail("C17/held-iter/"+b.name, fmt.Sprintf("iterator opened earlier: item %d = %q, the database held %q when it was opened", h.pos, got, h.want[h.pos]))
						}
					}
					if h.pos < len(h.want) {
						h.pos++
						if len(h.want) > 0 {
							col.nt = true
						}
					}
				}
			},
			"closeIter": func(t *rapid.T) {
				slot := rapid.IntRange(0, 1).Draw(t, "islot")
				if held[slot] == nil {
					t.Skip("no held iterator")
				}
				col.op("closeIter", fmt.Sprint(slot))
				for _, it := range held[slot].its {
					it.Release()
				}
				held[slot] = nil
			},
			// a written batch still replays exactly the operations that were issued on it (the trie
			// database does Write, Replay, Reset), whatever was written to the database since
			"replayWritten": func(t *rapid.T) {
				var ws []int
				for i, b := range m.batches {
					if b != nil && b.written {
						ws = append(ws, i)
					}
				}
				if len(ws) == 0 {
					t.Skip("no written batch")
				}
				slot := rapid.SampledFrom(ws).Draw(t, "slot")
				col.op("replayWritten", fmt.Sprint(slot))
				for i, b := range backends {
					rec := &opRecorder{}
					if err := batches[i][slot].Replay(rec); err != nil {
						fail("C17/replay-error/"+b.name, err.Error())
					}
					want := m.batches[slot].ops
					if len(rec.ops) != len(want) {
						fail("C17/replay-written/"+b.name, fmt.Sprintf("replay of a written batch yields %d operations, %d were issued", len(rec.ops), len(want)))
						continue
					}
					for j := range want {
						if rec.ops[j].del != want[j].del || rec.ops[j].k != want[j].k || !bytes.Equal(rec.ops[j].v, want[j].v) {
							fail("C17/replay-written/"+b.name, fmt.Sprintf("replay of a written batch: operation %d is (del=%v %q=%x), issued was (del=%v %q=%x)", j, rec.ops[j].del, rec.ops[j].k, rec.ops[j].v, want[j].del, want[j].k, want[j].v))
							break
						}
					}
				}
				if len(m.batches[slot].ops) > 0 {
					col.nt = true
				}
			},
			"reopen": func(t *rapid.T) {
				if len(liveSlots(false)) > 0 {
					t.Skip("batches alive")
				}
				if held[0] != nil || held[1] != nil {
					t.Skip("iterators held")
				}
				if rapid.IntRange(0, 3).Draw(t, "gate") != 0 {
					t.Skip("gated")
				}
				col.op("reopen", "")
				col.reopened = true
				for _, b := range backends {
					if b.reopen != nil {
						if err := b.s.Close(); err != nil {
							fail("C17/close-error/"+b.name, err.Error())
						}
						b.s = b.reopen()
					}
				}
				checkIter("", "")
			},
			"compact": func(t *rapid.T) {
				if rapid.IntRange(0, 5).Draw(t, "gate") != 0 {
					t.Skip("gated")
				}
				col.op("compact", "")
				for _, b := range backends {
					if err := b.s.Compact(nil, nil); err != nil {
						fail("C17/compact-error/"+b.name, err.Error())
					}
				}
				checkIter("", "")
			},
			"bdel2":       nil,
			"getPending2": nil,
			"bput2":       nil,
			"dropBatch": func(t *rapid.T) {
				slot := pickSlot(t, false)
				col.op("dropBatch", fmt.Sprint(slot))
				m.batches[slot] = nil // an unwritten batch that is dropped applies none of its ops
				for _, k := range keyParts {
					checkGet(k)
				}
			},
			"": func(t *rapid.T) {},
		}
		actions["bdel2"], actions["getPending2"], actions["bput2"] = actions["bdel"], actions["getPending"], actions["bput"]
		defer func() {
			for _, h := range held {
				if h != nil {
					for _, it := range h.its {
						it.Release()
					}
				}
			}
		}()
		t.Repeat(actions)
		for i, h := range held {
			if h != nil {
				for _, it := range h.its {
					it.Release()
				}
				held[i] = nil
			}
		}
		// final full comparison
		checkIter("", "")
		for _, k := range keyParts {
			checkGet(k)
		}
		// clean namespace so the shared disk databases stay small
		for _, b := range backends {
			it := b.s.NewIterator([]byte(ns), nil)
			var ks [][]byte
			for it.Next() {
				ks = append(ks, append([]byte{}, it.Key()...))
			}
			it.Release()
			for _, k := range ks {
				b.s.Delete(k)
			}
		}
		bigrams := map[string]bool{}
		for i := 1; i < len(col.kinds); i++ {
			bigrams[col.kinds[i-1]+">"+col.kinds[i]] = true
		}
		var bl []string
		for b := range bigrams {
			bl = append(bl, b)
		}
		sort.Strings(bl)
		labels := []string{}
		if col.reopened {
			labels = append(labels, "reopen")
		}
		if col.gpAfterDel {
			labels = append(labels, "getpending_after_batch_delete")
		}
		if col.gpTracked {
			labels = append(labels, "getpending_tracked_key")
		}
		if col.iterStart {
			labels = append(labels, "iter_with_start")
		}
		stats.Case("lockstep", strings.Join(bl, ","), col.nt, labels...)
		if col.nt && stats.WantSample("lockstep") {
			stats.Sample("lockstep", col.hist)
		}
	})
}
