// C09 — accepted headers extend their parent by the protocol's rules.
// For every (parent, child) pair of every view (zone, region, prime) of generated histories:
// the accepted child verifies; every single-field deviation, re-sealed, is refused by header
// verification (and, if that lets it pass, by the node's append path); derived fields equal an
// arithmetic re-derivation from the parent; accumulated entropy strictly increases; the block's
// order is stable across calls, cache purges and a restart (DESIGN.md §4 C09).
package c09

import (
	"fmt"
	"math/big"
	"sort"
	"strings"
	"testing"

	"github.com/dominant-strategies/go-quai/common"
	"github.com/dominant-strategies/go-quai/core"
	"github.com/dominant-strategies/go-quai/core/types"
	"github.com/dominant-strategies/go-quai/params"
	"pgregory.net/rapid"

	"verifharness/sim"
	"verifharness/stats"
)

const part = "headers"

type deviation struct {
	name string
	ctxs []int // views in which the field is verified
	// apply returns false when not applicable
	apply func(h *types.WorkObject, parent *types.WorkObject, ctx int) bool
}

func b1(x *big.Int, d int64) *big.Int { return new(big.Int).Add(x, big.NewInt(d)) }
func bump(h common.Hash) common.Hash  { h[9] ^= 0x33; return h }

var all3 = []int{sim.Prime, sim.Region, sim.Zone}
var zoneOnly = []int{sim.Zone}
var primeOnly = []int{sim.Prime}
var regionOnly = []int{sim.Region}
var subs = []int{sim.Region, sim.Zone}

func deviations() []deviation {
	foreign := common.HexToAddress("0x0100000000000000000000000000000000000011", sim.ZoneLoc)
	return []deviation{
		{"number+1", all3, func(h, p *types.WorkObject, c int) bool {
			if c == sim.Zone {
				h.WorkObjectHeader().SetNumber(b1(h.Number(c), 1))
			} else {
				h.Header().SetNumber(b1(h.Number(c), 1), c)
			}
			return true
		}},
		{"number-1", all3, func(h, p *types.WorkObject, c int) bool {
			if h.Number(c).Sign() == 0 {
				return false
			}
			if c == sim.Zone {
				h.WorkObjectHeader().SetNumber(b1(h.Number(c), -1))
			} else {
				h.Header().SetNumber(b1(h.Number(c), -1), c)
			}
			return true
		}},
		// numbers are unbounded integers on the wire: values equal to parent+1 modulo 2^64 / 2^32
		{"number+2^64", all3, func(h, p *types.WorkObject, c int) bool {
			n := new(big.Int).Add(h.Number(c), new(big.Int).Lsh(big.NewInt(1), 64))
			if c == sim.Zone {
				h.WorkObjectHeader().SetNumber(n)
			} else {
				h.Header().SetNumber(n, c)
			}
			return true
		}},
		{"number+3*2^200", all3, func(h, p *types.WorkObject, c int) bool {
			n := new(big.Int).Add(h.Number(c), new(big.Int).Lsh(big.NewInt(3), 200))
			if c == sim.Zone {
				h.WorkObjectHeader().SetNumber(n)
			} else {
				h.Header().SetNumber(n, c)
			}
			return true
		}},
		{"number+2^32", all3, func(h, p *types.WorkObject, c int) bool {
			n := new(big.Int).Add(h.Number(c), new(big.Int).Lsh(big.NewInt(1), 32))
			if c == sim.Zone {
				h.WorkObjectHeader().SetNumber(n)
			} else {
				h.Header().SetNumber(n, c)
			}
			return true
		}},
		{"time<parent", all3, func(h, p *types.WorkObject, c int) bool {
			if p.Time() == 0 {
				return false
			}
			h.WorkObjectHeader().SetTime(p.Time() - 1)
			return true
		}},
		{"time=far-future", all3, func(h, p *types.WorkObject, c int) bool {
			h.WorkObjectHeader().SetTime(h.Time() + 10*365*86400)
			return true
		}},
		{"difficulty+1", zoneOnly, func(h, p *types.WorkObject, c int) bool {
			h.WorkObjectHeader().SetDifficulty(b1(h.Difficulty(), 1))
			return true
		}},
		{"difficulty-1", zoneOnly, func(h, p *types.WorkObject, c int) bool {
			h.WorkObjectHeader().SetDifficulty(b1(h.Difficulty(), -1))
			return true
		}},
		{"gasLimit+1", zoneOnly, func(h, p *types.WorkObject, c int) bool { h.Header().SetGasLimit(h.GasLimit() + 1); return true }},
		{"gasLimit-1", zoneOnly, func(h, p *types.WorkObject, c int) bool {
			if h.GasLimit() == 0 || h.GasLimit()-1 < h.GasUsed() {
				return false
			}
			h.Header().SetGasLimit(h.GasLimit() - 1)
			return true
		}},
		{"stateLimit+1", zoneOnly, func(h, p *types.WorkObject, c int) bool { h.Header().SetStateLimit(h.StateLimit() + 1); return true }},
		{"baseFee+1", zoneOnly, func(h, p *types.WorkObject, c int) bool { h.Header().SetBaseFee(b1(h.BaseFee(), 1)); return true }},
		{"baseFee-1", zoneOnly, func(h, p *types.WorkObject, c int) bool {
			if h.BaseFee().Sign() == 0 {
				return false
			}
			h.Header().SetBaseFee(b1(h.BaseFee(), -1))
			return true
		}},
		{"primeTerminusHash", zoneOnly, func(h, p *types.WorkObject, c int) bool {
			h.Header().SetPrimeTerminusHash(bump(h.PrimeTerminusHash()))
			return true
		}},
		{"primeTerminusNumber+1", zoneOnly, func(h, p *types.WorkObject, c int) bool {
			h.WorkObjectHeader().SetPrimeTerminusNumber(b1(h.PrimeTerminusNumber(), 1))
			return true
		}},
		{"expansionNumber+1", zoneOnly, func(h, p *types.WorkObject, c int) bool {
			h.Header().SetExpansionNumber(h.ExpansionNumber() + 1)
			return true
		}},
		{"parentEntropy+1", all3, func(h, p *types.WorkObject, c int) bool {
			h.Header().SetParentEntropy(b1(h.ParentEntropy(c), 1), c)
			return true
		}},
		{"parentDeltaEntropy+1", subs, func(h, p *types.WorkObject, c int) bool {
			h.Header().SetParentDeltaEntropy(b1(h.ParentDeltaEntropy(c), 1), c)
			return true
		}},
		{"parentUncledDeltaEntropy+1", subs, func(h, p *types.WorkObject, c int) bool {
			h.Header().SetParentUncledDeltaEntropy(b1(h.ParentUncledDeltaEntropy(c), 1), c)
			return true
		}},
		{"location-other-zone", subs, func(h, p *types.WorkObject, c int) bool {
			h.WorkObjectHeader().SetLocation(common.Location{1, 1})
			return true
		}},
		{"coinbase-out-of-scope", zoneOnly, func(h, p *types.WorkObject, c int) bool {
			h.WorkObjectHeader().SetPrimaryCoinbase(foreign)
			return true
		}},
		{"lock-byte-in-data-invalid", zoneOnly, func(h, p *types.WorkObject, c int) bool {
			d := append([]byte{}, h.Data()...)
			if len(d) == 0 {
				return false
			}
			d[0] = 9
			h.WorkObjectHeader().SetData(d)
			return true
		}},
		{"lock-nonzero-too-early", zoneOnly, func(h, p *types.WorkObject, c int) bool {
			if h.NumberU64(sim.Zone) >= 2*params.BlocksPerMonth || h.Lock() != 0 {
				return false
			}
			h.WorkObjectHeader().SetLock(1)
			return true
		}},
		{"data-empty", zoneOnly, func(h, p *types.WorkObject, c int) bool { h.WorkObjectHeader().SetData(nil); return true }},
		{"data-contract-out-of-scope", zoneOnly, func(h, p *types.WorkObject, c int) bool {
			h.WorkObjectHeader().SetData(append([]byte{0}, foreign.Bytes()...))
			return true
		}},
		{"gasUsed>gasLimit", zoneOnly, func(h, p *types.WorkObject, c int) bool { h.Header().SetGasUsed(h.GasLimit() + 1); return true }},
		{"stateUsed>stateLimit", zoneOnly, func(h, p *types.WorkObject, c int) bool { h.Header().SetStateUsed(h.StateLimit() + 1); return true }},
		{"extra-too-long", all3, func(h, p *types.WorkObject, c int) bool {
			h.Header().SetExtra(make([]byte, params.MaximumExtraDataSize+1))
			return true
		}},
		{"shaShareTarget-before-fork", zoneOnly, func(h, p *types.WorkObject, c int) bool {
			if h.PrimeTerminusNumber().Uint64() >= params.KawPowForkBlock {
				return false
			}
			h.WorkObjectHeader().SetShaShareTarget(big.NewInt(1))
			return true
		}},
		{"kawpowDifficulty-before-fork", zoneOnly, func(h, p *types.WorkObject, c int) bool {
			if h.PrimeTerminusNumber().Uint64() >= params.KawPowForkBlock {
				return false
			}
			h.WorkObjectHeader().SetKawpowDifficulty(big.NewInt(1))
			return true
		}},
		{"shaDiffAndCount-before-fork", zoneOnly, func(h, p *types.WorkObject, c int) bool {
			if h.PrimeTerminusNumber().Uint64() >= params.KawPowForkBlock {
				return false
			}
			h.WorkObjectHeader().SetShaDiffAndCount(types.NewPowShareDiffAndCount(big.NewInt(1), big.NewInt(1), big.NewInt(0)))
			return true
		}},
		{"efficiencyScore+1", primeOnly, func(h, p *types.WorkObject, c int) bool {
			h.Header().SetEfficiencyScore(h.EfficiencyScore() + 1)
			return true
		}},
		{"thresholdCount+1", primeOnly, func(h, p *types.WorkObject, c int) bool {
			h.Header().SetThresholdCount(h.ThresholdCount() + 1)
			return true
		}},
		{"etxEligibleSlices", primeOnly, func(h, p *types.WorkObject, c int) bool {
			h.Header().SetEtxEligibleSlices(bump(h.EtxEligibleSlices()))
			return true
		}},
		{"minerDifficulty+1", primeOnly, func(h, p *types.WorkObject, c int) bool {
			h.Header().SetMinerDifficulty(b1(h.MinerDifficulty(), 1))
			return true
		}},
		{"primeStateRoot", primeOnly, func(h, p *types.WorkObject, c int) bool {
			h.Header().SetPrimeStateRoot(bump(h.PrimeStateRoot()))
			return true
		}},
		{"regionStateRoot", regionOnly, func(h, p *types.WorkObject, c int) bool {
			h.Header().SetRegionStateRoot(bump(h.RegionStateRoot()))
			return true
		}},
	}
}

func has(l []int, x int) bool {
	for _, v := range l {
		if v == x {
			return true
		}
	}
	return false
}

// refDifficulty re-derives the zone difficulty from parent and grandparent step by step.
func refDifficulty(parent, grand *types.WorkObject, grandIsGenesis bool, durationLimit, minDifficulty *big.Int) *big.Int {
	if grand == nil || grandIsGenesis {
		return new(big.Int).Set(parent.Difficulty())
	}
	dt := int64(parent.Time()) - int64(grand.Time())
	if dt > params.MaxTimeDiffBetweenBlocks {
		dt = params.MaxTimeDiffBetweenBlocks
	}
	e := new(big.Int).Sub(durationLimit, big.NewInt(dt))
	e.Mul(e, parent.Difficulty())
	k := int64(parent.Difficulty().BitLen() - 1) // floor(log2(difficulty))
	e.Mul(e, big.NewInt(k))
	for _, div := range []*big.Int{durationLimit, big.NewInt(params.DifficultyAdjustmentFactor), params.DifficultyAdjustmentPeriod} {
		e.Div(e, div) // Euclidean division, one divisor at a time, as the protocol does
	}
	e.Add(e, parent.Difficulty())
	if e.Cmp(minDifficulty) < 0 {
		return new(big.Int).Set(minDifficulty)
	}
	return e
}

func refGasLimit(parent *types.WorkObject, ceil uint64) uint64 {
	pn := parent.NumberU64(sim.Zone)
	if pn < params.TimeToStartTx {
		return 0
	}
	min := params.MinGasLimit(pn)
	if parent.GasLimit() == 0 {
		return min
	}
	if pn < 2*params.BlocksPerMonth {
		g := pn * ceil / (2 * params.BlocksPerMonth)
		if g < min {
			return min
		}
		return g
	}
	return ceil
}

func TestC09_Headers(t *testing.T) {
	devs := deviations()
	rapid.Check(t, func(t *rapid.T) {
		n, err := sim.NewNet(sim.Options{})
		if err != nil {
			t.Fatalf("HARNESS: net: %v", err)
		}
		defer n.Close()
		a := sim.NewActor(n)
		var devLog []string
		dump := func() any { return map[string]any{"history": a.Log, "deviations": devLog} }
		if err := a.Prelude(); err != nil {
			t.Fatalf("HARNESS: prelude: %v", err)
		}
		steps := rapid.IntRange(3, 14).Draw(t, "steps")
		for i := 0; i < steps; i++ {
			if err := a.Adopt(); err != nil {
				t.Fatalf("HARNESS: adopt: %v", err)
			}
			a.Traffic(t)
			if _, err := a.MineRandom(t); err != nil {
				t.Fatalf("HARNESS: mine: %v\n%s", err, strings.Join(a.Log, "\n"))
			}
		}
		if err := a.Adopt(); err != nil {
			t.Fatalf("HARNESS: adopt: %v", err)
		}
		seenDev := map[string]bool{}
		nDev := 0
		orders := map[common.Hash]int{}
		entropies := map[common.Hash]*big.Int{}
		withUncles := 0
		hcOf := func(ctx int) *core.HeaderChain { return n.Nodes[ctx].Core.Slice().HeaderChain() }
		// examine a generated subset of blocks in depth (all blocks for entropy/order/formulas)
		for bi, b := range a.Blocks {
			// order stability
			s0, o0, err0 := hcOf(sim.Zone).CalcOrder(b.Zone())
			var s0v *big.Int
			if s0 != nil {
				s0v = new(big.Int).Set(s0)
			}
			// delta and total entropy are evaluated between the order calls, on a warm cache
			d1 := new(big.Int).Set(hcOf(sim.Zone).DeltaLogEntropy(b.Zone()))
			d2 := new(big.Int).Set(hcOf(sim.Zone).DeltaLogEntropy(b.Zone()))
			s1, o1, err1 := hcOf(sim.Zone).CalcOrder(b.Zone())
			hcOf(sim.Zone).VerifPurgeCaches()
			s2, o2, err2 := hcOf(sim.Zone).CalcOrder(b.Zone())
			d3 := hcOf(sim.Zone).DeltaLogEntropy(b.Zone())
			if err0 != nil || err1 != nil || err2 != nil || o0 != o1 || o1 != o2 || o1 != b.Order {
				stats.Violation(t, part, "C09/order-unstable", fmt.Sprintf("block %d: order %d/%v, %d/%v, then %d/%v after cache purge, mined as %d", bi, o0, err0, o1, err1, o2, err2, b.Order), dump())
				return
			}
			if s0v.Cmp(s1) != 0 || s0v.Cmp(s2) != 0 || d1.Cmp(d2) != 0 || d1.Cmp(d3) != 0 {
				stats.Violation(t, part, "C09/entropy-unstable/calls", fmt.Sprintf("block %d (%d uncles): seal entropy %v, %v, %v (cold); delta entropy %v, %v, %v (cold)", bi, len(b.Zone().Uncles()), s0v, s1, s2, d1, d2, d3), dump())
				return
			}
			// the order is the protocol's function of the seal and the recorded entropy deltas
			if pow, err := hcOf(sim.Zone).VerifySeal(b.Zone().WorkObjectHeader()); err != nil {
				t.Fatalf("HARNESS: VerifySeal of an accepted block: %v", err)
			} else if ref, why := refOrder(b.Zone(), pow); ref != o1 {
				stats.Violation(t, part, "C09/order-differs-from-rule", fmt.Sprintf("block %d (zone #%d): CalcOrder says %d, the order rule applied to its seal and recorded deltas gives %d (%s)", bi, b.Zone().NumberU64(sim.Zone), o1, ref, why), dump())
				return
			} else {
				stats.Label(part, fmt.Sprintf("order_rule_checked_%d", ref))
				if strings.Contains(why, "seal-grade-above-order") {
					stats.Label(part, "order_limited_by_delta_entropy")
				}
			}
			if len(b.Zone().Uncles()) > 0 {
				withUncles++
				// the share part of the entropy across the fork boundary: from the fork block on
				// it is a function of the number of shares only, so the same share list must
				// weigh the same at the fork block itself, one block later and far later (the
				// header rules treat the fork block as post-fork: fork fields are demanded at it)
				var vals []*big.Int
				ptns := []uint64{params.KawPowForkBlock, params.KawPowForkBlock + 1, params.KawPowForkBlock + 1_000_000}
				for _, ptn := range ptns {
					c := types.CopyWorkObject(b.Zone())
					c.WorkObjectHeader().SetPrimeTerminusNumber(new(big.Int).SetUint64(ptn))
					var v *big.Int
					var err error
					func() {
						defer func() {
							if r := recover(); r != nil {
								err = fmt.Errorf("panic: %v", r)
							}
						}()
						v, err = hcOf(sim.Zone).WorkShareLogEntropy(c)
					}()
					if err != nil || v == nil {
						stats.Violation(t, part, "C09/share-entropy/fork-boundary-error", fmt.Sprintf("block %d (%d shares) re-labelled with prime terminus number %d (fork block %d): share entropy fails: %v", bi, len(b.Zone().Uncles()), ptn, params.KawPowForkBlock, err), dump())
						return
					}
					vals = append(vals, new(big.Int).Set(v))
				}
				if vals[0].Cmp(vals[1]) != 0 || vals[1].Cmp(vals[2]) != 0 {
					stats.Violation(t, part, "C09/share-entropy/differs-across-fork-boundary", fmt.Sprintf("block %d: the same %d shares weigh %v at prime terminus number %d (the fork block), %v at %d and %v at %d", bi, len(b.Zone().Uncles()), vals[0], ptns[0], vals[1], ptns[1], vals[2], ptns[2]), dump())
					return
				}
				stats.Label(part, "share_entropy_at_fork_boundary")
			}
			orders[b.Zone().Hash()] = o1
			entropies[b.Zone().Hash()] = new(big.Int).Set(hcOf(sim.Zone).TotalLogEntropy(b.Zone()))
			for ctx := b.Order; ctx < 3; ctx++ {
				child := b.Views[ctx]
				hc := hcOf(ctx)
				parent := hc.GetBlockByHash(child.ParentHash(ctx))
				if parent == nil {
					t.Fatalf("HARNESS: parent missing ctx %d", ctx)
				}
				// accumulated entropy strictly increases
				pe, ce := hc.TotalLogEntropy(parent), hc.TotalLogEntropy(child)
				if pe2, ce2 := hc.TotalLogEntropy(parent), hc.TotalLogEntropy(child); pe2.Cmp(pe) != 0 || ce2.Cmp(ce) != 0 {
					stats.Violation(t, part, fmt.Sprintf("C09/entropy-unstable/total/ctx%d", ctx), fmt.Sprintf("block %d view %d: accumulated entropy of parent %v then %v, of child %v then %v", bi, ctx, pe, pe2, ce, ce2), dump())
					return
				}
				if ce.Cmp(pe) <= 0 {
					stats.Violation(t, part, fmt.Sprintf("C09/entropy-not-increasing/ctx%d", ctx), fmt.Sprintf("block %d view %d: entropy(child)=%v <= entropy(parent)=%v", bi, ctx, ce, pe), dump())
					return
				}
				if child.ParentEntropy(ctx).Cmp(pe) != 0 {
					stats.Violation(t, part, fmt.Sprintf("C09/parent-entropy-field/ctx%d", ctx), fmt.Sprintf("block %d view %d records parent entropy %v, parent's accumulated entropy is %v", bi, ctx, child.ParentEntropy(ctx), pe), dump())
					return
				}
				now := int64(child.Time())
				// the node verified this header when it accepted the block: with the same clock bound the
				// verdict must repeat
				if err := hc.VerifVerifyHeader(child, parent, false, now); err != nil {
					stats.Violation(t, part, fmt.Sprintf("C09/verdict-not-repeatable/ctx%d", ctx), fmt.Sprintf("block %d view %d was accepted, re-verifying it against the same parent fails: %v", bi, ctx, err), dump())
					return
				}
				if ctx == sim.Zone {
					// arithmetic re-derivations
					var grand *types.WorkObject
					grandGenesis := false
					if !hc.IsGenesisHash(parent.Hash()) {
						grand = hc.GetHeaderByHash(parent.ParentHash(sim.Zone))
						grandGenesis = grand != nil && hc.IsGenesisHash(grand.Hash())
					}
					if !hc.IsGenesisHash(parent.Hash()) {
						want := refDifficulty(parent, grand, grandGenesis, big.NewInt(5), big.NewInt(16))
						if want.Cmp(child.Difficulty()) != 0 {
							stats.Violation(t, part, "C09/derived/difficulty", fmt.Sprintf("block %d difficulty %v, re-derivation from parent gives %v", bi, child.Difficulty(), want), dump())
							return
						}
					}
					if g := refGasLimit(parent, 50000000); g != child.GasLimit() {
						stats.Violation(t, part, "C09/derived/gasLimit", fmt.Sprintf("block %d gas limit %d, re-derivation gives %d", bi, child.GasLimit(), g), dump())
						return
					}
					if child.NumberU64(sim.Zone) != func() uint64 {
						if hc.IsGenesisHash(parent.Hash()) {
							return 1
						}
						return parent.NumberU64(sim.Zone) + 1
					}() {
						stats.Violation(t, part, "C09/derived/number", fmt.Sprintf("block %d number %d after parent %d", bi, child.NumberU64(sim.Zone), parent.NumberU64(sim.Zone)), dump())
						return
					}
					if child.Time() < parent.Time() {
						stats.Violation(t, part, "C09/derived/time", "accepted child is older than its parent", dump())
						return
					}
				}
				// single-field deviations on a generated subset of blocks
				if rapid.IntRange(0, 2).Draw(t, "deviateHere") != 0 {
					continue
				}
				for di, d := range devs {
					if !has(d.ctxs, ctx) {
						continue
					}
					cp := types.CopyWorkObject(child)
					if !d.apply(cp, parent, ctx) {
						continue
					}
					cp.WorkObjectHeader().SetHeaderHash(cp.Header().Hash())
					if cp.Difficulty().Sign() > 0 {
						if err := n.Seal(cp, -1, uint64(1000+di)); err != nil {
							t.Fatalf("HARNESS: reseal: %v", err)
						}
					}
					if cp.Hash() == child.Hash() {
						continue
					}
					nDev++
					key := fmt.Sprintf("ctx%d/%s", ctx, d.name)
					seenDev[key] = true
					nowD := now
					err := hc.VerifVerifyHeader(cp, parent, false, nowD)
					devLog = append(devLog, fmt.Sprintf("block %d %s: %v", bi, key, err))
					if err != nil {
						stats.Case("deviation", fmt.Sprintf("%s|order%d|%s", key, b.Order, errClass(err)), true)
						continue
					}
					// header verification let it pass: the node's acceptance path must still refuse it
					if ctx == sim.Zone {
						n.Nodes[sim.Zone].Core.Slice().WriteBlock(types.CopyWorkObject(cp))
						if _, err := n.Nodes[sim.Zone].Core.Slice().Append(types.CopyWorkObject(cp), common.Hash{}, false, nil); err != nil {
							devLog = append(devLog, fmt.Sprintf("  refused by append: %v", err))
							continue
						}
						if err := n.SetHead(sim.Zone, cp); err != nil {
							devLog = append(devLog, fmt.Sprintf("  refused at adoption: %v", err))
							continue
						}
					}
					stats.Violation(t, part, "C09/deviation-accepted/"+key, fmt.Sprintf("block %d view %d with deviation %q (re-sealed) passes header verification%s", bi, ctx, d.name, map[bool]string{true: " and was appended and adopted", false: ""}[ctx == sim.Zone]), dump())
					return
				}
			}
		}
		// order survives a restart of the zone node
		if err := n.Restart(sim.Zone); err != nil {
			t.Fatalf("HARNESS: restart: %v", err)
		}
		for bi, b := range a.Blocks {
			_, o, err := n.Nodes[sim.Zone].Core.Slice().HeaderChain().CalcOrder(b.Zone())
			if err != nil || o != orders[b.Zone().Hash()] {
				stats.Violation(t, part, "C09/order-unstable/restart", fmt.Sprintf("block %d: order %d/%v after restart, %d before", bi, o, err, orders[b.Zone().Hash()]), dump())
				return
			}
			if e := n.Nodes[sim.Zone].Core.Slice().HeaderChain().TotalLogEntropy(b.Zone()); e.Cmp(entropies[b.Zone().Hash()]) != 0 {
				stats.Violation(t, part, "C09/entropy-unstable/restart", fmt.Sprintf("block %d: accumulated entropy %v after restart, %v before", bi, e, entropies[b.Zone().Hash()]), dump())
				return
			}
		}
		// ---- headers on a side chain: the rules read the header's own ancestors, not whatever block
		// is canonical at their height. Two branches of 2-3 zone blocks each are built from the tip;
		// the node ends up following branch A, branch B stays stored as a side chain. Every B block
		// (and an up-scaled copy of its header, so that the time difference matters at any size)
		// must verify / re-derive from its own parent and grandparent.
		{
			A, B := a, a.Fork(a.Salt+9000)
			for k, d := 0, rapid.IntRange(2, 3).Draw(t, "sideDepthA"); k < d; k++ {
				if err := A.Adopt(); err != nil {
					t.Fatalf("HARNESS: adopt A: %v", err)
				}
				if _, err := A.MineRandomOrder(t, sim.Zone); err != nil {
					t.Fatalf("HARNESS: mine A: %v", err)
				}
			}
			base := len(B.Blocks)
			for k, d := 0, rapid.IntRange(2, 3).Draw(t, "sideDepthB"); k < d; k++ {
				if err := B.Adopt(); err != nil {
					t.Fatalf("HARNESS: adopt B: %v", err)
				}
				if _, err := B.MineRandomOrder(t, sim.Zone); err != nil {
					t.Fatalf("HARNESS: mine B: %v", err)
				}
			}
			if err := A.Adopt(); err != nil {
				t.Fatalf("HARNESS: back to A: %v", err)
			}
			hc := n.Nodes[sim.Zone].Core.Slice().HeaderChain()
			for i := base + 1; i < len(B.Blocks); i++ {
				child, parent := B.Blocks[i].Zone(), B.Blocks[i-1].Zone()
				grand := hc.GetHeaderByHash(parent.ParentHash(sim.Zone))
				if grand == nil {
					t.Fatalf("HARNESS: side-chain grandparent missing")
				}
				if canon := hc.GetHeaderByNumber(parent.NumberU64(sim.Zone) - 1); canon != nil && canon.Hash() != grand.Hash() {
					stats.Label(part, "side_chain_grandparent_not_canonical")
				}
				if err := hc.VerifVerifyHeader(child, parent, false, int64(child.Time())); err != nil {
					stats.Violation(t, part, "C09/side-chain-header-refused", fmt.Sprintf("block #%d of a stored side chain, accepted when it was appended, is refused while another branch is canonical: %v", child.NumberU64(sim.Zone), err), dump())
					return
				}
				big1 := types.CopyWorkObjectHeader(parent.WorkObjectHeader())
				big1.SetDifficulty(new(big.Int).Lsh(big.NewInt(1), uint(rapid.IntRange(30, 60).Draw(t, "sideBits"))))
				pw := types.CopyWorkObject(parent)
				pw.SetWorkObjectHeader(big1)
				want := refDifficulty(pw, grand, hc.IsGenesisHash(grand.Hash()), big.NewInt(5), big.NewInt(16))
				if got := hc.CalcDifficulty(big1, child.ExpansionNumber()); got == nil || got.Cmp(want) != 0 {
					stats.Violation(t, part, "C09/derived/difficulty-on-side-chain", fmt.Sprintf("difficulty after side-chain block #%d (scaled to %v, time %d, its parent's time %d): CalcDifficulty gives %v, the rule applied to its own parent gives %v", parent.NumberU64(sim.Zone), big1.Difficulty(), parent.Time(), grand.Time(), got, want), dump())
					return
				}
				stats.Label(part, "side_chain_header_checked")
			}
		}
		var kl []string
		for k := range seenDev {
			kl = append(kl, k)
			stats.Label(part, "dev_"+k)
		}
		sort.Strings(kl)
		if withUncles > 0 {
			stats.Label(part, "chain_with_workshares")
		}
		stats.Case(part, strings.Join(kl, ","), nDev > 0)
		if nDev > 0 && stats.WantSample(part) {
			stats.Sample(part, map[string]any{"blocks": len(a.Blocks), "deviations_evaluated": nDev, "sample": tail(devLog, 14)})
		}
	})
}

// errClass strips numbers and hashes from an error so that it names the rule that fired.
func errClass(err error) string {
	s := err.Error()
	if i := strings.IndexAny(s, ":0123456789"); i > 0 {
		s = s[:i]
	}
	return strings.TrimSpace(s)
}

func tail(l []string, n int) []string {
	if len(l) > n {
		return l[len(l)-n:]
	}
	return l
}

// refOrder is the order rule of the protocol (PoEM), written from its definition: a block is a
// prime block when its seal carries more than log2(PrimeEntropyTarget) bits beyond the zone
// threshold AND the entropy accumulated since the last prime block (recorded region and zone
// deltas plus the seal's own) exceeds PrimeEntropyTarget x zone threshold / 2; likewise for region
// with the zone delta only; otherwise it is a zone block. All values in 2^-64 bit units.
func refOrder(h *types.WorkObject, powHash common.Hash) (int, string) {
	exp := h.ExpansionNumber()
	intrinsic := common.IntrinsicLogEntropy(powHash)
	target := new(big.Int).Div(common.Big2e256, h.Difficulty())
	zoneThr := common.IntrinsicLogEntropy(common.BytesToHash(target.Bytes()))
	grade := common.ZONE_CTX
	for _, lvl := range []int{common.PRIME_CTX, common.REGION_CTX} {
		var tgt *big.Int
		delta := new(big.Int).Set(intrinsic)
		if lvl == common.PRIME_CTX {
			tgt = params.PrimeEntropyTarget(exp)
			delta.Add(delta, h.ParentDeltaEntropy(common.REGION_CTX))
			delta.Add(delta, h.ParentDeltaEntropy(common.ZONE_CTX))
		} else {
			tgt = params.RegionEntropyTarget(exp)
			delta.Add(delta, h.ParentDeltaEntropy(common.ZONE_CTX))
		}
		sealThr := new(big.Int).Add(zoneThr, common.BitsToBigBits(new(big.Int).Set(tgt)))
		deltaThr := new(big.Int).Div(new(big.Int).Mul(new(big.Int).Set(tgt), zoneThr), big.NewInt(2))
		if intrinsic.Cmp(sealThr) > 0 {
			if delta.Cmp(deltaThr) > 0 {
				why := fmt.Sprintf("level %d: seal %v > %v and accumulated %v > %v", lvl, intrinsic, sealThr, delta, deltaThr)
				if grade != common.ZONE_CTX {
					why += " seal-grade-above-order"
				}
				return lvl, why
			}
			if grade == common.ZONE_CTX {
				grade = lvl
			}
		}
	}
	why := "zone"
	if grade != common.ZONE_CTX {
		why = fmt.Sprintf("seal-grade-above-order: seal is grade %d but the accumulated entropy is below the target", grade)
	}
	return common.ZONE_CTX, why
}
