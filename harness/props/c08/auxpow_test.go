package c08

import (
	"fmt"
	"math/big"
	"os"
	"sort"
	"strings"
	"sync"
	"testing"

	"github.com/dominant-strategies/go-quai/common"
	"github.com/dominant-strategies/go-quai/core"
	"github.com/dominant-strategies/go-quai/core/types"
	"github.com/dominant-strategies/go-quai/params"
	"pgregory.net/rapid"

	"verifharness/gen"
	"verifharness/sim"
	"verifharness/stats"
)

// FpUnsignedShare : SHA/Scrypt shares whose coinbase address is out of scope are exempt from the
// template-signature check (WorkObjectHeader.IsShaOrScryptShareWithInvalidAddress).
const FpUnsignedShare = "C08/auxpow/unsigned-share-accepted/out-of-scope-coinbase"

// FpOrderCachePoison : after the fork the block hash of an AuxPoW header is the hash of its AuxPoW
// only, and CalcOrder caches its answer under that hash before the binding of the AuxPoW to the
// header is verified.
const FpOrderCachePoison = "C08/calcorder-cache/answer-of-unbound-header-served-for-same-auxpow"

const (
	auxForkBlock = 3 // prime number at which the (scaled) KawPoW fork activates in this test
)

var auxParamsOnce sync.Once
var auxCaseNo int

// auxParams lowers the fork so that the simulator's histories cross it, installs the harness
// signers and scales the initial SHA/Scrypt share difficulties to the simulator's hash rate.
// The values are process-wide; every C08 test that needs other values runs in its own process
// (the driver starts one process per test), and the object-level tests read the fork height at
// case time, so they also work after this has run.
func auxParams() {
	auxParamsOnce.Do(func() {
		params.KawPowForkBlock = auxForkBlock
		params.KawPowTransitionPeriod = 1 << 40 // ProgPoW-hash blocks stay valid: the simulator seals with blake3
		params.InitialShaDiffMultiple = big.NewInt(1)
		params.InitialScryptDiffMultiple = big.NewInt(1)
		params.ScryptBlockTime = big.NewInt(3)
		installHarnessSigners()
	})
}

var signerPairs = [][2]int{{0, 1}, {1, 0}, {0, 2}, {2, 0}, {1, 2}, {2, 1}}

func drawSpec(t *rapid.T, label string, powID types.PowID, quaiTime uint64) donorSpec {
	s := donorSpec{powID: powID, txVersion: 2, inputs: 1, prevIndex: 0xffffffff, sequence: 0xffffffff, magic: [4]byte{0xfa, 0xbe, 0x6d, 0x6d}, merkleSize: 1}
	s.version = int32(rapid.Uint32().Draw(t, label+"_version") & 0x7fffffff)
	copy(s.prev[:], gen.Blob(t, label+"_prev", 32))
	s.bits = 0x1b000000 | uint32(rapid.IntRange(0x008000, 0x7fffff).Draw(t, label+"_bits"))
	s.height = uint32(rapid.IntRange(1, 1<<24).Draw(t, label+"_height"))
	s.sigTime = uint32(quaiTime) - uint32(rapid.IntRange(0, 10).Draw(t, label+"_sigAge"))
	s.donorTime = s.sigTime + uint32(rapid.IntRange(0, 5).Draw(t, label+"_donorAge"))
	nOut := rapid.IntRange(1, 2).Draw(t, label+"_nout")
	out := varint(nOut)
	for i := 0; i < nOut; i++ {
		out = append(out, le64(rapid.Uint64Range(0, 50e8).Draw(t, fmt.Sprintf("%s_val%d", label, i)))...)
		sc := gen.Blob(t, fmt.Sprintf("%s_script%d", label, i), rapid.IntRange(1, 34).Draw(t, fmt.Sprintf("%s_slen%d", label, i)))
		out = append(out, varint(len(sc))...)
		out = append(out, sc...)
	}
	s.coinbaseOut = append(out, le32(rapid.SampledFrom([]uint32{0, 0, 500000}).Draw(t, label+"_locktime"))...)
	nb := rapid.IntRange(0, 4).Draw(t, label+"_nbranch")
	for i := 0; i < nb; i++ {
		s.branch = append(s.branch, gen.Blob(t, fmt.Sprintf("%s_branch%d", label, i), 32))
	}
	if powID == types.Scrypt {
		s.merkleSize = params.MerkleSize
		s.merkleNonce = params.MerkleNonce
		s.auxPow2 = gen.Blob(t, label+"_doge", 32)
		s.auxPow2[7] |= 1 // not the zero hash
	}
	s.signers = signerPairs[rapid.IntRange(0, len(signerPairs)-1).Draw(t, label+"_signers")]
	s.nonce = rapid.Uint64().Draw(t, label+"_nonce")
	s.extraNonce1 = rapid.Uint32().Draw(t, label+"_en1")
	s.extraNonce2 = rapid.Uint64().Draw(t, label+"_en2")
	s.mix = common.BytesToHash(gen.Blob(t, label+"_mix", 32))
	return s
}

// auxMutant builds the AuxPoW for header wh (AuxPoW not yet attached) from a changed copy of the
// spec; tweak, when set, changes the header after the AuxPoW was attached. ok=false: not applicable.
type auxMutant struct {
	name string
	make func(s donorSpec, sig []byte, wh *types.WorkObjectHeader) (ap *types.AuxPow, tweak func(*types.WorkObjectHeader), ok bool)
}

func flip(b []byte, i int) []byte {
	c := append([]byte{}, b...)
	c[i%len(c)] ^= 0x20
	return c
}

var malformedKind int

func auxMutants(otherCoinbase common.Address) []auxMutant {
	plain := func(name string, f func(s *donorSpec) bool) auxMutant { // spec changed AFTER signing: the old signature is attached
		return auxMutant{name, func(s donorSpec, sig []byte, wh *types.WorkObjectHeader) (*types.AuxPow, func(*types.WorkObjectHeader), bool) {
			if !f(&s) {
				return nil, nil, false
			}
			return s.assemble(wh.SealHash(), sig), nil, true
		}}
	}
	resigned := func(name string, f func(s *donorSpec, wh *types.WorkObjectHeader) bool) auxMutant { // spec changed BEFORE signing: the signers did sign it
		return auxMutant{name, func(s donorSpec, _ []byte, wh *types.WorkObjectHeader) (*types.AuxPow, func(*types.WorkObjectHeader), bool) {
			if !f(&s, wh) {
				return nil, nil, false
			}
			sig, err := s.sign()
			if err != nil {
				return nil, nil, false
			}
			return s.assemble(wh.SealHash(), sig), nil, true
		}}
	}
	object := func(name string, f func(ap *types.AuxPow) bool) auxMutant { // the assembled proof is edited
		return auxMutant{name, func(s donorSpec, sig []byte, wh *types.WorkObjectHeader) (*types.AuxPow, func(*types.WorkObjectHeader), bool) {
			ap := s.assemble(wh.SealHash(), sig)
			if !f(ap) {
				return nil, nil, false
			}
			return ap, nil, true
		}}
	}
	return []auxMutant{
		// --- the proof is reused for different content
		{"seal/other-content-same-proof", func(s donorSpec, sig []byte, wh *types.WorkObjectHeader) (*types.AuxPow, func(*types.WorkObjectHeader), bool) {
			other := otherCoinbase
			if wh.PrimaryCoinbase().Equal(other) {
				// the header already pays that address: take its neighbour (same zone, same ledger)
				b := other.Bytes()
				b[19] ^= 0x01
				other = common.BytesToAddress(b, *other.Location())
			}
			return s.assemble(wh.SealHash(), sig), func(w *types.WorkObjectHeader) { w.SetPrimaryCoinbase(other) }, true
		}},
		{"seal/other-time-same-proof", func(s donorSpec, sig []byte, wh *types.WorkObjectHeader) (*types.AuxPow, func(*types.WorkObjectHeader), bool) {
			return s.assemble(wh.SealHash(), sig), func(w *types.WorkObjectHeader) { w.SetTime(w.Time() + 1) }, true
		}},
		{"seal/commits-to-flipped-hash", func(s donorSpec, sig []byte, wh *types.WorkObjectHeader) (*types.AuxPow, func(*types.WorkObjectHeader), bool) {
			h := wh.SealHash()
			h[rapidlessIndex(h[:])] ^= 0x01
			return s.assemble(h, sig), nil, true
		}},
		{"seal/commits-to-reversed-hash", func(s donorSpec, sig []byte, wh *types.WorkObjectHeader) (*types.AuxPow, func(*types.WorkObjectHeader), bool) {
			h := wh.SealHash()
			r := common.Hash(reverse32(h))
			if r == h {
				return nil, nil, false
			}
			return s.assemble(r, sig), nil, true
		}},
		{"seal/commits-to-block-hash-instead", func(s donorSpec, sig []byte, wh *types.WorkObjectHeader) (*types.AuxPow, func(*types.WorkObjectHeader), bool) {
			return s.assemble(wh.HeaderHash(), sig), nil, true
		}},
		plain("commit/wrong-magic", func(s *donorSpec) bool { s.magic[3] ^= 0xff; return true }),
		plain("commit/no-signature-time-push", func(s *donorSpec) bool { s.dropSigTime = true; return true }),
		// --- the coinbase is not under the donor merkle root
		object("merkle/branch-element-changed", func(ap *types.AuxPow) bool {
			mb := ap.MerkleBranch()
			if len(mb) == 0 {
				return false
			}
			c := append([][]byte{}, mb...)
			c[len(c)/2] = flip(c[len(c)/2], 9)
			ap.SetMerkleBranch(c)
			return true
		}),
		object("merkle/branch-extended", func(ap *types.AuxPow) bool {
			ap.SetMerkleBranch(append(append([][]byte{}, ap.MerkleBranch()...), make([]byte, 32)))
			return true
		}),
		object("merkle/branch-shortened", func(ap *types.AuxPow) bool {
			mb := ap.MerkleBranch()
			if len(mb) == 0 {
				return false
			}
			ap.SetMerkleBranch(append([][]byte{}, mb[:len(mb)-1]...))
			return true
		}),
		{"merkle/donor-root-changed", func(s donorSpec, sig []byte, wh *types.WorkObjectHeader) (*types.AuxPow, func(*types.WorkObjectHeader), bool) {
			tx := s.coinbaseTx(s.commitment(wh.SealHash()))
			root := merkleRootOf(tx, s.branch)
			root[3] ^= 0x40
			ap2 := s.auxPow2
			if ap2 == nil {
				ap2 = []byte{}
			}
			return types.NewAuxPow(s.powID, s.donorHeader(root), ap2, sig, s.branch, tx), nil, true
		}},
		// two fields crafted together: a sibling that is not a 32-byte hash and a donor header that
		// declares the all-zero merkle root (re-signed by the template signers, donor work re-done):
		// a rule that gives malformed branches "no root" would make every coinbase lie under it
		{"merkle/malformed-sibling+zero-donor-root", func(s donorSpec, _ []byte, wh *types.WorkObjectHeader) (*types.AuxPow, func(*types.WorkObjectHeader), bool) {
			br := append([][]byte{}, s.branch...)
			if len(br) == 0 {
				br = append(br, make([]byte, 32))
			}
			switch malformedKind % 3 {
			case 0:
				br[0] = append([]byte{}, br[0][:31]...)
			case 1:
				br[0] = append(append([]byte{}, br[0]...), 0x5a)
			default:
				br[0] = []byte{}
			}
			malformedKind++
			s.branch = br
			sig, err := s.sign()
			if err != nil {
				return nil, nil, false
			}
			tx := s.coinbaseTx(s.commitment(wh.SealHash()))
			ap2 := s.auxPow2
			if ap2 == nil {
				ap2 = []byte{}
			}
			return types.NewAuxPow(s.powID, s.donorHeader([32]byte{}), ap2, sig, s.branch, tx), nil, true
		}},
		{"merkle/coinbase-changed-root-kept", func(s donorSpec, sig []byte, wh *types.WorkObjectHeader) (*types.AuxPow, func(*types.WorkObjectHeader), bool) {
			ap := s.assemble(wh.SealHash(), sig)
			s.extraNonce2 ^= 1
			ap.SetTransaction(s.coinbaseTx(s.commitment(wh.SealHash())))
			return ap, nil, true
		}},
		// --- the second-chain field is part of what the template signers signed, for every algorithm
		object("auxpow2/replaced", func(ap *types.AuxPow) bool {
			ap.SetAuxPow2(append([]byte{0x01, 0x02, 0x03}, ap.AuxPow2()...))
			return true
		}),
		// --- the template signature does not cover what is presented
		object("sig/byte-flipped", func(ap *types.AuxPow) bool { ap.SetSignature(flip(ap.Signature(), 40)); return true }),
		object("sig/r-flipped", func(ap *types.AuxPow) bool { ap.SetSignature(flip(ap.Signature(), 3)); return true }),
		object("sig/empty", func(ap *types.AuxPow) bool { ap.SetSignature([]byte{}); return true }),
		object("sig/truncated", func(ap *types.AuxPow) bool { ap.SetSignature(ap.Signature()[:63]); return true }),
		object("sig/zero", func(ap *types.AuxPow) bool { ap.SetSignature(make([]byte, 64)); return true }),
		{"sig/foreign-signers", func(s donorSpec, _ []byte, wh *types.WorkObjectHeader) (*types.AuxPow, func(*types.WorkObjectHeader), bool) {
			sig, err := s.signWith(gen.BtcKey(4), gen.BtcKey(5))
			if err != nil {
				return nil, nil, false
			}
			return s.assemble(wh.SealHash(), sig), nil, true
		}},
		{"sig/one-harness-one-foreign-signer", func(s donorSpec, _ []byte, wh *types.WorkObjectHeader) (*types.AuxPow, func(*types.WorkObjectHeader), bool) {
			sig, err := s.signWith(gen.BtcKey(s.signers[0]), gen.BtcKey(5))
			if err != nil {
				return nil, nil, false
			}
			return s.assemble(wh.SealHash(), sig), nil, true
		}},
		{"sig/same-signer-twice", func(s donorSpec, _ []byte, wh *types.WorkObjectHeader) (*types.AuxPow, func(*types.WorkObjectHeader), bool) {
			sig, err := s.signWith(gen.BtcKey(s.signers[0]), gen.BtcKey(s.signers[0]))
			if err != nil {
				return nil, nil, false
			}
			return s.assemble(wh.SealHash(), sig), nil, true
		}},
		plain("sig/payout-changed", func(s *donorSpec) bool { s.coinbaseOut = flip(s.coinbaseOut, 3); return true }),
		plain("sig/locktime-changed", func(s *donorSpec) bool { s.coinbaseOut = flip(s.coinbaseOut, len(s.coinbaseOut)-1); return true }),
		plain("sig/prev-hash-changed", func(s *donorSpec) bool { s.prev[11] ^= 2; return true }),
		plain("sig/bits-changed", func(s *donorSpec) bool { s.bits ^= 0x100; return true }),
		plain("sig/version-signed-bit-changed", func(s *donorSpec) bool { s.version ^= 0x20000000; return true }),
		plain("sig/version-low-bit-changed", func(s *donorSpec) bool {
			if s.powID == types.SHA_BTC || s.powID == types.SHA_BCH {
				return false // the low 29 version bits of SHA donors are left to the miner (version rolling)
			}
			s.version ^= 1
			return true
		}),
		plain("sig/height-changed", func(s *donorSpec) bool { s.height ^= 1; return true }),
		plain("sig/signature-time-lowered", func(s *donorSpec) bool { s.sigTime--; return true }),
		plain("sig/branch-changed-root-recomputed", func(s *donorSpec) bool {
			if len(s.branch) == 0 {
				return false
			}
			s.branch[0] = flip(s.branch[0], 5)
			return true
		}),
		plain("sig/branch-extended-root-recomputed", func(s *donorSpec) bool { s.branch = append(s.branch, make([]byte, 32)); return true }),
		plain("sig/doge-hash-changed", func(s *donorSpec) bool {
			if s.powID != types.Scrypt {
				return false
			}
			s.auxPow2 = flip(s.auxPow2, 20)
			return true
		}),
		object("sig/pow-id-relabelled", func(ap *types.AuxPow) bool {
			h := ap.Header()
			sp := donorSpec{version: h.Version(), prev: h.PrevBlock(), bits: h.Bits(), donorTime: h.Timestamp(), nonce: uint64(h.Nonce())}
			switch ap.PowID() {
			case types.SHA_BTC:
				sp.powID = types.SHA_BCH
			case types.SHA_BCH:
				sp.powID = types.SHA_BTC
			default:
				return false
			}
			ap.SetPowID(sp.powID)
			ap.SetHeader(sp.donorHeader(h.MerkleRoot()))
			return true
		}),
		// --- the template is younger than what it seals / the donor header older than the template
		resigned("time/signature-after-quai-block-time", func(s *donorSpec, wh *types.WorkObjectHeader) bool {
			s.sigTime = uint32(wh.Time()) + 1
			s.donorTime = s.sigTime + 1
			return true
		}),
		resigned("time/donor-header-before-signature", func(s *donorSpec, wh *types.WorkObjectHeader) bool {
			s.donorTime = s.sigTime - 1
			return true
		}),
		// --- the donor "coinbase" is not a coinbase
		plain("coinbase/prev-out-index-0", func(s *donorSpec) bool { s.prevIndex = 0; return true }),
		plain("coinbase/prev-out-index-1", func(s *donorSpec) bool { s.prevIndex = 1; return true }),
		plain("coinbase/sequence-0", func(s *donorSpec) bool { s.sequence = 0; return true }),
		plain("coinbase/sequence-fffffffe", func(s *donorSpec) bool { s.sequence = 0xfffffffe; return true }),
		plain("coinbase/prev-txid-set", func(s *donorSpec) bool { s.prevTxid[31] = 1; return true }),
		plain("coinbase/two-inputs", func(s *donorSpec) bool { s.inputs = 2; return true }),
		// --- Scrypt: the position of the commitment in the Dogecoin merged-mining tree
		plain("scrypt/merkle-size-4", func(s *donorSpec) bool {
			if s.powID != types.Scrypt {
				return false
			}
			s.merkleSize = 4
			return true
		}),
		plain("scrypt/merkle-size-1", func(s *donorSpec) bool {
			if s.powID != types.Scrypt {
				return false
			}
			s.merkleSize = 1
			return true
		}),
		plain("scrypt/merkle-nonce-1", func(s *donorSpec) bool {
			if s.powID != types.Scrypt {
				return false
			}
			s.merkleNonce = 1
			return true
		}),
		resigned("scrypt/doge-hash-zero", func(s *donorSpec, wh *types.WorkObjectHeader) bool {
			if s.powID != types.Scrypt {
				return false
			}
			s.auxPow2 = make([]byte, 32)
			return true
		}),
		{"scrypt/commits-to-seal-hash-directly", func(s donorSpec, sig []byte, wh *types.WorkObjectHeader) (*types.AuxPow, func(*types.WorkObjectHeader), bool) {
			if s.powID != types.Scrypt {
				return nil, nil, false
			}
			tx := s.coinbaseTx(wh.SealHash())
			return types.NewAuxPow(s.powID, s.donorHeader(merkleRootOf(tx, s.branch)), s.auxPow2, sig, s.branch, tx), nil, true
		}},
	}
}

// rapidlessIndex picks a byte position from the content (deterministic, no extra draw).
func rapidlessIndex(b []byte) int { return int(b[0]) % len(b) }

// freeVariants change only what the miner is free to choose; the proof stays valid.
func freeVariants() []auxMutant {
	re := func(name string, f func(s *donorSpec)) auxMutant {
		return auxMutant{name, func(s donorSpec, sig []byte, wh *types.WorkObjectHeader) (*types.AuxPow, func(*types.WorkObjectHeader), bool) {
			f(&s)
			return s.assemble(wh.SealHash(), sig), nil, true
		}}
	}
	return []auxMutant{
		re("free/extra-nonce", func(s *donorSpec) { s.extraNonce2++ }),
		re("free/donor-time+1", func(s *donorSpec) { s.donorTime++ }),
		re("free/donor-nonce", func(s *donorSpec) { s.nonce += 77 }),
		re("free/coinbase-tx-version", func(s *donorSpec) { s.txVersion = 1 }),
	}
}

type auxTarget struct {
	kind    string // "block" or "uncle"
	base    *types.WorkObjectHeader
	verdict func(wh *types.WorkObjectHeader) error
	needPow bool
	hc      *core.HeaderChain
}

// grind searches the donor nonce until the node classifies the header as a share or block.
func (tg *auxTarget) grind(wh *types.WorkObjectHeader) bool {
	if !tg.needPow {
		return true
	}
	ap := wh.AuxPow()
	start := ap.Header().Nonce64()
	if ap.PowID() != types.Kawpow {
		start = uint64(ap.Header().Nonce())
	}
	limit := uint64(400000)
	if ap.PowID() == types.Scrypt {
		limit = 4000
	}
	for i := uint64(0); i < limit; i++ {
		setDonorNonce(ap, start+i)
		var v types.WorkShareValidity
		if p := guard(func() { v = tg.hc.UncleWorkShareClassification(wh) }); p != "" {
			return false
		}
		if v == types.Valid || v == types.Block {
			return true
		}
	}
	return false
}

func TestC08_AuxPow(t *testing.T) {
	auxParams()
	const part = "auxpow"
	other := sim.QuaiKeys(3)[2].Addr
	foreign := common.HexToAddress("0x0100000000000000000000000000000000000c08", sim.ZoneLoc)
	muts := auxMutants(other)
	frees := freeVariants()
	rapid.Check(t, func(t *rapid.T) {
		n, err := sim.NewNet(sim.Options{})
		if err != nil {
			t.Fatalf("HARNESS: net: %v", err)
		}
		defer n.Close()
		a := sim.NewActor(n)
		if err := a.Prelude(); err != nil {
			t.Fatalf("HARNESS: prelude: %v", err)
		}
		steps := rapid.IntRange(1, 4).Draw(t, "steps")
		for i := 0; i < steps; i++ {
			if err := a.Adopt(); err != nil {
				t.Fatalf("HARNESS: adopt: %v", err)
			}
			a.Traffic(t)
			if _, err := a.MineRandom(t); err != nil {
				t.Fatalf("HARNESS: mine: %v\n%s", err, strings.Join(a.Log, "\n"))
			}
		}
		if err := a.Adopt(); err != nil {
			t.Fatalf("HARNESS: adopt: %v", err)
		}
		zone := n.Nodes[sim.Zone]
		hc := zone.Core.Slice().HeaderChain()
		var mlog []string
		accepted, rejected := map[string]bool{}, map[string]bool{}
		dump := func(extra map[string]any) any {
			m := map[string]any{"history": a.Log, "log": tailStr(mlog, 60)}
			for k, v := range extra {
				m[k] = v
			}
			return m
		}

		// run one target (a block or an uncle position) with one donor algorithm
		run := func(tg *auxTarget, powID types.PowID, wantValid bool, label string) bool {
			spec := drawSpec(t, label, powID, tg.base.Time())
			sig, err := spec.sign()
			if err != nil {
				t.Fatalf("HARNESS: musig2 signing: %v", err)
			}
			if at := spec.template(); func() bool { at.SetSigs(sig); return !at.VerifySignature() }() {
				t.Fatalf("HARNESS: harness-signed template does not verify")
			}
			wh := types.CopyWorkObjectHeader(tg.base)
			wh.SetAuxPow(spec.assemble(wh.SealHash(), sig))
			key := fmt.Sprintf("%s/%s", tg.kind, powID)
			if !tg.grind(wh) {
				if wantValid {
					t.Fatalf("HARNESS: could not find a donor nonce for %s", key)
				}
			}
			verr := tg.verdict(wh)
			mlog = append(mlog, fmt.Sprintf("%s %s valid-proof: %v", label, key, verr))
			if !wantValid {
				// the same, fully valid proof on the wrong side of the fork / for the wrong role
				if verr == nil {
					stats.Violation(t, part, "C08/auxpow/accepted-outside-its-period/"+key, fmt.Sprintf("%s: a %s proof was accepted for a header with prime terminus number %v (fork at %d)", label, powID, tg.base.PrimeTerminusNumber(), params.KawPowForkBlock), dump(map[string]any{"spec": spec.describe(), "header": describeWoh(wh)}))
					return false
				}
				rejected[key+"/pow-id-vs-fork-period"] = true
				return true
			}
			if verr != nil {
				t.Fatalf("HARNESS: the valid %s proof is refused (%s): %v\nspec %v", key, label, verr, spec.describe())
			}
			accepted[key] = true
			for _, fv := range frees {
				w2 := types.CopyWorkObjectHeader(tg.base)
				ap, _, ok := fv.make(spec.clone(), sig, w2)
				if !ok {
					continue
				}
				w2.SetAuxPow(ap)
				if !tg.grind(w2) {
					continue
				}
				if err := tg.verdict(w2); err == nil {
					accepted[key+"/"+fv.name] = true
				} else {
					mlog = append(mlog, fmt.Sprintf("%s %s %s: refused: %v", label, key, fv.name, err))
				}
			}
			for _, m := range muts {
				w2 := types.CopyWorkObjectHeader(tg.base)
				ap, tweak, ok := m.make(spec.clone(), sig, w2)
				if !ok {
					continue
				}
				w2.SetAuxPow(ap)
				if tweak != nil {
					tweak(w2)
				}
				if !tg.grind(w2) {
					continue
				}
				err := tg.verdict(w2)
				if len(mlog) < 400 {
					mlog = append(mlog, fmt.Sprintf("%s %s %s: %v", label, key, m.name, err))
				}
				if err == nil {
					stats.Violation(t, part, "C08/auxpow/mutant-accepted/"+key+"/"+m.name, fmt.Sprintf("%s: %s with single change %q is accepted", label, key, m.name), dump(map[string]any{"spec": spec.describe(), "header": describeWoh(w2)}))
					return false
				}
				rejected[key+"/"+m.name] = true
			}
			// an unsigned share that pays an in-zone address stays refused whatever location it declares
			// (the only exemption from the template signature is a reward address the zone cannot pay)
			if tg.kind == "uncle" && powID != types.Kawpow {
				if _, e := tg.base.PrimaryCoinbase().InternalAddress(); e == nil {
					for _, loc := range []common.Location{{0, 1}, {2, 2}, {0}, {}} {
						w2 := types.CopyWorkObjectHeader(tg.base)
						w2.SetLocation(loc)
						w2.SetAuxPow(spec.assemble(w2.SealHash(), make([]byte, 64)))
						if !tg.grind(w2) {
							continue
						}
						name := fmt.Sprintf("unsigned-payable-share/declared-location=%v", []byte(loc))
						if err := tg.verdict(w2); err == nil {
							stats.Violation(t, part, "C08/auxpow/mutant-accepted/"+key+"/"+name, fmt.Sprintf("%s: a %s share without a valid template signature whose coinbase %x is an address of this zone is accepted because it declares location %v", label, powID, w2.PrimaryCoinbase().Bytes(), []byte(loc)), dump(map[string]any{"spec": spec.describe(), "header": describeWoh(w2)}))
							return false
						}
						rejected[key+"/"+name] = true
					}
				}
			}
			// shares whose reward address is out of scope
			if tg.kind == "uncle" && powID != types.Kawpow {
				if stats.IsKnown(FpUnsignedShare) {
					stats.Excluded(FpUnsignedShare)
				} else {
					w2 := types.CopyWorkObjectHeader(tg.base)
					w2.SetPrimaryCoinbase(foreign)
					ap := spec.assemble(w2.SealHash(), make([]byte, 64))
					w2.SetAuxPow(ap)
					if tg.grind(w2) {
						if err := tg.verdict(w2); err == nil {
							if !stats.Violation(t, part, FpUnsignedShare, fmt.Sprintf("%s: a %s share without a valid template signature is accepted because its coinbase address %x is out of scope", label, powID, foreign.Bytes()), dump(map[string]any{"spec": spec.describe(), "header": describeWoh(w2)})) {
								return false
							}
						} else {
							rejected[key+"/unsigned-foreign-coinbase"] = true
						}
					}
				}
			}
			return true
		}

		// candidate positions
		var post, pre []int
		for i, b := range a.Blocks {
			if b.Zone().PrimeTerminusNumber().Uint64() >= params.KawPowForkBlock {
				post = append(post, i)
			} else {
				pre = append(pre, i)
			}
		}
		if len(post) < 2 || len(pre) == 0 {
			t.Fatalf("HARNESS: history does not cross the fork (pre %d, post %d)", len(pre), len(post))
		}
		blockTarget := func(i int) *auxTarget {
			child := a.Blocks[i].Zone()
			parent := hc.GetBlockByHash(child.ParentHash(sim.Zone))
			if parent == nil {
				t.Fatalf("HARNESS: parent of block %d missing", i)
			}
			if err := hc.VerifVerifyHeader(child, parent, false, int64(child.Time())); err != nil {
				t.Fatalf("HARNESS: accepted block %d does not verify: %v", i, err)
			}
			return &auxTarget{kind: "block", hc: hc, base: types.CopyWorkObjectHeader(child.WorkObjectHeader()), verdict: func(wh *types.WorkObjectHeader) error {
				cp := types.CopyWorkObject(child)
				cp.SetWorkObjectHeader(types.CopyWorkObjectHeader(wh))
				return hc.VerifVerifyHeader(cp, parent, false, int64(child.Time()))
			}}
		}
		uncleTarget := func(i int) *auxTarget {
			// header of block i (re-used as the share's header: all derived fields are right for its
			// parent) offered as an uncle of block i+1
			b, c := a.Blocks[i].Zone(), a.Blocks[i+1].Zone()
			base := types.CopyWorkObjectHeader(b.WorkObjectHeader())
			base.SetNonce(types.EncodeNonce(base.NonceU64() + 0x9e3779b9)) // a different header than the block itself
			return &auxTarget{kind: "uncle", hc: hc, needPow: true, base: base, verdict: func(wh *types.WorkObjectHeader) error {
				cp := types.CopyWorkObject(c)
				cp.Body().SetUncles([]*types.WorkObjectHeader{types.CopyWorkObjectHeader(wh)})
				var err error
				if p := guard(func() { err = hc.VerifyUncles(cp) }); p != "" {
					return fmt.Errorf("PANIC %s", short(p, 600))
				}
				return err
			}}
		}
		// --- KawPoW proof on a block header, after and before the fork
		bi := post[rapid.IntRange(0, len(post)-1).Draw(t, "postBlock")]
		if !run(blockTarget(bi), types.Kawpow, true, fmt.Sprintf("block#%d", bi)) {
			return
		}
		pi := pre[rapid.IntRange(0, len(pre)-1).Draw(t, "preBlock")]
		if !run(blockTarget(pi), types.Kawpow, false, fmt.Sprintf("prefork-block#%d", pi)) {
			return
		}
		// --- a SHA / Scrypt proof is never a block proof
		wrong := rapid.SampledFrom([]types.PowID{types.SHA_BTC, types.SHA_BCH, types.Scrypt}).Draw(t, "blockWrongPow")
		if !run(blockTarget(bi), wrong, false, fmt.Sprintf("block#%d", bi)) {
			return
		}
		// --- shares offered as uncles of the following block
		var postPairs []int
		for _, i := range post {
			if i+1 < len(a.Blocks) {
				postPairs = append(postPairs, i)
			}
		}
		ui := postPairs[rapid.IntRange(0, len(postPairs)-1).Draw(t, "uncleAt")]
		sharePows := []types.PowID{types.SHA_BTC, types.SHA_BCH, types.Kawpow}
		auxCaseNo++
		if auxCaseNo%2 == 1 || stats.Thorough() { // Scrypt hashing is slow: every other case in the quick tier
			sharePows = append(sharePows, types.Scrypt)
		}
		for _, p := range sharePows {
			if !run(uncleTarget(ui), p, true, fmt.Sprintf("uncle-of#%d", ui+1)) {
				return
			}
		}
		// an AuxPoW share before the fork
		if pi+1 < len(a.Blocks) {
			pw := rapid.SampledFrom([]types.PowID{types.Kawpow, types.SHA_BTC, types.Scrypt}).Draw(t, "preUnclePow")
			tg := uncleTarget(pi)
			tg.needPow = false
			if !run(tg, pw, false, fmt.Sprintf("prefork-uncle-of#%d", pi+1)) {
				return
			}
		}

		// --- end to end on the node: a sibling of the tip that carries a KawPoW proof
		{
			tip := a.Blocks[len(a.Blocks)-1]
			if tip.Order == sim.Zone && tip.Zone().PrimeTerminusNumber().Uint64() >= params.KawPowForkBlock {
				child := tip.Zone()
				spec := drawSpec(t, "e2e", types.Kawpow, child.Time())
				sig, err := spec.sign()
				if err != nil {
					t.Fatalf("HARNESS: musig2 signing: %v", err)
				}
				// sealBlock grinds the donor nonce until the node's engine accepts the seal with zone order
				sealBlock := func(wo *types.WorkObject) bool {
					ap := wo.AuxPow()
					for i := uint64(0); i < 200000; i++ {
						setDonorNonce(ap, spec.nonce+i)
						if !sealOK(wo.Hash(), wo.Difficulty()) {
							continue
						}
						hc.VerifPurgeCaches()
						if _, o, err := hc.CalcOrder(wo); err == nil && o == sim.Zone {
							return true
						}
					}
					return false
				}
				build := func(m *auxMutant) *types.WorkObject {
					cp := types.CopyWorkObject(child)
					wh := cp.WorkObjectHeader()
					if m == nil {
						wh.SetAuxPow(spec.assemble(wh.SealHash(), sig))
					} else {
						ap, tweak, ok := m.make(spec.clone(), sig, wh)
						if !ok {
							return nil
						}
						wh.SetAuxPow(ap)
						if tweak != nil {
							tweak(wh)
						}
					}
					if !sealBlock(cp) {
						return nil
					}
					return cp
				}
				offer := func(wo *types.WorkObject) error {
					zone.Core.Slice().WriteBlock(types.CopyWorkObject(wo))
					_, err := zone.Core.Slice().Append(types.CopyWorkObject(wo), common.Hash{}, false, nil)
					return err
				}
				valid := build(nil)
				if valid == nil {
					t.Fatalf("HARNESS: could not seal the AuxPoW sibling")
				}
				// the order of the valid block, asked with nothing else seen before
				hc.VerifPurgeCaches()
				ent0, order0, err0 := hc.CalcOrder(valid)
				if err0 != nil {
					t.Fatalf("HARNESS: CalcOrder of the sealed sibling: %v", err0)
				}
				// same proof attached to a header that declares a lower difficulty: not bound (the coinbase
				// commits to another seal hash) but it has the same block hash
				if stats.IsKnown(FpOrderCachePoison) {
					stats.Excluded(FpOrderCachePoison)
				} else {
					fake := types.CopyWorkObject(valid)
					fake.WorkObjectHeader().SetDifficulty(big.NewInt(2))
					hc.VerifPurgeCaches()
					_, orderFake, errFake := hc.CalcOrder(fake)
					ent1, order1, err1 := hc.CalcOrder(valid)
					mlog = append(mlog, fmt.Sprintf("e2e: order of the sealed block alone %d; unbound header with the same proof: %d/%v; sealed block afterwards: %d/%v", order0, orderFake, errFake, order1, err1))
					if os.Getenv("C08_POISON_NODE") != "" {
						hc.VerifPurgeCaches()
						e1 := offer(fake)
						e2 := offer(valid)
						_, o3, e3 := hc.CalcOrder(valid)
						fmt.Printf("POISON-NODE: append(fake)=%v append(valid)=%v calcorder(valid)=%d/%v head=%x valid=%x\n", e1, e2, o3, e3, zone.Core.CurrentHeader().Hash().Bytes()[:4], valid.Hash().Bytes()[:4])
					}
					if fake.Hash() == valid.Hash() && (err1 != nil || order1 != order0 || ent1.Cmp(ent0) != 0) {
						if !stats.Violation(t, part, FpOrderCachePoison, fmt.Sprintf("CalcOrder(valid AuxPoW block) = order %d when asked alone, but order %d/%v after CalcOrder was asked about a header with the same AuxPoW (hence the same block hash %x) and difficulty 2, whose seal hash the proof does not commit to (it got order %d/%v)", order0, order1, err1, valid.Hash().Bytes()[:6], orderFake, errFake), dump(map[string]any{"spec": spec.describe(), "valid": describeWoh(valid.WorkObjectHeader())})) {
							return
						}
					}
					hc.VerifPurgeCaches()
				}
				// a few changed proofs, sealed, offered to the node first
				picks := rapid.SliceOfNDistinct(rapid.IntRange(0, len(muts)-1), 3, 6, rapid.ID[int]).Draw(t, "e2eMutants")
				sort.Ints(picks)
				for _, mi := range picks {
					m := muts[mi]
					wo := build(&m)
					if wo == nil {
						continue
					}
					if wo.Hash() == valid.Hash() {
						hc.VerifPurgeCaches() // same proof, other header: keep the order cache out of this probe
					}
					err := offer(wo)
					mlog = append(mlog, fmt.Sprintf("e2e append %s: %v", m.name, err))
					if err == nil {
						stats.Violation(t, part, "C08/auxpow/mutant-appended/"+m.name, fmt.Sprintf("a sealed block whose KawPoW proof has the single change %q was appended", m.name), dump(map[string]any{"spec": spec.describe(), "header": describeWoh(wo.WorkObjectHeader())}))
						return
					}
					rejected["append/Kawpow/"+m.name] = true
				}
				hc.VerifPurgeCaches()
				if err := offer(valid); err != nil {
					t.Fatalf("HARNESS: the node refuses the sealed block with a valid KawPoW proof: %v", err)
				}
				if err := n.SetHead(sim.Zone, valid); err != nil {
					t.Fatalf("HARNESS: the node does not adopt the block with a valid KawPoW proof: %v", err)
				}
				accepted["append/Kawpow"] = true
			} else {
				stats.Label(part, "e2e_skipped_tip_not_zone_order")
			}
		}

		var al, rl []string
		for k := range accepted {
			al = append(al, k)
			stats.Label(part, "accepted:"+k)
		}
		for k := range rejected {
			rl = append(rl, k)
			stats.Label(part, "rejected:"+k)
		}
		sort.Strings(al)
		sort.Strings(rl)
		stats.Case(part, strings.Join(al, ",")+"|"+strings.Join(rl, ","), len(rl) > 0 && len(al) > 0)
		if os.Getenv("C08_DEBUG") != "" {
			fmt.Println(strings.Join(mlog, "\n"))
		}
		if stats.WantSample(part) {
			stats.Sample(part, map[string]any{"accepted": al, "rejected_count": len(rl), "log": tailStr(mlog, 30)})
		}
	})
}
