package c08

// Harness-side construction of merge-mining proofs (AuxPoW): donor coinbase transaction, merkle
// branch, donor header and a 2-of-3 MuSig2 template signature over keys the harness installs in
// params.MuSig2PublicKeys. Everything here is written from the wire formats, not by calling the
// repository's builders, so that the production extractors are checked against an independent
// encoder (the base case is cross-checked against the repository's constructor once).

import (
	"bytes"
	"crypto/sha256"
	"encoding/binary"
	"encoding/hex"
	"fmt"
	"time"

	"github.com/btcsuite/btcd/btcec/v2"
	btcmusig "github.com/btcsuite/btcd/btcec/v2/schnorr/musig2"
	btchash "github.com/btcsuite/btcd/chaincfg/chainhash"
	btcwire "github.com/btcsuite/btcd/wire"
	"github.com/dominant-strategies/go-quai/common"
	"github.com/dominant-strategies/go-quai/core/types"
	"github.com/dominant-strategies/go-quai/params"
	ltchash "github.com/dominant-strategies/ltcd/chaincfg/chainhash"
	ltcwire "github.com/dominant-strategies/ltcd/wire"
	bchhash "github.com/gcash/bchd/chaincfg/chainhash"
	bchwire "github.com/gcash/bchd/wire"

	"verifharness/gen"
)

// installHarnessSigners makes gen.BtcKey(0..2) the template signers of this process.
func installHarnessSigners() {
	keys := make([]string, 3)
	for i := range keys {
		keys[i] = hex.EncodeToString(gen.BtcKey(i).PubKey().SerializeCompressed())
	}
	params.MuSig2PublicKeys = keys
}

// musigSign runs the two-party MuSig2 protocol (the sequence of cmd/utils TestMuSig2Signing) for
// the 32-byte digest with deterministic nonces derived from (digest, key).
func musigSign(msg [32]byte, k0, k1 *btcec.PrivateKey) ([]byte, error) {
	set := []*btcec.PublicKey{k0.PubKey(), k1.PubKey()}
	var sess [2]*btcmusig.Session
	for i, k := range []*btcec.PrivateKey{k0, k1} {
		ctx, err := btcmusig.NewContext(k, false, btcmusig.WithKnownSigners(set))
		if err != nil {
			return nil, err
		}
		seed := sha256.Sum256(append(append([]byte("c08-nonce"), msg[:]...), k.Serialize()...))
		nonces, err := btcmusig.GenNonces(btcmusig.WithCustomRand(bytes.NewReader(seed[:])), btcmusig.WithPublicKey(k.PubKey()), btcmusig.WithNonceMessageAux(msg))
		if err != nil {
			return nil, err
		}
		if sess[i], err = ctx.NewSession(btcmusig.WithPreGeneratedNonce(nonces)); err != nil {
			return nil, err
		}
	}
	if _, err := sess[0].RegisterPubNonce(sess[1].PublicNonce()); err != nil {
		return nil, err
	}
	if _, err := sess[1].RegisterPubNonce(sess[0].PublicNonce()); err != nil {
		return nil, err
	}
	if _, err := sess[0].Sign(msg); err != nil {
		return nil, err
	}
	p1, err := sess[1].Sign(msg)
	if err != nil {
		return nil, err
	}
	if _, err := sess[0].CombineSig(p1); err != nil {
		return nil, err
	}
	return sess[0].FinalSig().Serialize(), nil
}

func dsha(b []byte) [32]byte {
	a := sha256.Sum256(b)
	return sha256.Sum256(a[:])
}

func reverse32(h [32]byte) (r [32]byte) {
	for i := range h {
		r[31-i] = h[i]
	}
	return
}

// merkleRootOf: the coinbase is leaf 0, so it is always the left operand.
func merkleRootOf(tx []byte, branch [][]byte) [32]byte {
	cur := dsha(tx)
	for _, sib := range branch {
		var s [32]byte
		copy(s[:], sib)
		cur = dsha(append(append([]byte{}, cur[:]...), s[:]...))
	}
	return cur
}

// auxMerkleRoot: merged-mining commitment for two chains (Dogecoin id 98, Quai id 9) in a tree of
// merkle_size 2 with merkle_nonce 0, as the merged-mining specification defines it.
func auxMerkleRoot(doge, seal common.Hash) common.Hash {
	slot := func(chainID uint32) uint32 {
		r := uint32(0)
		r = r*1103515245 + 12345
		r += chainID
		r = r*1103515245 + 12345
		return r % 2
	}
	var leaves [2][32]byte
	leaves[slot(98)] = reverse32(doge)
	leaves[slot(9)] = reverse32(seal)
	root := dsha(append(append([]byte{}, leaves[0][:]...), leaves[1][:]...))
	return common.Hash(reverse32(root))
}

func varint(n int) []byte {
	switch {
	case n < 0xfd:
		return []byte{byte(n)}
	case n <= 0xffff:
		return []byte{0xfd, byte(n), byte(n >> 8)}
	}
	return []byte{0xfe, byte(n), byte(n >> 8), byte(n >> 16), byte(n >> 24)}
}

func le32(v uint32) []byte { b := make([]byte, 4); binary.LittleEndian.PutUint32(b, v); return b }
func le64(v uint64) []byte { b := make([]byte, 8); binary.LittleEndian.PutUint64(b, v); return b }

// bip34Height: minimal little-endian script number.
func bip34Height(h uint32) []byte {
	var out []byte
	for v := h; v > 0; v >>= 8 {
		out = append(out, byte(v))
	}
	if len(out) > 0 && out[len(out)-1]&0x80 != 0 {
		out = append(out, 0)
	}
	return out
}

// donorSpec is everything that determines one merge-mining proof.
type donorSpec struct {
	powID types.PowID
	// signed by the template
	version     int32
	prev        [32]byte
	bits        uint32
	height      uint32
	sigTime     uint32
	coinbaseOut []byte // varint(nOut) | outputs | locktime
	branch      [][]byte
	auxPow2     []byte // Scrypt: the Dogecoin block hash
	signers     [2]int
	// chosen by the miner
	donorTime   uint32
	nonce       uint64 // nonce64 for KawPoW, low 32 bits otherwise
	mix         common.Hash
	extraNonce1 uint32
	extraNonce2 uint64
	// coinbase envelope (fixed by the donor chains' consensus rules)
	txVersion   uint32
	inputs      int
	prevTxid    [32]byte
	prevIndex   uint32
	sequence    uint32
	magic       [4]byte
	merkleSize  uint32
	merkleNonce uint32
	dropSigTime bool
}

func (s *donorSpec) scriptSig(commit common.Hash) []byte {
	var b bytes.Buffer
	hb := bip34Height(s.height)
	b.WriteByte(byte(len(hb)))
	b.Write(hb)
	b.WriteByte(44)
	b.Write(s.magic[:])
	b.Write(commit[:])
	b.Write(le32(s.merkleSize))
	b.Write(le32(s.merkleNonce))
	b.WriteByte(42)
	b.Write(le32(s.extraNonce1))
	b.Write(le64(s.extraNonce2))
	b.Write(make([]byte, 30))
	if !s.dropSigTime {
		b.WriteByte(4)
		b.Write(le32(s.sigTime))
	}
	return b.Bytes()
}

func (s *donorSpec) coinbaseTx(commit common.Hash) []byte {
	var b bytes.Buffer
	b.Write(le32(s.txVersion))
	b.Write(varint(s.inputs))
	for i := 0; i < s.inputs; i++ {
		b.Write(s.prevTxid[:])
		b.Write(le32(s.prevIndex))
		sc := s.scriptSig(commit)
		if i > 0 {
			sc = []byte{0x51}
		}
		b.Write(varint(len(sc)))
		b.Write(sc)
		b.Write(le32(s.sequence))
	}
	b.Write(s.coinbaseOut)
	return b.Bytes()
}

// commitment the coinbase must carry for a header with this seal hash.
func (s *donorSpec) commitment(seal common.Hash) common.Hash {
	if s.powID == types.Scrypt {
		return auxMerkleRoot(common.BytesToHash(s.auxPow2), seal)
	}
	return seal
}

// template is what the signers sign: built from the spec, not from the AuxPoW.
func (s *donorSpec) template() *types.AuxTemplate {
	at := types.NewAuxTemplate()
	at.SetPowID(s.powID)
	at.SetPrevHash(s.prev)
	if s.auxPow2 == nil {
		at.SetAuxPow2([]byte{})
	} else {
		at.SetAuxPow2(s.auxPow2)
	}
	at.SetVersion(uint32(s.version))
	at.SetNBits(s.bits)
	at.SetSignatureTime(s.sigTime)
	at.SetHeight(s.height)
	at.SetCoinbaseOut(s.coinbaseOut)
	at.SetMerkleBranch(s.branch)
	return at
}

func (s *donorSpec) sign() ([]byte, error) {
	return s.signWith(gen.BtcKey(s.signers[0]), gen.BtcKey(s.signers[1]))
}

func (s *donorSpec) signWith(k0, k1 *btcec.PrivateKey) ([]byte, error) {
	return musigSign(s.template().Hash(), k0, k1)
}

func (s *donorSpec) donorHeader(root [32]byte) *types.AuxPowHeader {
	ts := time.Unix(int64(s.donorTime), 0)
	switch s.powID {
	case types.Kawpow:
		h := types.NewRavencoinBlockHeader(s.version, s.prev, root, s.donorTime, s.bits, s.height)
		h.Nonce64 = s.nonce
		h.MixHash = s.mix
		return types.NewAuxPowHeader(h)
	case types.SHA_BTC:
		return types.NewAuxPowHeader(types.NewBitcoinHeaderWrapper(&btcwire.BlockHeader{Version: s.version, PrevBlock: btchash.Hash(s.prev), MerkleRoot: btchash.Hash(root), Timestamp: ts, Bits: s.bits, Nonce: uint32(s.nonce)}))
	case types.SHA_BCH:
		return types.NewAuxPowHeader(types.NewBitcoinCashHeaderWrapper(&bchwire.BlockHeader{Version: s.version, PrevBlock: bchhash.Hash(s.prev), MerkleRoot: bchhash.Hash(root), Timestamp: ts, Bits: s.bits, Nonce: uint32(s.nonce)}))
	default:
		return types.NewAuxPowHeader(types.NewLitecoinHeaderWrapper(&ltcwire.BlockHeader{Version: s.version, PrevBlock: ltchash.Hash(s.prev), MerkleRoot: ltchash.Hash(root), Timestamp: ts, Bits: s.bits, Nonce: uint32(s.nonce)}))
	}
}

// assemble builds the AuxPoW for a header whose seal hash is seal, carrying signature sig.
func (s *donorSpec) assemble(seal common.Hash, sig []byte) *types.AuxPow {
	tx := s.coinbaseTx(s.commitment(seal))
	root := merkleRootOf(tx, s.branch)
	ap2 := s.auxPow2
	if ap2 == nil {
		ap2 = []byte{}
	}
	return types.NewAuxPow(s.powID, s.donorHeader(root), ap2, sig, s.branch, tx)
}

func (s donorSpec) clone() donorSpec {
	c := s
	c.coinbaseOut = append([]byte{}, s.coinbaseOut...)
	c.branch = make([][]byte, len(s.branch))
	for i := range s.branch {
		c.branch[i] = append([]byte{}, s.branch[i]...)
	}
	if s.auxPow2 != nil {
		c.auxPow2 = append([]byte{}, s.auxPow2...)
	}
	return c
}

func (s *donorSpec) describe() map[string]any {
	return map[string]any{"powID": s.powID.String(), "version": s.version, "prev": hex.EncodeToString(s.prev[:]), "bits": s.bits, "height": s.height,
		"sigTime": s.sigTime, "donorTime": s.donorTime, "coinbaseOut": hex.EncodeToString(s.coinbaseOut), "branchLen": len(s.branch),
		"auxPow2": hex.EncodeToString(s.auxPow2), "signers": fmt.Sprint(s.signers), "nonce": s.nonce}
}

// setDonorNonce updates the miner-controlled nonce inside an assembled AuxPoW.
func setDonorNonce(ap *types.AuxPow, n uint64) {
	if ap.PowID() == types.Kawpow {
		ap.Header().SetNonce64(n)
	} else {
		ap.Header().SetNonce(uint32(n))
	}
}
