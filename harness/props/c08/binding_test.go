package c08

import (
	"fmt"
	"math/big"
	"os"
	"reflect"
	"sort"
	"strings"
	"testing"

	"github.com/dominant-strategies/go-quai/common"
	"github.com/dominant-strategies/go-quai/core"
	"github.com/dominant-strategies/go-quai/core/types"
	"github.com/dominant-strategies/go-quai/trie"
	"pgregory.net/rapid"

	"verifharness/gen"
	"verifharness/sim"
	"verifharness/stats"
)

// ---- setter inventory ---------------------------------------------------------------------------

// The single-field mutations of gen.WohMutations / gen.HeaderMutations are meant to cover every
// setter. If the repository gains a setter the inventory below no longer matches and the check
// reports itself as incomplete (harness problem) instead of silently skipping the new field.
var wohSetters = []string{"SetAuxPow", "SetData", "SetDifficulty", "SetHeaderHash", "SetKawpowDifficulty", "SetLocation", "SetLock", "SetMixHash",
	"SetNonce", "SetNumber", "SetParentHash", "SetPrimaryCoinbase", "SetPrimeTerminusNumber", "SetScryptDiffAndCount", "SetScryptShareTarget",
	"SetShaDiffAndCount", "SetShaShareTarget", "SetTime", "SetTxHash"}

var headerSetters = []string{"SetAvgTxFees", "SetBaseFee", "SetConversionFlowAmount", "SetEVMRoot", "SetEfficiencyScore", "SetEtxEligibleSlices",
	"SetEtxRollupHash", "SetEtxSetRoot", "SetExchangeRate", "SetExpansionNumber", "SetExtra", "SetGasLimit", "SetGasUsed", "SetInterlinkRootHash",
	"SetKQuaiDiscount", "SetManifestHash", "SetMinerDifficulty", "SetNumber", "SetOutboundEtxHash", "SetParentDeltaEntropy", "SetParentEntropy",
	"SetParentHash", "SetParentUncledDeltaEntropy", "SetPrimeStateRoot", "SetPrimeTerminusHash", "SetQuaiStateSize", "SetReceiptHash",
	"SetRegionStateRoot", "SetStateLimit", "SetStateUsed", "SetThresholdCount", "SetTotalFees", "SetTxHash", "SetUTXORoot", "SetUncleHash", "SetUncledEntropy"}

func settersOf(v any) []string {
	var out []string
	tp := reflect.TypeOf(v)
	for i := 0; i < tp.NumMethod(); i++ {
		if n := tp.Method(i).Name; strings.HasPrefix(n, "Set") {
			out = append(out, n)
		}
	}
	sort.Strings(out)
	return out
}

func checkInventory(t fataler) {
	if got := settersOf(&types.WorkObjectHeader{}); !reflect.DeepEqual(got, wohSetters) {
		t.Fatalf("HARNESS: WorkObjectHeader setters changed, mutation list incomplete: %v", got)
	}
	if got := settersOf(&types.Header{}); !reflect.DeepEqual(got, headerSetters) {
		t.Fatalf("HARNESS: Header setters changed, mutation list incomplete: %v", got)
	}
}

// extraWohMutations adds length-changing variants the generic list does not have.
func extraWohMutations(wh *types.WorkObjectHeader) []gen.WohMutation {
	var out []gen.WohMutation
	add := func(f string, fn func(c *types.WorkObjectHeader)) {
		c := types.CopyWorkObjectHeader(wh)
		fn(c)
		out = append(out, gen.WohMutation{Field: f, Header: c, Sealed: true})
	}
	add("location/extend", func(c *types.WorkObjectHeader) { c.SetLocation(append(append(common.Location{}, wh.Location()...), 0)) })
	if len(wh.Location()) > 0 {
		add("location/truncate", func(c *types.WorkObjectHeader) { c.SetLocation(append(common.Location{}, wh.Location()[:len(wh.Location())-1]...)) })
	}
	add("data/append0", func(c *types.WorkObjectHeader) { c.SetData(append(append([]byte{}, wh.Data()...), 0)) })
	add("number/+256", func(c *types.WorkObjectHeader) { c.SetNumber(new(big.Int).Add(wh.Number(), big.NewInt(256))) })
	add("difficulty/x256", func(c *types.WorkObjectHeader) { c.SetDifficulty(new(big.Int).Lsh(new(big.Int).Add(wh.Difficulty(), big.NewInt(1)), 8)) })
	add("time/hi", func(c *types.WorkObjectHeader) { c.SetTime(wh.Time() ^ (1 << 63)) })
	return out
}

// bindingOracle checks one single-field mutant m of sealed header wh against the seal definition.
// It returns a fingerprint suffix and message when the definition is violated.
func bindingOracle(hc *core.HeaderChain, wh *types.WorkObjectHeader, m gen.WohMutation) (string, string) {
	s0, h0 := wh.SealHash(), wh.Hash()
	s1, h1 := m.Header.SealHash(), m.Header.Hash()
	custom := customHash(wh)
	if custom != customHash(m.Header) {
		return "", "" // the mutation crossed the fork regime (not a single-field change of one definition)
	}
	switch {
	case m.Sealed && s1 == s0:
		return "sealhash-ignores/" + m.Field, fmt.Sprintf("changing %s leaves SealHash unchanged (%x)", m.Field, s0)
	case !m.Sealed && s1 != s0:
		return "sealhash-covers-excluded/" + m.Field, fmt.Sprintf("changing %s (excluded from the seal by definition) changes SealHash %x -> %x", m.Field, s0, s1)
	}
	if !custom {
		// Hash = H(mixHash || SealHash || nonce): every sealed field, the nonce and the mix hash
		if (m.Sealed || m.Pow) && h1 == h0 {
			return "hash-ignores/" + m.Field, fmt.Sprintf("changing %s leaves the block hash unchanged (%x)", m.Field, h0)
		}
	} else {
		// Hash = H(AuxPoW): the sealed fields are bound through the donor coinbase (AuxPoW part)
		switch {
		case m.Aux && h1 == h0:
			return "auxhash-ignores/" + m.Field, fmt.Sprintf("changing %s leaves the AuxPoW block hash unchanged (%x)", m.Field, h0)
		case !m.Aux && h1 != h0:
			return "auxhash-covers-non-aux/" + m.Field, fmt.Sprintf("changing %s changes the AuxPoW block hash although it is not part of the AuxPoW", m.Field)
		}
	}
	// proof-of-work hash and verdict of the mutant as computed by the production engine
	e0, e1 := hc.GetEngineForHeader(wh), hc.GetEngineForHeader(m.Header)
	p0, err0 := e0.ComputePowHash(wh)
	p1, err1 := e1.ComputePowHash(m.Header)
	if err0 != nil || err1 != nil {
		return "", ""
	}
	if h1 != h0 && p1 == p0 {
		return "powhash-ignores/" + m.Field, fmt.Sprintf("changing %s changes the block hash but not the proof-of-work hash %x", m.Field, p0)
	}
	var verr error
	if p := guard(func() { _, verr = hc.VerifySeal(m.Header) }); p != "" {
		return "verifyseal-panic/" + m.Field, short(p, 800)
	}
	if want := sealOK(p1, m.Header.Difficulty()); (verr == nil) != want {
		return "mutant-verdict/" + m.Field, fmt.Sprintf("mutant (%s changed) with pow hash %x and difficulty %v: VerifySeal says %v, the oracle says valid=%v", m.Field, p1, m.Header.Difficulty(), verr, want)
	}
	return "", ""
}

func TestC08_FieldBinding(t *testing.T) {
	hc := sharedHC(t)
	checkInventory(t)
	const part = "fields"
	rapid.Check(t, func(t *rapid.T) {
		g := &gen.Tags{}
		var o gen.WoOpts
		switch rapid.IntRange(0, 3).Draw(t, "regime") {
		case 0:
			o = gen.WoOpts{Regime: gen.PreFork}
		case 1:
			o = gen.WoOpts{Regime: gen.Transition, AuxPow: 0}
		default:
			o = gen.WoOpts{Regime: gen.Regime(rapid.IntRange(1, 2).Draw(t, "auxregime")), AuxPow: 1}
		}
		wh := types.CopyWorkObjectHeader(gen.WorkObjectHeader(t, "wh", sim.ZoneLoc, o, g))
		body := gen.Header(t, g)
		wh.SetHeaderHash(body.Hash()) // the work object header commits to the body header
		// seal it at a small difficulty so that the original is an accepted seal
		d := big.NewInt(int64(rapid.IntRange(1, 24).Draw(t, "difficulty")))
		wh.SetDifficulty(d)
		start := rapid.Uint64().Draw(t, "nonce")
		sealed := false
		for i := uint64(0); i < 5000; i++ {
			setSearchNonce(wh, start+i)
			if p, err := hc.GetEngineForHeader(wh).ComputePowHash(wh); err == nil && sealOK(p, d) {
				sealed = true
				break
			}
		}
		if !sealed {
			t.Fatalf("HARNESS: could not seal at difficulty %v", d)
		}
		if _, err := hc.VerifySeal(wh); err != nil {
			stats.Violation(t, part, "C08/seal/valid-rejected", fmt.Sprintf("sealed header rejected: %v", err), describeWoh(wh))
			return
		}
		muts := append(gen.WohMutations(wh, sim.ZoneLoc), extraWohMutations(wh)...)
		// every body-header field reaches the seal through the header hash
		for _, hm := range gen.HeaderMutations(body) {
			if hm.Header.Hash() == body.Hash() {
				stats.Violation(t, part, "C08/binding/headerhash-ignores/"+hm.Field, fmt.Sprintf("changing body header field %s leaves Header.Hash unchanged", hm.Field), describeWoh(wh))
				return
			}
			c := types.CopyWorkObjectHeader(wh)
			c.SetHeaderHash(hm.Header.Hash())
			muts = append(muts, gen.WohMutation{Field: "body." + hm.Field, Header: c, Sealed: true})
		}
		fields := map[string]bool{}
		stillValid := 0
		for _, m := range muts {
			if fp, msg := bindingOracle(hc, wh, m); fp != "" {
				stats.Violation(t, part, "C08/binding/"+fp, msg, map[string]any{"original": describeWoh(wh), "mutant": describeWoh(m.Header), "tags": g.List()})
				return
			}
			fields[m.Field] = true
			if _, err := hc.VerifySeal(m.Header); err == nil && m.Header.Hash() != wh.Hash() {
				stillValid++ // a different hash that happens to satisfy the small difficulty
			}
		}
		hashKind := "progpowhash"
		if customHash(wh) {
			hashKind = "auxpowhash"
		}
		labels := []string{"hash:" + hashKind, "woh:" + o.Regime.String()}
		if stillValid > 0 {
			labels = append(labels, "some_mutant_valid_by_chance")
		}
		apk := ""
		if wh.AuxPow() != nil {
			apk = wh.AuxPow().PowID().String()
			labels = append(labels, "auxpow:"+apk)
		}
		stats.Case(part, fmt.Sprintf("%s|%s|%s|n=%d", hashKind, o.Regime, apk, len(fields)), true, labels...)
		if stats.WantSample(part) {
			stats.Sample(part, map[string]any{"regime": o.Regime.String(), "hash": hashKind, "mutations": len(muts), "difficulty": d.String(), "mutants_valid_by_chance": stillValid})
		}
	})
}

// ---- body lists ---------------------------------------------------------------------------------

// shareHC is the zone header chain the uncle mutation asks for share classification.
var shareHC *core.HeaderChain

type bodyMutation struct {
	name  string
	ctx   int // view the mutation applies to
	apply func(b *types.WorkObject) bool
}

func ghostEtx() *types.Transaction {
	to := sim.DefaultQuaiCoinbase
	return types.NewTx(&types.ExternalTx{OriginatingTxHash: common.HexToHash("0xc08c08"), ETXIndex: 3, Gas: 21000, To: &to, Value: big.NewInt(1e18), Sender: to, EtxType: types.DefaultType})
}

func bodyMutations() []bodyMutation {
	cpTx := func(l []*types.Transaction) []*types.Transaction { return append([]*types.Transaction{}, l...) }
	junk := common.HexToHash("0xc08c08c08c08")
	var out []bodyMutation
	z := func(name string, f func(b *types.WorkObject) bool) { out = append(out, bodyMutation{"zone/" + name, sim.Zone, f}) }
	z("txs/drop-last", func(b *types.WorkObject) bool {
		l := cpTx(b.Transactions())
		if len(l) == 0 {
			return false
		}
		b.Body().SetTransactions(l[:len(l)-1])
		return true
	})
	z("txs/duplicate-last", func(b *types.WorkObject) bool {
		l := cpTx(b.Transactions())
		if len(l) == 0 {
			return false
		}
		b.Body().SetTransactions(append(l, l[len(l)-1]))
		return true
	})
	z("txs/swap-first-two", func(b *types.WorkObject) bool {
		l := cpTx(b.Transactions())
		if len(l) < 2 || l[0].Hash() == l[1].Hash() {
			return false
		}
		l[0], l[1] = l[1], l[0]
		b.Body().SetTransactions(l)
		return true
	})
	z("txs/add-unknown-etx", func(b *types.WorkObject) bool {
		b.Body().SetTransactions(append(cpTx(b.Transactions()), ghostEtx()))
		return true
	})
	z("etxs/drop-last", func(b *types.WorkObject) bool {
		l := cpTx(b.OutboundEtxs())
		if len(l) == 0 {
			return false
		}
		b.Body().SetOutboundEtxs(l[:len(l)-1])
		return true
	})
	z("etxs/duplicate-first", func(b *types.WorkObject) bool {
		l := cpTx(b.OutboundEtxs())
		if len(l) == 0 {
			return false
		}
		b.Body().SetOutboundEtxs(append(l, l[0]))
		return true
	})
	z("etxs/add-unknown", func(b *types.WorkObject) bool {
		b.Body().SetOutboundEtxs(append(cpTx(b.OutboundEtxs()), ghostEtx()))
		return true
	})
	z("uncles/add", func(b *types.WorkObject) bool {
		u := types.CopyWorkObjectHeader(b.WorkObjectHeader())
		u.SetNonce(types.EncodeNonce(u.NonceU64() + 1))
		b.Body().SetUncles(append(append([]*types.WorkObjectHeader{}, b.Uncles()...), u))
		return true
	})
	z("uncles/add-valid-share", func(b *types.WorkObject) bool {
		// a sibling share: same header, another nonce, ground until the node classifies it as a
		// valid workshare (so that only the uncle root can refuse the body)
		if shareHC == nil {
			return false
		}
		u := types.CopyWorkObjectHeader(b.WorkObjectHeader())
		for i := uint64(1); i < 20000; i++ {
			u.SetNonce(types.EncodeNonce(b.WorkObjectHeader().NonceU64() + i*7919))
			if shareHC.UncleWorkShareClassification(u) == types.Valid {
				b.Body().SetUncles(append(append([]*types.WorkObjectHeader{}, b.Uncles()...), u))
				return true
			}
		}
		return false
	})
	z("uncles/drop", func(b *types.WorkObject) bool {
		if len(b.Uncles()) == 0 {
			return false
		}
		b.Body().SetUncles(append([]*types.WorkObjectHeader{}, b.Uncles()[1:]...))
		return true
	})
	z("manifest/add", func(b *types.WorkObject) bool {
		b.Body().SetManifest(append(append(types.BlockManifest{}, b.Manifest()...), junk))
		return true
	})
	z("interlink/add", func(b *types.WorkObject) bool {
		b.Body().SetInterlinkHashes(append(append(common.Hashes{}, b.InterlinkHashes()...), junk))
		return true
	})
	for _, ctx := range []int{sim.Prime, sim.Region} {
		name := map[int]string{sim.Prime: "prime", sim.Region: "region"}[ctx]
		add := func(n string, f func(b *types.WorkObject) bool) { out = append(out, bodyMutation{name + "/" + n, ctx, f}) }
		add("manifest/drop-last", func(b *types.WorkObject) bool {
			m := append(types.BlockManifest{}, b.Manifest()...)
			if len(m) == 0 {
				return false
			}
			b.Body().SetManifest(m[:len(m)-1])
			return true
		})
		add("manifest/add", func(b *types.WorkObject) bool {
			b.Body().SetManifest(append(append(types.BlockManifest{}, b.Manifest()...), junk))
			return true
		})
		add("manifest/alter-first", func(b *types.WorkObject) bool {
			m := append(types.BlockManifest{}, b.Manifest()...)
			if len(m) == 0 {
				return false
			}
			m[0][5] ^= 0x11
			b.Body().SetManifest(m)
			return true
		})
		add("txs/add", func(b *types.WorkObject) bool {
			b.Body().SetTransactions(append(cpTx(b.Transactions()), ghostEtx()))
			return true
		})
		add("etxs/add", func(b *types.WorkObject) bool {
			b.Body().SetOutboundEtxs(append(cpTx(b.OutboundEtxs()), ghostEtx()))
			return true
		})
	}
	out = append(out, bodyMutation{"region/interlink/add", sim.Region, func(b *types.WorkObject) bool {
		b.Body().SetInterlinkHashes(append(append(common.Hashes{}, b.InterlinkHashes()...), junk))
		return true
	}})
	out = append(out, bodyMutation{"prime/interlink/add", sim.Prime, func(b *types.WorkObject) bool {
		b.Body().SetInterlinkHashes(append(append(common.Hashes{}, b.InterlinkHashes()...), junk))
		return true
	}}, bodyMutation{"prime/interlink/alter-first", sim.Prime, func(b *types.WorkObject) bool {
		l := append(common.Hashes{}, b.InterlinkHashes()...)
		if len(l) == 0 {
			return false
		}
		l[0][5] ^= 0x11
		b.Body().SetInterlinkHashes(l)
		return true
	}})
	return out
}

// rootsMatch tells whether the lists of a stored block agree with the roots its header commits to.
func rootsMatch(b *types.WorkObject, ctx int) string {
	if ctx == sim.Zone {
		if h := types.DeriveSha(types.Transactions(b.Transactions()), trie.NewStackTrie(nil)); h != b.Header().TxHash() {
			return "transactions"
		}
		if h := types.DeriveSha(types.Transactions(b.OutboundEtxs()), trie.NewStackTrie(nil)); h != b.Header().OutboundEtxHash() {
			return "outbound-etxs"
		}
		if h := types.CalcUncleHash(b.Uncles()); h != b.Header().UncleHash() {
			return "uncles"
		}
		return ""
	}
	if h := types.DeriveSha(b.Manifest(), trie.NewStackTrie(nil)); h != b.Header().ManifestHash(ctx+1) {
		return "manifest"
	}
	if ctx == sim.Prime {
		if h := types.DeriveSha(b.InterlinkHashes(), trie.NewStackTrie(nil)); h != b.Header().InterlinkRootHash() {
			return "interlink"
		}
	}
	if len(b.Transactions()) != 0 || len(b.OutboundEtxs()) != 0 || len(b.Uncles()) != 0 {
		return "dom-body-lists-not-empty"
	}
	return ""
}

func TestC08_SimBinding(t *testing.T) {
	checkInventory(t)
	bmuts := bodyMutations()
	const part = "blocks"
	rapid.Check(t, func(t *rapid.T) {
		n, err := sim.NewNet(sim.Options{})
		if err != nil {
			t.Fatalf("HARNESS: net: %v", err)
		}
		defer n.Close()
		a := sim.NewActor(n)
		if err := a.Prelude(); err != nil {
			t.Fatalf("HARNESS: prelude: %v", err)
		}
		steps := rapid.IntRange(3, 9).Draw(t, "steps")
		for i := 0; i < steps; i++ {
			if err := a.Adopt(); err != nil {
				t.Fatalf("HARNESS: adopt: %v", err)
			}
			a.Traffic(t)
			if _, err := a.MineRandom(t); err != nil {
				t.Fatalf("HARNESS: mine: %v\n%s", err, strings.Join(a.Log, "\n"))
			}
		}
		// replay on a second hierarchy; before a block is offered, offer its mutants
		f, err := sim.NewNet(sim.Options{})
		if err != nil {
			t.Fatalf("HARNESS: net: %v", err)
		}
		defer f.Close()
		var mlog []string
		dump := func() any { return map[string]any{"history": a.Log, "mutants": mlog} }
		kinds := map[string]bool{}
		shapes := map[string]bool{} // (order, #txs, #etxs) of the blocks examined in depth
		nField, nBody, byChance := 0, 0, 0
		for bi, b := range a.Blocks {
			if err := f.SetHeads(b.Parents); err != nil {
				t.Fatalf("HARNESS: replay adopt parents of block %d: %v", bi, err)
			}
			shareHC = f.Nodes[sim.Zone].Core.Slice().HeaderChain()
			node := f.Nodes[b.Order]
			hc := node.Core.Slice().HeaderChain()
			offer := func(views [3]*types.WorkObject) error {
				for ctx := b.Order; ctx < 3; ctx++ {
					f.Nodes[ctx].Core.Slice().WriteBlock(types.CopyWorkObject(views[ctx]))
				}
				_, err := node.Core.Slice().Append(types.CopyWorkObject(views[b.Order]), common.Hash{}, false, nil)
				return err
			}
			// always: prelude block 7 (zone order, carries transactions) and 8 (prime order: prime,
			// region and zone views); of the generated blocks a drawn half
			inDepth := bi == 7 || bi == 8 || (bi >= len(a.Blocks)-steps && rapid.IntRange(0, 1).Draw(t, "mutateHere") == 0)
			if inDepth {
				capn := func(n, m int) int {
					if n > m {
						return m
					}
					return n
				}
				shapes[fmt.Sprintf("o%d/t%d/e%d", b.Order, capn(len(b.Zone().Transactions()), 3), capn(len(b.Zone().OutboundEtxs()), 2))] = true
			}
			if inDepth && os.Getenv("C08_DEBUG_NOMUT") == "" {
				// (i) single-field changes of the sealed header, old seal kept
				top := b.Views[b.Order]
				wh := top.WorkObjectHeader()
				muts := append(gen.WohMutations(wh, sim.ZoneLoc), extraWohMutations(wh)...)
				for _, hm := range gen.HeaderMutations(top.Header()) {
					c := types.CopyWorkObjectHeader(wh)
					c.SetHeaderHash(hm.Header.Hash())
					muts = append(muts, gen.WohMutation{Field: "body." + hm.Field, Header: c, Sealed: true})
				}
				zhc := f.Nodes[sim.Zone].Core.Slice().HeaderChain()
				for _, m := range muts {
					if fp, msg := bindingOracle(zhc, wh, m); fp != "" {
						stats.Violation(t, part, "C08/binding/"+fp, fmt.Sprintf("block %d (order %d): %s", bi, b.Order, msg), dump())
						return
					}
					if m.Header.Hash() == wh.Hash() {
						continue
					}
					p, _ := zhc.GetEngineForHeader(m.Header).ComputePowHash(m.Header)
					if sealOK(p, m.Header.Difficulty()) {
						byChance++ // the changed block happens to be sealed as well: a different, possibly valid block
						continue
					}
					var views [3]*types.WorkObject
					for ctx := b.Order; ctx < 3; ctx++ {
						v := types.CopyWorkObject(b.Views[ctx])
						v.SetWorkObjectHeader(types.CopyWorkObjectHeader(m.Header))
						if strings.HasPrefix(m.Field, "body.") {
							// keep the work object self-consistent: the body header is the changed one
							for _, hm := range gen.HeaderMutations(b.Views[ctx].Header()) {
								if "body."+hm.Field == m.Field {
									v.Body().SetHeader(hm.Header)
								}
							}
						}
						views[ctx] = v
					}
					err := offer(views)
					nField++
					kinds["field/"+m.Field] = true
					if err == nil {
						stats.Violation(t, part, "C08/unsealed-change-accepted/"+m.Field, fmt.Sprintf("block %d (order %d) with %s changed and the old nonce (pow hash %x, difficulty %v: not sealed) was appended", bi, b.Order, m.Field, p, m.Header.Difficulty()), dump())
						return
					}
					if len(mlog) < 40 {
						mlog = append(mlog, fmt.Sprintf("block %d order %d field %s: %v", bi, b.Order, m.Field, err))
					}
				}
				// (ii) the seal is reused with a different body: header (hash, seal) untouched, one list changed
				for _, bm := range bmuts {
					if bm.ctx < b.Order {
						continue
					}
					views := b.Views
					cp := types.CopyWorkObject(b.Views[bm.ctx])
					if !bm.apply(cp) {
						continue
					}
					if fp := "C08/body-substituted/" + bm.name; stats.IsKnown(fp) {
						stats.Excluded(fp) // an accepted substitute would become the block and mask the following mutants
						continue
					}
					if cp.Hash() != b.Views[bm.ctx].Hash() {
						t.Fatalf("HARNESS: body mutation %s changed the block hash", bm.name)
					}
					views[bm.ctx] = cp
					err := offer(views)
					nBody++
					kinds["body/"+bm.name] = true
					mlog = append(mlog, fmt.Sprintf("block %d order %d body %s: %v", bi, b.Order, bm.name, err))
					if err == nil {
						stored := ""
						if got := f.Nodes[bm.ctx].Core.Slice().HeaderChain().GetBlockByHash(cp.Hash()); got != nil {
							stored = fmt.Sprintf("; the node now holds under hash %x: %d txs, %d etxs, %d uncles, %d manifest entries, %d interlink hashes (sealed block: %d/%d/%d/%d/%d)", cp.Hash().Bytes()[:6],
								len(got.Transactions()), len(got.OutboundEtxs()), len(got.Uncles()), len(got.Manifest()), len(got.InterlinkHashes()),
								len(b.Views[bm.ctx].Transactions()), len(b.Views[bm.ctx].OutboundEtxs()), len(b.Views[bm.ctx].Uncles()), len(b.Views[bm.ctx].Manifest()), len(b.Views[bm.ctx].InterlinkHashes()))
						}
						stats.Violation(t, part, "C08/body-substituted/"+bm.name, fmt.Sprintf("block %d (order %d): the sealed header was appended with a substituted body (%s)%s", bi, b.Order, bm.name, stored), dump())
						return
					}
				}
			}
			// the genuine block must (still) be accepted
			if err := f.Insert(b); err != nil {
				if inDepth {
					stats.Violation(t, part, "C08/genuine-rejected-after-mutants", fmt.Sprintf("block %d (order %d) is refused after its mutants were refused: %v", bi, b.Order, err), dump())
					return
				}
				t.Fatalf("HARNESS: replay insert block %d: %v", bi, err)
			}
			if inDepth {
				// what the node now holds under the block hash is the sealed content
				for ctx := b.Order; ctx < 3; ctx++ {
					chc := f.Nodes[ctx].Core.Slice().HeaderChain()
					for _, cold := range []bool{false, true} {
						if cold {
							chc.VerifPurgeCaches()
						}
						got := chc.GetBlockByHash(b.Views[ctx].Hash())
						if got == nil {
							stats.Violation(t, part, "C08/accepted-block-missing", fmt.Sprintf("block %d view %d not retrievable after append (cold=%v)", bi, ctx, cold), dump())
							return
						}
						if what := rootsMatch(got, ctx); what != "" {
							if os.Getenv("C08_DEBUG") != "" {
								fmt.Printf("DEBUG block %d view %d what=%s cold=%v\n genuine txs:", bi, ctx, what, cold)
								for _, tx := range b.Views[ctx].Transactions() {
									fmt.Printf(" %x/t%d", tx.Hash().Bytes()[:4], tx.Type())
								}
								fmt.Printf("\n stored txs:")
								for _, tx := range got.Transactions() {
									fmt.Printf(" %x/t%d", tx.Hash().Bytes()[:4], tx.Type())
								}
								fmt.Printf("\n header txhash %x derive(genuine) %x derive(stored) %x\n", got.TxHash(), types.DeriveSha(types.Transactions(b.Views[ctx].Transactions()), trie.NewStackTrie(nil)), types.DeriveSha(types.Transactions(got.Transactions()), trie.NewStackTrie(nil)))
							}
							stats.Violation(t, part, "C08/stored-body-differs/"+what, fmt.Sprintf("block %d view %d: the stored %s list does not match the sealed header (cold=%v)", bi, ctx, what, cold), dump())
							return
						}
					}
				}
				_ = hc
			}
		}
		var kl []string
		for k := range kinds {
			kl = append(kl, k)
			if strings.HasPrefix(k, "body/") {
				stats.Label(part, k)
			}
		}
		sort.Strings(kl)
		if byChance > 0 {
			stats.Label(part, "field_mutant_sealed_by_chance")
		}
		var bodyKinds []string
		for _, k := range kl {
			if strings.HasPrefix(k, "body/") {
				bodyKinds = append(bodyKinds, k)
			}
		}
		var sl []string
		for k := range shapes {
			sl = append(sl, k)
		}
		sort.Strings(sl)
		stats.Case(part, fmt.Sprintf("fields=%d|%s|%s", len(kl)-len(bodyKinds), strings.Join(sl, ","), strings.Join(bodyKinds, ",")), nBody > 0 && nField > 0)
		if stats.WantSample(part) {
			stats.Sample(part, map[string]any{"blocks": len(a.Blocks), "field_mutants_offered": nField, "body_mutants_offered": nBody, "sealed_by_chance": byChance, "log": tailStr(mlog, 16)})
		}
	})
}

func tailStr(l []string, n int) []string {
	if len(l) > n {
		return l[len(l)-n:]
	}
	return l
}
