package c08

import (
	"fmt"
	"math/big"
	"testing"

	"github.com/dominant-strategies/go-quai/common"
	"github.com/dominant-strategies/go-quai/core/types"
	"github.com/dominant-strategies/go-quai/params"

	"verifharness/sim"
	"verifharness/stats"
)

// fixedSpec is a deterministic donor proof description (no rapid draws).
func fixedSpec(powID types.PowID, quaiTime uint64) donorSpec {
	s := donorSpec{powID: powID, txVersion: 2, inputs: 1, prevIndex: 0xffffffff, sequence: 0xffffffff, magic: [4]byte{0xfa, 0xbe, 0x6d, 0x6d}, merkleSize: 1,
		version: 0x20000000, bits: 0x1b012345, height: 4242, signers: [2]int{0, 2}, nonce: 1, extraNonce1: 7, extraNonce2: 9}
	for i := range s.prev {
		s.prev[i] = byte(i * 7)
	}
	s.sigTime = uint32(quaiTime) - 1
	s.donorTime = s.sigTime + 1
	s.coinbaseOut = append(append(varint(1), le64(5000000000)...), append(append(varint(3), 0x51, 0x52, 0x53), le32(0)...)...)
	s.branch = [][]byte{make([]byte, 32), make([]byte, 32)}
	s.branch[0][1], s.branch[1][2] = 0xaa, 0xbb
	if powID == types.Scrypt {
		s.merkleSize, s.merkleNonce = params.MerkleSize, params.MerkleNonce
		s.auxPow2 = make([]byte, 32)
		s.auxPow2[5] = 0x5d
	}
	return s
}

// TestC08_Regress_KnownFindings reproduces every listed C08 finding once per run on a fixed input
// through the same observations the random tests make. A reproducer that no longer observes its
// defect leaves a note (the entry can then be closed).
func TestC08_Regress_KnownFindings(t *testing.T) {
	if stats.Shard() != 0 {
		return
	}
	const part = "regress"
	stats.Exhaustive(part)
	auxParams()
	report := func(fp string, observed bool, msg string, dump any) {
		stats.Case(part, fp, true, fmt.Sprintf("observed=%v:%s", observed, fp))
		if !observed {
			stats.Note("regress: " + fp + " is no longer observed")
			return
		}
		stats.Violation(t, part, fp, msg, dump)
	}

	n, err := sim.NewNet(sim.Options{})
	if err != nil {
		t.Fatalf("HARNESS: net: %v", err)
	}
	defer n.Close()
	a := sim.NewActor(n)
	if err := a.Prelude(); err != nil {
		t.Fatalf("HARNESS: prelude: %v", err)
	}
	if err := a.Adopt(); err != nil {
		t.Fatalf("HARNESS: adopt: %v", err)
	}

	// ---- a body list without a root in the node's context is accepted under the seal (replay net)
	f, err := sim.NewNet(sim.Options{})
	if err != nil {
		t.Fatalf("HARNESS: net: %v", err)
	}
	defer f.Close()
	junk := common.HexToHash("0xc08c08c08c08")
	type probe struct {
		fp    string
		ctx   int
		order func(o int) bool
		apply func(b *types.WorkObject)
	}
	probes := []probe{
		{"C08/body-substituted/zone/manifest/add", sim.Zone, func(o int) bool { return o == sim.Zone }, func(b *types.WorkObject) { b.Body().SetManifest(types.BlockManifest{junk}) }},
		{"C08/body-substituted/zone/interlink/add", sim.Zone, func(o int) bool { return o == sim.Zone }, func(b *types.WorkObject) { b.Body().SetInterlinkHashes(common.Hashes{junk}) }},
		{"C08/body-substituted/region/interlink/add", sim.Region, func(o int) bool { return o <= sim.Region }, func(b *types.WorkObject) { b.Body().SetInterlinkHashes(common.Hashes{junk}) }},
	}
	next := 0
	for bi, b := range a.Blocks {
		if err := f.SetHeads(b.Parents); err != nil {
			t.Fatalf("HARNESS: replay adopt parents of block %d: %v", bi, err)
		}
		if next < len(probes) && bi >= 5 && probes[next].order(b.Order) {
			p := probes[next]
			next++
			views := b.Views
			cp := types.CopyWorkObject(b.Views[p.ctx])
			p.apply(cp)
			views[p.ctx] = cp
			for ctx := b.Order; ctx < 3; ctx++ {
				f.Nodes[ctx].Core.Slice().WriteBlock(types.CopyWorkObject(views[ctx]))
			}
			etxs, err := f.Nodes[b.Order].Core.Slice().Append(types.CopyWorkObject(views[b.Order]), common.Hash{}, false, nil)
			held := ""
			if got := f.Nodes[p.ctx].Core.Slice().HeaderChain().GetBlockByHash(cp.Hash()); got != nil {
				held = fmt.Sprintf("; held under the block hash now: %d manifest entries, %d interlink hashes (sealed block: %d, %d)", len(got.Manifest()), len(got.InterlinkHashes()), len(b.Views[p.ctx].Manifest()), len(b.Views[p.ctx].InterlinkHashes()))
			}
			report(p.fp, err == nil && cp.Hash() == b.Views[p.ctx].Hash(), fmt.Sprintf("block %d (order %d): the sealed header was appended with a substituted body%s", bi, b.Order, held), map[string]any{"history": a.Log})
			if err == nil {
				// the substitute became the block: complete what Insert would have done
				if b.Order > sim.Prime {
					if err := f.Nodes[b.Order].Core.SendPendingEtxsToDom(types.PendingEtxs{Header: b.Views[sim.Zone].ConvertToPEtxView(), OutboundEtxs: etxs}); err != nil {
						t.Fatalf("HARNESS: pending etxs: %v", err)
					}
				}
				continue
			}
		}
		if err := f.Insert(b); err != nil {
			t.Fatalf("HARNESS: replay insert block %d: %v", bi, err)
		}
	}
	if next < len(probes) {
		t.Fatalf("HARNESS: only %d of %d body probes found a block", next, len(probes))
	}

	// ---- merge-mined share without a valid template signature, coinbase address out of scope
	zone := n.Nodes[sim.Zone]
	hc := zone.Core.Slice().HeaderChain()
	{
		i := len(a.Blocks) - 2
		b, c := a.Blocks[i].Zone(), a.Blocks[i+1].Zone()
		if b.PrimeTerminusNumber().Uint64() < params.KawPowForkBlock {
			t.Fatalf("HARNESS: regress block is before the fork")
		}
		foreign := common.HexToAddress("0x0100000000000000000000000000000000000c08", sim.ZoneLoc)
		try := func(coinbase *common.Address, sign bool) error {
			u := types.CopyWorkObjectHeader(b.WorkObjectHeader())
			u.SetNonce(types.EncodeNonce(u.NonceU64() + 0x9e3779b9))
			if coinbase != nil {
				u.SetPrimaryCoinbase(*coinbase)
			}
			spec := fixedSpec(types.SHA_BTC, u.Time())
			sig := make([]byte, 64)
			if sign {
				var err error
				if sig, err = spec.sign(); err != nil {
					t.Fatalf("HARNESS: sign: %v", err)
				}
			}
			u.SetAuxPow(spec.assemble(u.SealHash(), sig))
			tg := &auxTarget{kind: "uncle", hc: hc, needPow: true}
			if !tg.grind(u) {
				t.Fatalf("HARNESS: could not find a donor nonce")
			}
			cp := types.CopyWorkObject(c)
			cp.Body().SetUncles([]*types.WorkObjectHeader{u})
			return hc.VerifyUncles(cp)
		}
		signedOK, unsignedInScope, unsignedForeign := try(nil, true), try(nil, false), try(&foreign, false)
		if signedOK != nil || unsignedInScope == nil {
			t.Fatalf("HARNESS: control shares: signed %v, unsigned in-scope %v", signedOK, unsignedInScope)
		}
		report(FpUnsignedShare, unsignedForeign == nil, fmt.Sprintf("a SHA_BTC share with an all-zero template signature is accepted by VerifyUncles when its coinbase address is %x (out of scope); with an in-scope address it is refused: %v", foreign.Bytes(), unsignedInScope), map[string]any{"history": a.Log})
	}

	// ---- CalcOrder answer cached under the hash of the AuxPoW only
	{
		tip := a.Blocks[len(a.Blocks)-1]
		if tip.Order != sim.Zone {
			t.Fatalf("HARNESS: prelude tip is not a zone-order block")
		}
		valid := types.CopyWorkObject(tip.Zone())
		spec := fixedSpec(types.Kawpow, valid.Time())
		sig, err := spec.sign()
		if err != nil {
			t.Fatalf("HARNESS: sign: %v", err)
		}
		valid.WorkObjectHeader().SetAuxPow(spec.assemble(valid.SealHash(), sig))
		sealed := false
		for i := uint64(0); i < 200000 && !sealed; i++ {
			setDonorNonce(valid.AuxPow(), i)
			if sealOK(valid.Hash(), valid.Difficulty()) {
				hc.VerifPurgeCaches()
				if _, o, err := hc.CalcOrder(valid); err == nil && o == sim.Zone {
					sealed = true
				}
			}
		}
		if !sealed {
			t.Fatalf("HARNESS: could not seal")
		}
		parent := hc.GetBlockByHash(valid.ParentHash(sim.Zone))
		if err := hc.VerifVerifyHeader(valid, parent, false, int64(valid.Time())); err != nil {
			t.Fatalf("HARNESS: valid KawPoW-proof block does not verify: %v", err)
		}
		hc.VerifPurgeCaches()
		_, order0, _ := hc.CalcOrder(valid)
		fake := types.CopyWorkObject(valid)
		fake.WorkObjectHeader().SetDifficulty(big.NewInt(2))
		hc.VerifPurgeCaches()
		_, orderFake, errFake := hc.CalcOrder(fake)
		_, order1, err1 := hc.CalcOrder(valid)
		hc.VerifPurgeCaches()
		report(FpOrderCachePoison, fake.Hash() == valid.Hash() && (err1 != nil || order1 != order0),
			fmt.Sprintf("CalcOrder(valid KawPoW-proof block) = order %d alone, order %d/%v after CalcOrder(header with the same proof and difficulty 2) = %d/%v; both have block hash %x", order0, order1, err1, orderFake, errFake, valid.Hash().Bytes()[:6]),
			map[string]any{"valid": describeWoh(valid.WorkObjectHeader())})
	}

	// ---- ProgPoW: pow hash memoised in the header object survives copy + field change
	{
		realEngines()
		wh := types.NewWorkObjectHeader(types.EmptyRootHash, types.EmptyRootHash, big.NewInt(5), big.NewInt(64), big.NewInt(1), types.EmptyRootHash, types.EncodeNonce(7), 0, 1700000000,
			sim.ZoneLoc, sim.DefaultQuaiCoinbase, []byte{0}, nil, &types.PowShareDiffAndCount{}, &types.PowShareDiffAndCount{}, nil, nil, nil)
		mix, pow := progEngine.ComputePowLight(wh)
		wh.SetMixHash(mix)
		wh.PowDigest.Store(mix)
		wh.PowHash.Store(pow)
		cp := types.CopyWorkObjectHeader(wh)
		cp.SetTime(wh.Time() + 99)
		h, err := progEngine.ComputePowHash(cp)
		report(FpProgpowStale, err == nil && h == pow && cp.SealHash() != wh.SealHash(),
			fmt.Sprintf("CopyWorkObjectHeader + SetTime(+99) changes the seal hash %x -> %x, Progpow.ComputePowHash still returns the original pow hash %x", wh.SealHash().Bytes()[:6], cp.SealHash().Bytes()[:6], h),
			map[string]any{"original": describeWoh(wh), "changed_copy": describeWoh(cp)})
	}
}
