package c08

// Real ProgPoW and KawPoW hashing (light verification with an epoch-0 cache, small counts): the
// proof-of-work hash of a sealed header must depend on every sealed field (ProgPoW: through the
// seal hash; KawPoW: through the donor header), and the recorded mix hash must stop verifying
// once anything sealed changes.

import (
	"fmt"
	"math/big"
	"os"
	"sync"
	"testing"

	"github.com/dominant-strategies/go-quai/common"
	"github.com/dominant-strategies/go-quai/consensus/kawpow"
	"github.com/dominant-strategies/go-quai/consensus/progpow"
	"github.com/dominant-strategies/go-quai/core/types"
	"github.com/dominant-strategies/go-quai/params"
	"google.golang.org/protobuf/proto"
	"pgregory.net/rapid"

	"verifharness/gen"
	"verifharness/sim"
	"verifharness/stats"
)

// FpProgpowStale : the ProgPoW engine trusts the pow hash memoised inside the header object
// (WorkObjectHeader.PowHash / PowDigest); CopyWorkObjectHeader copies that memo, so a copy whose
// sealed fields are then changed still "verifies" with the seal of the original.
const FpProgpowStale = "C08/progpow/memoised-pow-hash-survives-copy-and-field-change"

var (
	enginesOnce sync.Once
	progEngine  *progpow.Progpow
	kawEngine   *kawpow.Kawpow
)

func realEngines() {
	enginesOnce.Do(func() {
		cfg := params.PowConfig{PowMode: params.ModeNormal, CachesInMem: 2, NodeLocation: sim.ZoneLoc}
		progEngine = progpow.New(cfg, nil, false, sim.Logger())
		kawEngine = kawpow.New(cfg, nil, false, sim.Logger())
	})
}

// fresh sends the header through its wire codec: a new object without any memoised hashes.
func fresh(t fataler, wh *types.WorkObjectHeader) *types.WorkObjectHeader {
	p, err := wh.ProtoEncode()
	if err != nil {
		t.Fatalf("HARNESS: encode: %v", err)
	}
	raw, err := proto.Marshal(p)
	if err != nil {
		t.Fatalf("HARNESS: marshal: %v", err)
	}
	q := new(types.ProtoWorkObjectHeader)
	if err := proto.Unmarshal(raw, q); err != nil {
		t.Fatalf("HARNESS: unmarshal: %v", err)
	}
	out := new(types.WorkObjectHeader)
	if err := out.ProtoDecode(q, sim.ZoneLoc); err != nil {
		t.Fatalf("HARNESS: decode: %v", err)
	}
	return out
}

func TestC08_RealPowEngines(t *testing.T) {
	realEngines()
	const part = "engines"
	rapid.Check(t, func(t *rapid.T) {
		g := &gen.Tags{}
		if rapid.Bool().Draw(t, "kawpow") {
			// ---- KawPoW: the work is done on the donor (Ravencoin) header
			wh := types.CopyWorkObjectHeader(gen.WorkObjectHeader(t, "wh", sim.ZoneLoc, gen.WoOpts{Regime: gen.PostFork, AuxPow: 1}, g))
			spec := drawSpec(t, "kaw", types.Kawpow, 1700000000)
			spec.height = uint32(rapid.IntRange(1, 7000).Draw(t, "epoch0Height")) // one epoch cache
			ap := spec.assemble(wh.SealHash(), make([]byte, 64))
			wh.SetAuxPow(ap)
			mix, pow := kawEngine.ComputePowLight(wh)
			ap.Header().SetMixHash(mix)
			got, err := kawEngine.ComputePowHash(wh)
			if err != nil || got != pow {
				stats.Violation(t, part, "C08/kawpow/sealed-header-refused", fmt.Sprintf("ComputePowHash of a header carrying the computed mix hash: %x, %v (light: %x)", got, err, pow), describeWoh(wh))
				return
			}
			type dm struct {
				name string
				f    func(s *donorSpec)
			}
			all := []dm{
				{"donor.version", func(s *donorSpec) { s.version ^= 4 }}, {"donor.prev", func(s *donorSpec) { s.prev[0] ^= 1 }},
				{"donor.time", func(s *donorSpec) { s.donorTime++ }}, {"donor.bits", func(s *donorSpec) { s.bits ^= 2 }},
				{"donor.height", func(s *donorSpec) { s.height ^= 1 }}, {"donor.nonce64", func(s *donorSpec) { s.nonce ^= 1 }},
				{"donor.merkle-root(coinbase)", func(s *donorSpec) { s.extraNonce2++ }},
			}
			picks := rapid.SliceOfNDistinct(rapid.IntRange(0, len(all)-1), 3, 3, rapid.ID[int]).Draw(t, "donorMutations")
			// every case also changes the nonce on the engine that has just verified the sealed header
			// (warm result cache): one bit of the high word, one bit of the low word, both words
			hi, lo := uint(rapid.IntRange(32, 63).Draw(t, "nonceHighBit")), uint(rapid.IntRange(0, 31).Draw(t, "nonceLowBit"))
			all = append(all,
				dm{"donor.nonce64.high-word", func(s *donorSpec) { s.nonce ^= 1 << hi }},
				dm{"donor.nonce64.low-word", func(s *donorSpec) { s.nonce ^= 1 << lo }},
				dm{"donor.nonce64.both-words", func(s *donorSpec) { s.nonce ^= 1<<hi | 1<<lo }})
			picks = append(picks, len(all)-3, len(all)-2, len(all)-1)
			for _, i := range picks {
				s2 := spec.clone()
				all[i].f(&s2)
				w2 := types.CopyWorkObjectHeader(wh)
				ap2 := s2.assemble(wh.SealHash(), make([]byte, 64))
				ap2.Header().SetMixHash(mix) // the old mix hash is kept
				w2.SetAuxPow(ap2)
				_, p2 := kawEngine.ComputePowLight(w2)
				if p2 == pow {
					stats.Violation(t, part, "C08/kawpow/powhash-ignores/"+all[i].name, fmt.Sprintf("changing %s leaves the KawPoW hash unchanged", all[i].name), describeWoh(w2))
					return
				}
				if h, err := kawEngine.ComputePowHash(w2); err == nil {
					stats.Violation(t, part, "C08/kawpow/old-mix-verifies/"+all[i].name, fmt.Sprintf("after changing %s the old mix hash still verifies (pow hash %x)", all[i].name, h), describeWoh(w2))
					return
				}
			}
			// wrong mix hash
			ap.Header().SetMixHash(common.BytesToHash(flip(mix.Bytes(), 7)))
			if _, err := kawEngine.ComputePowHash(wh); err == nil {
				stats.Violation(t, part, "C08/kawpow/wrong-mix-accepted", "a header with a wrong mix hash is accepted", describeWoh(wh))
				return
			}
			stats.Case(part, fmt.Sprintf("kawpow|%v", picks), true, "engine:kawpow")
			return
		}
		// ---- ProgPoW: the work is done on the seal hash of the header itself
		wh := gen.WorkObjectHeader(t, "wh", sim.ZoneLoc, gen.WoOpts{Regime: gen.PreFork}, g)
		wh.SetPrimeTerminusNumber(big.NewInt(int64(rapid.IntRange(0, 7000).Draw(t, "epoch0Ptn")))) // one epoch cache
		wh = fresh(t, wh)
		mix, pow := progEngine.ComputePowLight(wh)
		wh.SetMixHash(mix)
		sealed := fresh(t, wh)
		if got, err := progEngine.ComputePowHash(sealed); err != nil || got != pow {
			stats.Violation(t, part, "C08/progpow/sealed-header-refused", fmt.Sprintf("ComputePowHash of a header carrying the computed mix hash: %x, %v (light: %x)", got, err, pow), describeWoh(wh))
			return
		}
		muts := append(gen.WohMutations(sealed, sim.ZoneLoc), extraWohMutations(sealed)...)
		var usable []gen.WohMutation
		for _, m := range muts {
			if m.Field == "primeTerminusNumber" || m.Field == "mixHash" || m.Aux {
				continue // the epoch would change (cache cost); the mix hash is checked below
			}
			usable = append(usable, m)
		}
		picks := rapid.SliceOfNDistinct(rapid.IntRange(0, len(usable)-1), 3, 3, rapid.ID[int]).Draw(t, "fieldMutations")
		var names []string
		for _, i := range picks {
			m := usable[i]
			names = append(names, m.Field)
			w2 := fresh(t, m.Header) // no memo
			_, p2 := progEngine.ComputePowLight(w2)
			if p2 == pow {
				stats.Violation(t, part, "C08/progpow/powhash-ignores/"+m.Field, fmt.Sprintf("changing %s leaves the ProgPoW hash unchanged", m.Field), describeWoh(w2))
				return
			}
			if h, err := progEngine.ComputePowHash(fresh(t, m.Header)); err == nil {
				stats.Violation(t, part, "C08/progpow/old-mix-verifies/"+m.Field, fmt.Sprintf("after changing %s the old mix hash still verifies (pow hash %x)", m.Field, h), describeWoh(w2))
				return
			}
			// the same change applied to a copy of an object that has already been verified
			if stats.IsKnown(FpProgpowStale) {
				stats.Excluded(FpProgpowStale)
			} else if m.Sealed {
				// the state ComputePowLight leaves in the object it hashed first-hand (whether it does
				// depends on the engine's LRU; the memo is set here explicitly to be deterministic)
				memo := fresh(t, wh)
				memo.PowDigest.Store(mix)
				memo.PowHash.Store(pow)
				if _, err := progEngine.ComputePowHash(memo); err != nil {
					t.Fatalf("HARNESS: sealed header refused: %v", err)
				}
				cp := types.CopyWorkObjectHeader(memo)
				applyByName(cp, m)
				h, err := progEngine.ComputePowHash(cp)
				if os.Getenv("C08_DEBUG") != "" {
					fmt.Printf("STALE probe %s: h=%x err=%v pow=%x sealchanged=%v memoLoaded=%v\n", m.Field, h.Bytes()[:4], err, pow.Bytes()[:4], cp.SealHash() != memo.SealHash(), cp.PowHash.Load() != nil)
				}
				if err == nil && h == pow && cp.SealHash() != memo.SealHash() {
					if !stats.Violation(t, part, FpProgpowStale, fmt.Sprintf("a copy (CopyWorkObjectHeader) of a verified header with %s changed (seal hash %x -> %x) is still given the original pow hash %x by Progpow.ComputePowHash", m.Field, memo.SealHash().Bytes()[:6], cp.SealHash().Bytes()[:6], h), map[string]any{"original": describeWoh(memo), "changed_copy": describeWoh(cp)}) {
						return
					}
				}
			}
		}
		wrong := fresh(t, wh)
		wrong.SetMixHash(common.BytesToHash(flip(mix.Bytes(), 7)))
		if _, err := progEngine.ComputePowHash(wrong); err == nil {
			stats.Violation(t, part, "C08/progpow/wrong-mix-accepted", "a header with a wrong mix hash is accepted", describeWoh(wrong))
			return
		}
		stats.Case(part, fmt.Sprintf("progpow|%v", names), true, "engine:progpow")
	})
}

// applyByName re-applies the single-field change of m to another header object.
func applyByName(dst *types.WorkObjectHeader, m gen.WohMutation) {
	src := m.Header
	dst.SetHeaderHash(src.HeaderHash())
	dst.SetParentHash(src.ParentHash())
	dst.SetNumber(src.Number())
	dst.SetDifficulty(src.Difficulty())
	dst.SetTxHash(src.TxHash())
	dst.SetLocation(src.Location())
	dst.SetLock(src.Lock())
	dst.SetPrimaryCoinbase(src.PrimaryCoinbase())
	dst.SetTime(src.Time())
	dst.SetData(src.Data())
}
