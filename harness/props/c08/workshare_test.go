package c08

import (
	"fmt"
	"math/big"
	"testing"

	"github.com/dominant-strategies/go-quai/common"
	"github.com/dominant-strategies/go-quai/core"
	"github.com/dominant-strategies/go-quai/core/types"
	"github.com/dominant-strategies/go-quai/params"
	"pgregory.net/rapid"

	"verifharness/gen"
	"verifharness/sim"
	"verifharness/stats"
)

const (
	// FpWorkShareDiv0 : the workshare threshold computation divides by the header difficulty
	// without checking it (consensus.CalcWorkShareThreshold), reachable from the gossip validator.
	FpWorkShareDiv0 = "C08/workshare/panic-difficulty-0"
	// FpKawShareDiv0 : after the fork the kawpow share difficulty d*2^32/shareTarget rounds to zero
	// for a tiny (or zero) header difficulty and CheckIfValidWorkShare divides by it.
	FpKawShareDiv0 = "C08/workshare/panic-kawpow-share-difficulty-0"
)

// wsOK: h <= floor(2^256/d) * 2^k  <=>  ceil(h / 2^k) * d <= 2^256   (d > 0, k >= 0)
func wsOK(h common.Hash, d *big.Int, k int) bool {
	if d.Sign() <= 0 {
		return false
	}
	x := new(big.Int).SetBytes(h.Bytes())
	if k > 0 {
		x.Add(x, new(big.Int).Sub(pow2(uint(k)), big.NewInt(1)))
		x.Rsh(x, uint(k))
	}
	return x.Mul(x, d).Cmp(two256) <= 0
}

// strictOK: h < floor(2^256/D)  <=>  (h+1)*D <= 2^256
func strictOK(h common.Hash, D *big.Int) bool {
	if D == nil || D.Sign() <= 0 {
		return false
	}
	x := new(big.Int).SetBytes(h.Bytes())
	x.Add(x, big.NewInt(1))
	return x.Mul(x, D).Cmp(two256) <= 0
}

var validityName = map[types.WorkShareValidity]string{types.Valid: "Valid", types.Sub: "Sub", types.Invalid: "Invalid", types.Block: "Block"}

// simWorkShareThreshold is the PowConfig.WorkShareThreshold of the simulator's nodes (unset = 0,
// for which the protocol defines no sub-share class: CalcWorkShareThreshold refuses k <= 0).
const simWorkShareThreshold = 0

func TestC08_WorkShare(t *testing.T) {
	hc := sharedHC(t)
	const part = "workshare"
	rapid.Check(t, func(t *rapid.T) {
		g := &gen.Tags{}
		kind := rapid.SampledFrom([]string{"prefork", "prefork", "transition", "kawpow", "sha", "scrypt"}).Draw(t, "kind")
		var o gen.WoOpts
		switch kind {
		case "prefork":
			o = gen.WoOpts{Regime: gen.PreFork}
		case "transition":
			o = gen.WoOpts{Regime: gen.Transition, AuxPow: 0}
		default:
			o = gen.WoOpts{Regime: gen.Regime(rapid.IntRange(1, 2).Draw(t, "auxregime")), AuxPow: 1}
		}
		wh := types.CopyWorkObjectHeader(gen.WorkObjectHeader(t, "wh", sim.ZoneLoc, o, g))
		if wh.AuxPow() != nil {
			// force the donor kind wanted
			want := map[string][]types.PowID{"kawpow": {types.Kawpow}, "sha": {types.SHA_BTC, types.SHA_BCH}, "scrypt": {types.Scrypt}}[kind]
			ok := false
			for _, p := range want {
				ok = ok || wh.AuxPow().PowID() == p
			}
			if !ok {
				id := want[rapid.IntRange(0, len(want)-1).Draw(t, "powid")]
				ap := types.CopyAuxPow(wh.AuxPow())
				ap.SetPowID(id)
				ap.SetHeader(gen.DonorHeader(t, "donor", id))
				wh.SetAuxPow(ap)
			}
		}
		// difficulty: tiny (everything qualifies), around the 2^3 share threshold, or a boundary value
		var d *big.Int
		dk := rapid.SampledFrom([]string{"small", "small", "small", "1", "0", "-1", "2^32", "2^256", "2^256+1"}).Draw(t, "dkind")
		switch dk {
		case "small":
			d = big.NewInt(int64(rapid.IntRange(2, 64).Draw(t, "dsmall")))
		case "1":
			d = big.NewInt(1)
		case "0":
			d = big.NewInt(0)
		case "-1":
			d = big.NewInt(-1)
		case "2^32":
			d = pow2(32)
		case "2^256":
			d = pow2(256)
		default:
			d = new(big.Int).Add(pow2(256), big.NewInt(1))
		}
		wh.SetDifficulty(d)
		var shareD *big.Int // sha / scrypt share difficulty (sealed field)
		if kind == "sha" || kind == "scrypt" {
			shareD = rapid.SampledFrom([]*big.Int{big.NewInt(0), big.NewInt(1), big.NewInt(2), big.NewInt(3), big.NewInt(5), big.NewInt(16), pow2(64)}).Draw(t, "shareDiff")
			dc := types.NewPowShareDiffAndCount(shareD, big.NewInt(int64(rapid.IntRange(0, 9).Draw(t, "cnt"))), big.NewInt(0))
			if kind == "sha" {
				wh.SetShaDiffAndCount(dc)
			} else {
				wh.SetScryptDiffAndCount(dc)
			}
		}
		start := rapid.Uint64().Draw(t, "nonce")
		setSearchNonce(wh, start)
		custom := customHash(wh)

		// the hash the classification is about
		var h common.Hash
		if kind == "sha" || kind == "scrypt" {
			h = wh.AuxPow().Header().PowHash()
		} else {
			var err error
			if h, err = hc.GetEngineForHeader(wh).ComputePowHash(wh); err != nil {
				t.Fatalf("HARNESS: pow hash: %v", err)
			}
		}
		// the oracle's threshold predicate for "is a share"
		var kawDiff *big.Int
		share := func(h common.Hash, dd *big.Int) bool { return wsOK(h, dd, params.WorkSharesThresholdDiff) }
		if kind == "transition" || kind == "kawpow" {
			if p := guard(func() { kawDiff = core.CalculateKawpowShareDiff(wh) }); p != "" {
				stats.Violation(t, part, "C08/workshare/sharediff-panic", short(p, 1200), describeWoh(wh))
				return
			}
		}
		// grind towards the share boundary for small positive difficulties (pre-fork rule)
		side := "far"
		if (kind == "prefork") && dk == "small" && d.Cmp(big.NewInt(9)) >= 0 {
			want := rapid.Bool().Draw(t, "wantShare")
			for i := uint64(0); i < 100000; i++ {
				setSearchNonce(wh, start+i)
				hh, _ := hc.GetEngineForHeader(wh).ComputePowHash(wh)
				here := share(hh, d)
				flips := here != share(hh, new(big.Int).Add(d, big.NewInt(1))) || here != share(hh, new(big.Int).Sub(d, big.NewInt(1)))
				if here == want && flips {
					side = fmt.Sprintf("tight-%v", want)
					h = hh
					break
				}
			}
			if side == "far" {
				h, _ = hc.GetEngineForHeader(wh).ComputePowHash(wh)
			}
		}
		dump := func() any {
			return map[string]any{"header": describeWoh(wh), "kind": kind, "hash": h.Hex(), "shareDiff": fmt.Sprint(shareD), "kawpowShareDiff": fmt.Sprint(kawDiff)}
		}

		// expected classes
		var wantCheck, wantClass types.WorkShareValidity
		switch kind {
		case "prefork":
			wantCheck = types.Invalid
			if share(h, d) {
				wantCheck = types.Valid
			} else if simWorkShareThreshold > 0 && wsOK(h, d, simWorkShareThreshold) {
				wantCheck = types.Sub
			}
			wantClass = wantCheck
			if sealOK(h, d) {
				wantClass = types.Block
			}
		case "transition", "kawpow":
			wantCheck = types.Invalid
			if kawDiff != nil && kawDiff.Sign() > 0 && sealOK(h, kawDiff) {
				wantCheck = types.Valid
			} else if simWorkShareThreshold > 0 && wsOK(h, d, simWorkShareThreshold) {
				wantCheck = types.Sub
			}
			wantClass = wantCheck
			if sealOK(h, d) {
				wantClass = types.Block
			}
		default: // sha / scrypt: only the classification function knows these
			wantClass = types.Invalid
			if !wh.IsTransitionProgPowBlock() && strictOK(h, shareD) {
				wantClass = types.Valid
			}
		}

		known := func(fp string) bool {
			if stats.IsKnown(fp) {
				stats.Excluded(fp)
				return true
			}
			return false
		}
		checked := 0
		// --- CheckWorkThreshold (gossip filter and classification building block)
		if kind == "prefork" || kind == "transition" || kind == "kawpow" {
			for _, k := range []int{params.WorkSharesThresholdDiff, params.WorkShareP2PThresholdDiff, 1, 0, -1} {
				if d.Sign() == 0 && k > 0 && known(FpWorkShareDiv0) {
					continue
				}
				var got bool
				if p := guard(func() { got = hc.CheckWorkThreshold(wh, k) }); p != "" {
					fp := "C08/workshare/checkworkthreshold-panic"
					if d.Sign() == 0 {
						fp = FpWorkShareDiv0
					}
					if !stats.Violation(t, part, fp, fmt.Sprintf("CheckWorkThreshold(k=%d) panicked for difficulty %v: %s", k, d, short(p, 1200)), dump()) {
						return
					}
					continue
				}
				want := k > 0 && wsOK(h, d, k)
				if got != want {
					stats.Violation(t, part, "C08/workshare/threshold-verdict", fmt.Sprintf("CheckWorkThreshold(k=%d) = %v for pow hash %x, difficulty %v; h <= floor(2^256/d)*2^k is %v", k, got, h, d, want), dump())
					return
				}
				checked++
			}
			// --- CheckIfValidWorkShare
			skip := false
			if kind == "prefork" && d.Sign() == 0 && known(FpWorkShareDiv0) {
				skip = true
			}
			if kind != "prefork" && (kawDiff == nil || kawDiff.Sign() == 0) && known(FpKawShareDiv0) {
				skip = true
			}
			if !skip {
				var got types.WorkShareValidity
				if p := guard(func() { got = hc.CheckIfValidWorkShare(wh) }); p != "" {
					fp := "C08/workshare/checkifvalid-panic"
					if kind == "prefork" && d.Sign() == 0 {
						fp = FpWorkShareDiv0
					} else if kind != "prefork" && kawDiff != nil && kawDiff.Sign() == 0 {
						fp = FpKawShareDiv0
					}
					if !stats.Violation(t, part, fp, fmt.Sprintf("CheckIfValidWorkShare panicked (difficulty %v, kawpow share difficulty %v): %s", d, kawDiff, short(p, 1200)), dump()) {
						return
					}
				} else if got != wantCheck {
					stats.Violation(t, part, "C08/workshare/checkifvalid-verdict/"+kind, fmt.Sprintf("CheckIfValidWorkShare = %s, independent threshold computation says %s (pow hash %x, difficulty %v, kawpow share difficulty %v)", validityName[got], validityName[wantCheck], h, d, kawDiff), dump())
					return
				} else {
					checked++
				}
			}
		}
		// --- UncleWorkShareClassification
		{
			skip := false
			sealRejects := d.Sign() <= 0 || !sealOK(h, d) // classification falls through to the share rule
			if kind == "prefork" && d.Sign() == 0 && known(FpWorkShareDiv0) {
				skip = true
			}
			if (kind == "transition" || kind == "kawpow") && sealRejects && (kawDiff == nil || kawDiff.Sign() == 0) && known(FpKawShareDiv0) {
				skip = true
			}
			if !skip {
				var got types.WorkShareValidity
				if p := guard(func() { got = hc.UncleWorkShareClassification(wh) }); p != "" {
					fp := "C08/workshare/classification-panic"
					if kind == "prefork" && d.Sign() == 0 {
						fp = FpWorkShareDiv0
					} else if (kind == "transition" || kind == "kawpow") && kawDiff != nil && kawDiff.Sign() == 0 {
						fp = FpKawShareDiv0
					}
					if !stats.Violation(t, part, fp, fmt.Sprintf("UncleWorkShareClassification panicked (difficulty %v): %s", d, short(p, 1200)), dump()) {
						return
					}
				} else if got != wantClass {
					stats.Violation(t, part, "C08/workshare/classification-verdict/"+kind, fmt.Sprintf("UncleWorkShareClassification = %s, independent computation says %s (hash %x, difficulty %v, share difficulty %v, kawpow share difficulty %v)", validityName[got], validityName[wantClass], h, d, shareD, kawDiff), dump())
					return
				} else {
					checked++
				}
			}
		}
		_ = custom
		nontrivial := side != "far" || ((kind == "sha" || kind == "scrypt") && shareD != nil && shareD.Sign() > 0 && shareD.BitLen() < 8) || (kind != "prefork" && kind != "sha" && kind != "scrypt" && dk == "small")
		stats.Case(part, fmt.Sprintf("%s|d=%s|%s|%s|%s", kind, dk, side, validityName[wantClass], fmt.Sprint(shareD)), nontrivial,
			"kind:"+kind, "d:"+dk, "side:"+side, "class:"+validityName[wantClass], fmt.Sprintf("checked:%d", checked))
		if stats.WantSample(part) {
			stats.Sample(part, map[string]any{"kind": kind, "difficulty": d.String(), "hash": h.Hex(), "class": validityName[wantClass], "share": validityName[wantCheck], "side": side, "shareDiff": fmt.Sprint(shareD), "kawpowShareDiff": fmt.Sprint(kawDiff)})
		}
	})
}
