package c08

import (
	"fmt"
	"math/big"
	"testing"
	"time"

	"github.com/dominant-strategies/go-quai/consensus/progpow"
	"github.com/dominant-strategies/go-quai/core/types"
	"github.com/dominant-strategies/go-quai/params"

	"verifharness/sim"
)

func TestC08_SpikeProgpow(t *testing.T) {
	e := progpow.New(params.PowConfig{PowMode: params.ModeNormal, CachesInMem: 2, NodeLocation: sim.ZoneLoc}, nil, false, sim.Logger())
	wh := types.NewWorkObjectHeader(types.EmptyRootHash, types.EmptyRootHash, big.NewInt(5), big.NewInt(64), big.NewInt(1), types.EmptyRootHash, types.EncodeNonce(7), 0, 1700000000, sim.ZoneLoc, sim.DefaultQuaiCoinbase, []byte{0}, nil, &types.PowShareDiffAndCount{}, &types.PowShareDiffAndCount{}, nil, nil, nil)
	t0 := time.Now()
	mix, pow := e.ComputePowLight(wh)
	fmt.Println("first", time.Since(t0), mix.Hex(), pow.Hex())
	wh.SetMixHash(mix)
	t0 = time.Now()
	for i := 0; i < 20; i++ {
		c := types.NewWorkObjectHeader(types.EmptyRootHash, types.EmptyRootHash, big.NewInt(5), big.NewInt(64), big.NewInt(1), types.EmptyRootHash, types.EncodeNonce(uint64(100+i)), 0, 1700000000, sim.ZoneLoc, sim.DefaultQuaiCoinbase, []byte{0}, nil, &types.PowShareDiffAndCount{}, &types.PowShareDiffAndCount{}, nil, nil, nil)
		e.ComputePowLight(c)
	}
	fmt.Println("20 more", time.Since(t0))
	h, err := e.ComputePowHash(wh)
	fmt.Println(h.Hex(), err)
	cp := types.CopyWorkObjectHeader(wh)
	cp.SetTime(wh.Time() + 99)
	h2, err2 := e.ComputePowHash(cp)
	fmt.Println("copy with time changed:", h2.Hex(), err2, "sealhash changed:", cp.SealHash() != wh.SealHash())
}
