// C08 — a block is sealed only by work on exactly its contents (DESIGN.md §4 C08).
//
// Shared helpers: one in-process prime+region+zone hierarchy per test process (only its
// HeaderChain / engines are used by the object-level parts), an independent big-integer seal
// oracle and panic capture.
package c08

import (
	"fmt"
	"math/big"
	"runtime/debug"
	"sync"

	"github.com/dominant-strategies/go-quai/common"
	"github.com/dominant-strategies/go-quai/core"
	"github.com/dominant-strategies/go-quai/core/types"

	"verifharness/sim"
)

var (
	two256 = new(big.Int).Lsh(big.NewInt(1), 256) // the harness's own 2^256 (never common.Big2e256)

	sharedOnce sync.Once
	sharedNet  *sim.Net
	sharedErr  error
)

type fataler interface {
	Fatalf(format string, args ...any)
}

// sharedHC returns the zone HeaderChain of a process-wide net (never closed: the process ends).
func sharedHC(t fataler) *core.HeaderChain {
	sharedOnce.Do(func() { sharedNet, sharedErr = sim.NewNet(sim.Options{}) })
	if sharedErr != nil {
		t.Fatalf("HARNESS: net: %v", sharedErr)
	}
	return sharedNet.Nodes[sim.Zone].Core.Slice().HeaderChain()
}

// sealOK is the independent statement of "hash at or below the target implied by difficulty d":
// h <= floor(2^256/d)  <=>  h*d <= 2^256 for integers h >= 0, d > 0. No division is used.
func sealOK(h common.Hash, d *big.Int) bool {
	if d.Sign() <= 0 {
		return false
	}
	p := new(big.Int).Mul(new(big.Int).SetBytes(h.Bytes()), d)
	return p.Cmp(two256) <= 0
}

// dStar = floor(2^256/h): the largest difficulty the hash satisfies (h > 0).
func dStar(h common.Hash) *big.Int {
	x := new(big.Int).SetBytes(h.Bytes())
	if x.Sign() == 0 {
		return new(big.Int).Set(two256)
	}
	return new(big.Int).Div(two256, x)
}

// guard runs f and returns the recovered panic value with its stack, or "".
func guard(f func()) (panicked string) {
	defer func() {
		if r := recover(); r != nil {
			panicked = fmt.Sprintf("%v\n%s", r, debug.Stack())
		}
	}()
	f()
	return ""
}

func short(s string, n int) string {
	if len(s) > n {
		return s[:n]
	}
	return s
}

func describeWoh(wh *types.WorkObjectHeader) map[string]any {
	m := map[string]any{
		"sealHash": wh.SealHash().Hex(), "hash": wh.Hash().Hex(), "number": wh.Number().String(),
		"difficulty": wh.Difficulty().String(), "primeTerminusNumber": wh.PrimeTerminusNumber().String(),
		"nonce": wh.NonceU64(), "mixHash": wh.MixHash().Hex(), "time": wh.Time(), "lock": wh.Lock(),
		"location": fmt.Sprint([]byte(wh.Location())), "data": fmt.Sprintf("%x", wh.Data()),
		"headerHash": wh.HeaderHash().Hex(), "parentHash": wh.ParentHash().Hex(), "txHash": wh.TxHash().Hex(),
		"coinbase": fmt.Sprintf("%x", wh.PrimaryCoinbase().Bytes()),
	}
	if ap := wh.AuxPow(); ap != nil {
		m["auxpow.powID"] = ap.PowID().String()
		m["auxpow.header"] = fmt.Sprintf("%x", ap.Header().Bytes())
		m["auxpow.tx"] = fmt.Sprintf("%x", ap.Transaction())
	}
	return m
}
