package c08

import (
	"fmt"
	"math/big"
	"testing"

	"github.com/dominant-strategies/go-quai/common"
	"github.com/dominant-strategies/go-quai/core/types"
	"pgregory.net/rapid"

	"verifharness/gen"
	"verifharness/sim"
	"verifharness/stats"
)

// FpCalcOrderDiv0 : CalcOrder divides by zero for a sealed header of difficulty 1 (the target
// 2^256 does not fit a 32-byte hash, is truncated to zero and fed to IntrinsicLogEntropy).
const FpCalcOrderDiv0 = "C08/calcorder/panic-difficulty-1"

type dClass struct {
	name  string
	val   func(t *rapid.T) *big.Int
	tight bool // grind the nonce until the hash sits next to the boundary of this difficulty
}

func pow2(n uint) *big.Int { return new(big.Int).Lsh(big.NewInt(1), n) }
func fixed(v *big.Int) func(*rapid.T) *big.Int {
	return func(*rapid.T) *big.Int { return new(big.Int).Set(v) }
}

var dClasses = []dClass{
	{"1", fixed(big.NewInt(1)), false},
	{"2", fixed(big.NewInt(2)), true},
	{"3", fixed(big.NewInt(3)), true},
	{"4", fixed(big.NewInt(4)), true},
	{"16", fixed(big.NewInt(16)), true},
	{"small", func(t *rapid.T) *big.Int { return big.NewInt(int64(rapid.IntRange(5, 40).Draw(t, "dsmall"))) }, true},
	{"2^32", fixed(pow2(32)), false},
	{"2^255", fixed(pow2(255)), false},
	{"2^256-1", fixed(new(big.Int).Sub(pow2(256), big.NewInt(1))), false},
	{"2^256", fixed(pow2(256)), false},
	{"2^256+1", fixed(new(big.Int).Add(pow2(256), big.NewInt(1))), false},
	{"0", fixed(big.NewInt(0)), false},
	{"-1", fixed(big.NewInt(-1)), false},
	{"-2^256", fixed(new(big.Int).Neg(pow2(256))), false},
	{"random", func(t *rapid.T) *big.Int { return gen.Big(t, "drand", 256) }, false},
}

// customHash reports whether Hash() of the header is the hash of its AuxPoW (at or after the fork
// with an AuxPoW attached) rather than blake3(mixHash || sealHash || nonce).
func customHash(wh *types.WorkObjectHeader) bool {
	return wh.KawpowActivationHappened() && !wh.IsTransitionProgPowBlock()
}

// setSearchNonce varies the field the miner grinds: the header nonce, or the donor header's nonce
// when the proof of work is the donor chain's.
func setSearchNonce(wh *types.WorkObjectHeader, n uint64) {
	if customHash(wh) && wh.AuxPow() != nil {
		if wh.AuxPow().PowID() == types.Kawpow {
			wh.AuxPow().Header().SetNonce64(n)
		} else {
			wh.AuxPow().Header().SetNonce(uint32(n))
		}
		return
	}
	wh.SetNonce(types.EncodeNonce(n))
}

func TestC08_SealVerdict(t *testing.T) {
	hc := sharedHC(t)
	const part = "seal"
	rapid.Check(t, func(t *rapid.T) {
		g := &gen.Tags{}
		// regimes: before the fork, transition without AuxPoW (both hash mix||seal||nonce), at or
		// after the fork with an AuxPoW (hash of the AuxPoW)
		var o gen.WoOpts
		switch rapid.IntRange(0, 3).Draw(t, "regime") {
		case 0, 1:
			o = gen.WoOpts{Regime: gen.PreFork}
		case 2:
			o = gen.WoOpts{Regime: gen.Transition, AuxPow: 0}
		default:
			o = gen.WoOpts{Regime: gen.Regime(rapid.IntRange(1, 2).Draw(t, "auxregime")), AuxPow: 1}
		}
		o.NonZeroNumber = rapid.IntRange(0, 9).Draw(t, "allowZeroNumber") != 0
		// a copy first: CopyAuxPow normalises nil byte strings to empty ones (known C14 finding), and
		// every header the node handles has been copied at least once
		wh := types.CopyWorkObjectHeader(gen.WorkObjectHeader(t, "wh", sim.ZoneLoc, o, g))
		dc := dClasses[rapid.IntRange(0, len(dClasses)-1).Draw(t, "dclass")]
		d := dc.val(t)
		wh.SetDifficulty(d) // the difficulty is itself sealed: fix it first, hash afterwards
		start := rapid.Uint64().Draw(t, "nonce")
		setSearchNonce(wh, start)
		engine := hc.GetEngineForHeader(wh)
		powHash := func() common.Hash {
			h, err := engine.ComputePowHash(wh)
			if err != nil {
				t.Fatalf("HARNESS: engine pow hash: %v", err)
			}
			return h
		}
		side := "far"
		if dc.tight {
			want := rapid.SampledFrom([]string{"accept", "reject"}).Draw(t, "side")
			for i := uint64(0); i < 200000; i++ {
				setSearchNonce(wh, start+i)
				ds := dStar(powHash())
				diff := new(big.Int).Sub(ds, d)
				if (want == "accept" && (diff.Sign() == 0 || diff.Cmp(big.NewInt(1)) == 0)) || (want == "reject" && diff.Cmp(big.NewInt(-1)) == 0) {
					side = "tight-" + want
					break
				}
			}
		}
		h := powHash()
		wantOK := sealOK(h, d)
		dump := func() any {
			return map[string]any{"header": describeWoh(wh), "class": dc.name, "powHash": h.Hex(), "tags": g.List()}
		}
		var got common.Hash
		var err error
		if p := guard(func() { got, err = hc.VerifySeal(wh) }); p != "" {
			stats.Violation(t, part, "C08/seal/verifyseal-panic/d="+dc.name, "VerifySeal panicked: "+short(p, 1500), dump())
			return
		}
		switch {
		case d.Sign() <= 0 && err == nil:
			stats.Violation(t, part, "C08/seal/nonpositive-difficulty-accepted", fmt.Sprintf("VerifySeal accepted difficulty %v", d), dump())
			return
		case d.Sign() > 0 && wantOK && err != nil:
			stats.Violation(t, part, "C08/seal/valid-rejected", fmt.Sprintf("pow hash %x satisfies difficulty %v (h*d <= 2^256) but VerifySeal returned %v", h, d, err), dump())
			return
		case d.Sign() > 0 && !wantOK && err == nil:
			stats.Violation(t, part, "C08/seal/invalid-accepted", fmt.Sprintf("pow hash %x does not satisfy difficulty %v (h*d > 2^256) but VerifySeal accepted it", h, d), dump())
			return
		case err == nil && got != h:
			stats.Violation(t, part, "C08/seal/powhash-mismatch", fmt.Sprintf("VerifySeal returned pow hash %x, the engine computes %x", got, h), dump())
			return
		}
		// the seal verdict must be a function of the header alone: asking again agrees
		if _, err2 := hc.VerifySeal(types.CopyWorkObjectHeader(wh)); (err2 == nil) != (err == nil) {
			stats.Violation(t, part, "C08/seal/verdict-unstable", fmt.Sprintf("VerifySeal on a copy: %v, on the original: %v", err2, err), dump())
			return
		}

		// CalcOrder runs the same seal check before it classifies the block
		body := gen.Header(t, nil)
		body.SetExpansionNumber(uint8(rapid.IntRange(0, 3).Draw(t, "expansion")))
		wo := types.NewWorkObject(wh, nil, nil).WithBody(body, nil, nil, nil, nil, nil)
		orderLbl := "order:skipped-number0"
		if wo.NumberU64(sim.Zone) != 0 {
			if d.Cmp(big.NewInt(1)) == 0 && stats.IsKnown(FpCalcOrderDiv0) {
				stats.Excluded(FpCalcOrderDiv0)
				orderLbl = "order:excluded-known"
			} else {
				hc.VerifPurgeCaches()
				var ent *big.Int
				var order int
				var oerr error
				if p := guard(func() { ent, order, oerr = hc.CalcOrder(wo) }); p != "" {
					fp := "C08/calcorder/panic/d=" + dc.name
					if d.Cmp(big.NewInt(1)) == 0 {
						fp = FpCalcOrderDiv0
					}
					if !stats.Violation(t, part, fp, fmt.Sprintf("CalcOrder panicked for a header of difficulty %v: %s", d, short(p, 1500)), dump()) {
						return
					}
					orderLbl = "order:panic-known"
				} else {
					switch {
					case d.Cmp(big.NewInt(1)) == 0 && oerr != nil:
						// difficulty 1 is below every minimum difficulty and its target does not fit a
						// hash: refusing it is allowed (the property only forbids wrong acceptance)
					case (oerr == nil) != (d.Sign() > 0 && wantOK):
						stats.Violation(t, part, "C08/calcorder/verdict", fmt.Sprintf("CalcOrder error=%v but the seal oracle says valid=%v (difficulty %v, pow hash %x)", oerr, wantOK, d, h), dump())
						return
					case oerr == nil && (order < 0 || order > 2):
						stats.Violation(t, part, "C08/calcorder/order-range", fmt.Sprintf("order %d", order), dump())
						return
					case oerr == nil && ent.Cmp(common.IntrinsicLogEntropy(h)) != 0:
						stats.Violation(t, part, "C08/calcorder/entropy", fmt.Sprintf("intrinsic entropy %v is not that of the pow hash %x", ent, h), dump())
						return
					}
					if oerr == nil {
						// warm (cached) and cold answers agree
						e2, o2, err2 := hc.CalcOrder(wo)
						hc.VerifPurgeCaches()
						e3, o3, err3 := hc.CalcOrder(wo)
						if err2 != nil || err3 != nil || o2 != order || o3 != order || e2.Cmp(ent) != 0 || e3.Cmp(ent) != 0 {
							stats.Violation(t, part, "C08/calcorder/unstable", fmt.Sprintf("order %d/%v then %d/%v (cached) then %d/%v (purged)", order, oerr, o2, err2, o3, err3), dump())
							return
						}
						orderLbl = fmt.Sprintf("order:%d", order)
					} else {
						orderLbl = "order:error"
					}
				}
			}
		}
		verdict := "reject"
		if err == nil {
			verdict = "accept"
		}
		if d.Sign() <= 0 {
			verdict = "error-nonpositive"
		}
		hashKind := "progpowhash"
		if customHash(wh) {
			hashKind = "auxpowhash"
		}
		nontrivial := side != "far"
		stats.Case(part, fmt.Sprintf("%s|d=%s|%s|%s|%s", hashKind, dc.name, side, verdict, orderLbl), nontrivial,
			"d="+dc.name, "verdict:"+verdict, "side:"+side, "hash:"+hashKind, orderLbl)
		if stats.WantSample(part) {
			stats.Sample(part, map[string]any{"class": dc.name, "difficulty": d.String(), "powHash": h.Hex(), "dStar": dStar(h).String(), "verdict": verdict, "side": side, "order": orderLbl, "hash": hashKind})
		}
	})
}
