// C07 — own blocks validate; any deviation from re-execution is rejected.
// (a) every block the real worker assembles from a generated mempool, once sealed, must be
// appended and adopted by the node; (b) every single-component mutation of such a block,
// re-sealed so that only the deviation is wrong, must be rejected and leave the chain-state
// projection unchanged, after which the original is still accepted (DESIGN.md §4 C07).
package c07

import (
	"fmt"
	"math"
	"math/big"
	"sort"
	"strings"
	"testing"

	"github.com/dominant-strategies/go-quai/common"
	"github.com/dominant-strategies/go-quai/consensus/misc"
	"github.com/dominant-strategies/go-quai/core/rawdb"
	"github.com/dominant-strategies/go-quai/core/types"
	"github.com/dominant-strategies/go-quai/trie"
	"pgregory.net/rapid"

	"verifharness/sim"
	"verifharness/stats"
)

const part = "blocks"

type mutation struct {
	name string
	// apply mutates the copy; returns false when not applicable to this block
	apply func(b *types.WorkObject) bool
}

func bump(h common.Hash) common.Hash { h[7] ^= 0x5a; return h }

func recomputeBodyRoots(b *types.WorkObject) {
	b.Header().SetTxHash(types.DeriveSha(types.Transactions(b.Transactions()), trie.NewStackTrie(nil)))
	b.Header().SetOutboundEtxHash(types.DeriveSha(types.Transactions(b.OutboundEtxs()), trie.NewStackTrie(nil)))
	b.Header().SetUncleHash(types.CalcUncleHash(b.Uncles()))
}

func headerMutations() []mutation {
	hm := func(name string, f func(h *types.Header) bool) mutation {
		return mutation{"header/" + name, func(b *types.WorkObject) bool { return f(b.Header()) }}
	}
	return []mutation{
		hm("evmRoot", func(h *types.Header) bool { h.SetEVMRoot(bump(h.EVMRoot())); return true }),
		hm("utxoRoot", func(h *types.Header) bool { h.SetUTXORoot(bump(h.UTXORoot())); return true }),
		hm("etxSetRoot", func(h *types.Header) bool { h.SetEtxSetRoot(bump(h.EtxSetRoot())); return true }),
		hm("receiptHash", func(h *types.Header) bool { h.SetReceiptHash(bump(h.ReceiptHash())); return true }),
		hm("outboundEtxHash", func(h *types.Header) bool { h.SetOutboundEtxHash(bump(h.OutboundEtxHash())); return true }),
		hm("txHash", func(h *types.Header) bool { h.SetTxHash(bump(h.TxHash())); return true }),
		hm("uncleHash", func(h *types.Header) bool { h.SetUncleHash(bump(h.UncleHash())); return true }),
		hm("gasUsed+1", func(h *types.Header) bool { h.SetGasUsed(h.GasUsed() + 1); return true }),
		hm("gasUsed-1", func(h *types.Header) bool {
			if h.GasUsed() == 0 {
				return false
			}
			h.SetGasUsed(h.GasUsed() - 1)
			return true
		}),
		hm("stateUsed+1", func(h *types.Header) bool { h.SetStateUsed(h.StateUsed() + 1); return true }),
		hm("quaiStateSize+1", func(h *types.Header) bool {
			h.SetQuaiStateSize(new(big.Int).Add(h.QuaiStateSize(), big.NewInt(1)))
			return true
		}),
		hm("avgTxFees+1", func(h *types.Header) bool {
			h.SetAvgTxFees(new(big.Int).Add(h.AvgTxFees(), big.NewInt(1)))
			return true
		}),
		hm("totalFees+1", func(h *types.Header) bool {
			h.SetTotalFees(new(big.Int).Add(h.TotalFees(), big.NewInt(1)))
			return true
		}),
		hm("uncledEntropy+1", func(h *types.Header) bool {
			h.SetUncledEntropy(new(big.Int).Add(h.UncledEntropy(), big.NewInt(1)))
			return true
		}),
		hm("zoneManifestHash", func(h *types.Header) bool {
			h.SetManifestHash(bump(h.ManifestHash(sim.Zone)), sim.Zone)
			return true
		}),
	}
}

func bodyMutations(recompute bool) []mutation {
	suffix := "/roots-kept"
	if recompute {
		suffix = "/roots-recomputed"
	}
	fin := func(b *types.WorkObject) {
		if recompute {
			recomputeBodyRoots(b)
		}
	}
	txs := func(b *types.WorkObject) []*types.Transaction {
		return append([]*types.Transaction{}, b.Transactions()...)
	}
	etxs := func(b *types.WorkObject) []*types.Transaction {
		return append([]*types.Transaction{}, b.OutboundEtxs()...)
	}
	firstOfType := func(l []*types.Transaction, typ byte) int {
		for i, tx := range l {
			if tx.Type() == typ {
				return i
			}
		}
		return -1
	}
	bm := func(name string, f func(b *types.WorkObject) bool) mutation {
		return mutation{"body/" + name + suffix, func(b *types.WorkObject) bool {
			if !f(b) {
				return false
			}
			fin(b)
			return true
		}}
	}
	return []mutation{
		bm("drop-last-tx", func(b *types.WorkObject) bool {
			l := txs(b)
			if len(l) == 0 {
				return false
			}
			b.Body().SetTransactions(l[:len(l)-1])
			return true
		}),
		bm("drop-first-tx", func(b *types.WorkObject) bool {
			l := txs(b)
			if len(l) == 0 {
				return false
			}
			b.Body().SetTransactions(l[1:])
			return true
		}),
		bm("duplicate-tx", func(b *types.WorkObject) bool {
			l := txs(b)
			if len(l) == 0 {
				return false
			}
			b.Body().SetTransactions(append(l, l[len(l)-1]))
			return true
		}),
		bm("swap-first-two-txs", func(b *types.WorkObject) bool {
			l := txs(b)
			if len(l) < 2 || l[0].Hash() == l[1].Hash() {
				return false
			}
			// with the body roots recomputed a swap of two independent transactions of equal price is
			// itself a block an honest miner may build (same state, same receipts): it must be refused
			// only when the swapped order breaks an ordering rule
			if recompute && (swapBreaksOrder == nil || !swapBreaksOrder(b, l[0], l[1])) {
				return false
			}
			l[0], l[1] = l[1], l[0]
			b.Body().SetTransactions(l)
			return true
		}),
		bm("swap-adjacent-txs/qi-first", func(b *types.WorkObject) bool { return swapAdjacent(b, txs(b), types.QiTxType) }),
		bm("swap-adjacent-txs/quai-first", func(b *types.WorkObject) bool { return swapAdjacent(b, txs(b), types.QuaiTxType) }),
		bm("swap-adjacent-txs/etx-first", func(b *types.WorkObject) bool { return swapAdjacent(b, txs(b), types.ExternalTxType) }),
		bm("drop-inbound-etx", func(b *types.WorkObject) bool {
			l := txs(b)
			i := firstOfType(l, types.ExternalTxType)
			if i < 0 {
				return false
			}
			b.Body().SetTransactions(append(l[:i:i], l[i+1:]...))
			return true
		}),
		bm("alter-inbound-etx-value", func(b *types.WorkObject) bool {
			l := txs(b)
			i := firstOfType(l, types.ExternalTxType)
			if i < 0 {
				return false
			}
			in := l[i]
			to := *in.To()
			l[i] = types.NewTx(&types.ExternalTx{OriginatingTxHash: in.OriginatingTxHash(), ETXIndex: in.ETXIndex(), Gas: in.Gas(), To: &to, Value: new(big.Int).Add(in.Value(), big.NewInt(1)), Data: in.Data(), AccessList: in.AccessList(), Sender: in.ETXSender(), EtxType: in.EtxType()})
			b.Body().SetTransactions(l)
			return true
		}),
		bm("add-unknown-inbound-etx", func(b *types.WorkObject) bool {
			l := txs(b)
			to := sim.DefaultQuaiCoinbase
			ghost := types.NewTx(&types.ExternalTx{OriginatingTxHash: common.HexToHash("0xabcdef"), ETXIndex: 7, Gas: 21000, To: &to, Value: big.NewInt(1e18), Sender: to, EtxType: types.DefaultType})
			b.Body().SetTransactions(append([]*types.Transaction{ghost}, l...))
			return true
		}),
		bm("alter-quai-tx-value", func(b *types.WorkObject) bool {
			l := txs(b)
			i := firstOfType(l, types.QuaiTxType)
			if i < 0 {
				return false
			}
			in := l[i]
			v, r, s := in.GetEcdsaSignatureValues()
			l[i] = types.NewTx(&types.QuaiTx{ChainID: in.ChainId(), Nonce: in.Nonce(), GasPrice: in.GasPrice(), Gas: in.Gas(), To: in.To(), Value: new(big.Int).Add(in.Value(), big.NewInt(1)), Data: in.Data(), AccessList: in.AccessList(), V: v, R: r, S: s})
			b.Body().SetTransactions(l)
			return true
		}),
		bm("drop-uncle", func(b *types.WorkObject) bool {
			if recompute {
				// with the uncle hash recomputed this is a block an honest miner may build (the shares a
				// block carries are its miner's choice and are rewarded by later blocks; a share with a
				// changed coinbase still meets the share threshold one time in eight)
				return false
			}
			us := append([]*types.WorkObjectHeader{}, b.Uncles()...)
			if len(us) == 0 {
				return false
			}
			b.Body().SetUncles(us[1:])
			return true
		}),
		bm("duplicate-uncle", func(b *types.WorkObject) bool {
			us := append([]*types.WorkObjectHeader{}, b.Uncles()...)
			if len(us) == 0 {
				return false
			}
			b.Body().SetUncles(append(us, types.CopyWorkObjectHeader(us[0])))
			return true
		}),
		bm("re-include-ancestor-share", func(b *types.WorkObject) bool {
			// a share that one of the last ancestors already lists is listed again (it would be paid
			// once per listing): refused also with the uncle hash recomputed
			if ancestorShare == nil {
				return false
			}
			u := ancestorShare(b)
			if u == nil {
				return false
			}
			b.Body().SetUncles(append(append([]*types.WorkObjectHeader{}, b.Uncles()...), types.CopyWorkObjectHeader(u)))
			return true
		}),
		bm("swap-uncles", func(b *types.WorkObject) bool {
			if recompute {
				// with the uncle hash recomputed this is a block an honest miner may build (the shares a
				// block carries are its miner's choice and are rewarded by later blocks; a share with a
				// changed coinbase still meets the share threshold one time in eight)
				return false
			}
			us := append([]*types.WorkObjectHeader{}, b.Uncles()...)
			if len(us) < 2 || us[0].Hash() == us[1].Hash() {
				return false
			}
			us[0], us[1] = us[1], us[0]
			b.Body().SetUncles(us)
			return true
		}),
		bm("redirect-uncle-coinbase", func(b *types.WorkObject) bool {
			if recompute {
				// with the uncle hash recomputed this is a block an honest miner may build (the shares a
				// block carries are its miner's choice and are rewarded by later blocks; a share with a
				// changed coinbase still meets the share threshold one time in eight)
				return false
			}
			us := append([]*types.WorkObjectHeader{}, b.Uncles()...)
			if len(us) == 0 {
				return false
			}
			u := types.CopyWorkObjectHeader(us[0])
			to := sim.QuaiKeys(1)[0].Addr
			if to.Equal(u.PrimaryCoinbase()) {
				to = sim.QuaiKeys(2)[1].Addr
			}
			u.SetPrimaryCoinbase(to)
			us[0] = u
			b.Body().SetUncles(us)
			return true
		}),
		bm("drop-outbound-etx", func(b *types.WorkObject) bool {
			l := etxs(b)
			if len(l) == 0 {
				return false
			}
			b.Body().SetOutboundEtxs(l[:len(l)-1])
			return true
		}),
		bm("duplicate-outbound-etx", func(b *types.WorkObject) bool {
			l := etxs(b)
			if len(l) == 0 {
				return false
			}
			b.Body().SetOutboundEtxs(append(l, l[0]))
			return true
		}),
		bm("alter-coinbase-etx-amount", func(b *types.WorkObject) bool {
			l := etxs(b)
			for i, in := range l {
				if in.EtxType() == types.CoinbaseType {
					to := *in.To()
					l[i] = types.NewTx(&types.ExternalTx{OriginatingTxHash: in.OriginatingTxHash(), ETXIndex: in.ETXIndex(), Gas: in.Gas(), To: &to, Value: new(big.Int).Mul(in.Value(), big.NewInt(2)), Data: in.Data(), Sender: in.ETXSender(), EtxType: in.EtxType()})
					b.Body().SetOutboundEtxs(l)
					return true
				}
			}
			return false
		}),
		bm("redirect-coinbase-etx", func(b *types.WorkObject) bool {
			l := etxs(b)
			for i, in := range l {
				if in.EtxType() == types.CoinbaseType {
					to := sim.QuaiKeys(1)[0].Addr
					if to.Equal(*in.To()) {
						to = sim.QuaiKeys(2)[1].Addr
					}
					l[i] = types.NewTx(&types.ExternalTx{OriginatingTxHash: in.OriginatingTxHash(), ETXIndex: in.ETXIndex(), Gas: in.Gas(), To: &to, Value: in.Value(), Data: in.Data(), Sender: to, EtxType: in.EtxType()})
					b.Body().SetOutboundEtxs(l)
					return true
				}
			}
			return false
		}),
	}
}

func allMutations() []mutation {
	m := headerMutations()
	m = append(m, bodyMutations(false)...)
	m = append(m, bodyMutations(true)...)
	return m
}

// reseal gives the mutated copy a consistent header hash and a valid zone-order seal.
// swapAdjacent swaps the first adjacent pair (l[i], l[i+1]) whose swap breaks an ordering rule and
// puts a transaction of type firstType in front.
func swapAdjacent(b *types.WorkObject, l []*types.Transaction, firstType byte) bool {
	if swapBreaksOrder == nil {
		return false
	}
	for i := 0; i+1 < len(l); i++ {
		if l[i+1].Type() == firstType && l[i].Hash() != l[i+1].Hash() && swapBreaksOrder(b, l[i], l[i+1]) {
			l[i], l[i+1] = l[i+1], l[i]
			b.Body().SetTransactions(l)
			return true
		}
	}
	return false
}

// ancestorShare is set by the test: a workshare listed by one of the last ancestors of b that b
// does not list itself (nil if there is none).
var ancestorShare func(b *types.WorkObject) *types.WorkObjectHeader

// swapBreaksOrder is set by the test: it reports whether the block stays invalid when transactions
// first, second (its first two, in that order) are swapped and the body roots recomputed.
var swapBreaksOrder func(b *types.WorkObject, first, second *types.Transaction) bool

// nonEtxPrice is the price the block-ordering rule compares for a Quai or Qi transaction
// (state_processor.go: Quai = gas price; Qi = fee converted to Quai at the prime terminus' rate,
// divided by the transaction's block gas). ok=false when it cannot be derived from stored data.
func nonEtxPrice(zone *sim.Node, b *types.WorkObject, tx *types.Transaction) (*big.Int, bool) {
	switch tx.Type() {
	case types.QuaiTxType:
		return tx.GasPrice(), true
	case types.QiTxType:
		in, out := new(big.Int), new(big.Int)
		for _, ti := range tx.TxIn() {
			u := rawdb.GetUTXO(zone.DB, ti.PreviousOutPoint.TxHash, ti.PreviousOutPoint.Index)
			if u == nil || int(u.Denomination) >= len(types.Denominations) {
				return nil, false
			}
			in.Add(in, types.Denominations[u.Denomination])
		}
		for _, to := range tx.TxOut() {
			if int(to.Denomination) >= len(types.Denominations) {
				return nil, false
			}
			out.Add(out, types.Denominations[to.Denomination])
		}
		fee := new(big.Int).Sub(in, out)
		if fee.Sign() <= 0 {
			return nil, false
		}
		pt := zone.Core.Slice().HeaderChain().GetHeaderByHash(b.PrimeTerminusHash())
		if pt == nil {
			return nil, false
		}
		feeQuai := misc.QiToQuai(b, pt.ExchangeRate(), b.Difficulty(), fee)
		scaling := math.Log(float64(rawdb.ReadUTXOSetSize(zone.DB, b.ParentHash(sim.Zone))))
		gas := types.CalculateBlockQiTxGas(tx, scaling, sim.ZoneLoc)
		if gas == 0 {
			return nil, false
		}
		return new(big.Int).Div(feeQuai, new(big.Int).SetUint64(gas)), true
	}
	return nil, false
}

func reseal(n *sim.Net, b *types.WorkObject, salt uint64) error {
	b.WorkObjectHeader().SetHeaderHash(b.Header().Hash())
	return n.Seal(b, sim.Zone, salt)
}

func TestC07_OwnAndMutants(t *testing.T) {
	muts := allMutations()
	rapid.Check(t, func(t *rapid.T) {
		n, err := sim.NewNet(sim.Options{})
		if err != nil {
			t.Fatalf("HARNESS: net: %v", err)
		}
		defer n.Close()
		a := sim.NewActor(n)
		var mutLog []string
		dump := func() any { return map[string]any{"history": a.Log, "mutants": mutLog} }
		if err := a.Prelude(); err != nil {
			// the prelude consists of blocks the worker assembled itself as well
			stats.Violation(t, part, "C07/own-block-rejected/prelude", err.Error(), dump())
			return
		}
		zone := n.Nodes[sim.Zone]
		swapBreaksOrder = func(b *types.WorkObject, first, second *types.Transaction) bool {
			ft, st := first.Type(), second.Type()
			switch {
			case ft == types.ExternalTxType && st == types.ExternalTxType:
				stats.Label(part, "swap_two_inbound_etxs")
				return true // inbound ETXs must be the next items of the queue, in order
			case ft == types.ExternalTxType || st == types.ExternalTxType:
				return false
			}
			if ft == types.QuaiTxType && st == types.QuaiTxType {
				s1, e1 := types.Sender(sim.Signer(), first)
				s2, e2 := types.Sender(sim.Signer(), second)
				if e1 == nil && e2 == nil && s1.Equal(s2) {
					stats.Label(part, "swap_same_sender")
					return true // nonce order
				}
			}
			p1, ok1 := nonEtxPrice(zone, b, first)
			p2, ok2 := nonEtxPrice(zone, b, second)
			// the rule refuses a transaction that pays a higher price than the non-ETX transaction
			// before it; a clear margin keeps rounding of the Qi price out of the verdict
			if ok1 && ok2 && p1.Cmp(new(big.Int).Add(p2, new(big.Int).Div(p2, big.NewInt(4)))) > 0 {
				stats.Label(part, fmt.Sprintf("swap_price_order_%d_%d", ft, st))
				return true
			}
			return false
		}
		ancestorShare = func(b *types.WorkObject) *types.WorkObjectHeader {
			have := map[common.Hash]bool{}
			for _, u := range b.Uncles() {
				have[u.Hash()] = true
			}
			cur := b
			for d := 0; d < 2; d++ { // well inside every value of the inclusion depth
				p := zone.Core.GetBlockByHash(cur.ParentHash(sim.Zone))
				if p == nil {
					return nil
				}
				for _, u := range p.Uncles() {
					if !have[u.Hash()] {
						stats.Label(part, "ancestor_share_available")
						return u
					}
				}
				cur = p
			}
			return nil
		}
		steps := rapid.IntRange(3, 14).Draw(t, "steps")
		ownBlocks, mutantsTried := 0, 0
		kinds := map[string]bool{}
		for i := 0; i < steps; i++ {
			if err := a.Adopt(); err != nil {
				stats.Violation(t, part, "C07/own-block-rejected/adopt", fmt.Sprintf("the node refuses to adopt a block it assembled and appended itself: %v", err), dump())
				return
			}
			a.Traffic(t)
			a.AdversarialTraffic(t)
			mutate := rapid.IntRange(0, 2).Draw(t, "mutateThisBlock") == 0
			order := -1
			if mutate {
				order = sim.Zone
			}
			// assemble + seal, but do not submit yet when mutants are to be tried first
			o := a.DrawMineOpts(t, order)
			if a.ZoneNumber() >= 3 {
				for k := rapid.SampledFrom([]int{0, 0, 1, 2, 3}).Draw(t, "nShares"); k > 0; k-- {
					if _, err := a.WorkShare(t); err != nil {
						t.Fatalf("HARNESS: workshare: %v", err)
					}
				}
			}
			ph, err := n.Pending(a.Heads, o)
			if err != nil {
				t.Fatalf("HARNESS: pending header: %v\n%s", err, strings.Join(a.Log, "\n"))
			}
			if err := n.Seal(ph, o.Order, a.Salt); err != nil {
				t.Fatalf("HARNESS: seal: %v", err)
			}
			if mutate {
				// the full block as the node will build it from its pending body
				full, err := zone.Core.Slice().ConstructLocalMinedBlock(ph)
				if err != nil {
					t.Fatalf("HARNESS: construct block: %v", err)
				}
				before := n.ZoneChainState()
				pick := rapid.SliceOfNDistinct(rapid.IntRange(0, len(muts)-1), 3, 8, rapid.ID[int]).Draw(t, "mutations")
				// the order mutants apply to few blocks: always tried when they do
				for mi, m := range muts {
					if (strings.HasPrefix(m.name, "body/swap-adjacent-txs/") || strings.HasPrefix(m.name, "body/re-include-ancestor-share")) && strings.HasSuffix(m.name, "/roots-recomputed") {
						dup := false
						for _, p := range pick {
							dup = dup || p == mi
						}
						if !dup {
							pick = append(pick, mi)
						}
					}
				}
				sort.Ints(pick)
				for _, mi := range pick {
					m := muts[mi]
					cp := types.CopyWorkObject(full)
					if !m.apply(cp) {
						continue
					}
					if err := reseal(n, cp, a.Salt+uint64(100+mi)); err != nil {
						t.Fatalf("HARNESS: reseal: %v", err)
					}
					if cp.Hash() == full.Hash() {
						continue
					}
					mutantsTried++
					kinds[m.name] = true
					zone.Core.Slice().WriteBlock(types.CopyWorkObject(cp))
					_, errAppend := zone.Core.Slice().Append(types.CopyWorkObject(cp), common.Hash{}, false, nil)
					var errHead error
					if errAppend == nil {
						errHead = n.SetHead(sim.Zone, cp)
					}
					mutLog = append(mutLog, fmt.Sprintf("block #%d mutant %s: append=%v sethead=%v", full.NumberU64(sim.Zone), m.name, errAppend, errHead))
					if errAppend == nil && errHead == nil {
						stats.Violation(t, part, "C07/mutant-accepted/"+m.name, fmt.Sprintf("block #%d with mutation %q (re-sealed) was appended and adopted", full.NumberU64(sim.Zone), m.name), dump())
						return
					}
					after := n.ZoneChainState()
					if d := before.Diff(after); d != "" {
						stats.Violation(t, part, "C07/rejected-block-left-trace/"+m.name, fmt.Sprintf("rejected mutant %q of block #%d changed chain state: %s", m.name, full.NumberU64(sim.Zone), d), dump())
						return
					}
					if fp, msg := sim.CheckHeadCommitment(zone); fp != "" {
						stats.Violation(t, part, "C07/rejected-block-left-trace/commitment-"+fp, fmt.Sprintf("after rejecting mutant %q: %s", m.name, msg), dump())
						return
					}
				}
			}
			// a block of a foreign producer: the worker's block plus a correctly signed Qi transaction that
			// names one output twice and spends its value twice, header results derived by executing
			// that body (custom miner). No such block may be built, let alone appended.
			if mutate && rapid.IntRange(0, 1).Draw(t, "foreignDoubleSpend") == 0 {
				if dtx := a.DupInputQiTx(t); dtx != nil {
					_, fb, ferr := n.MineCustom(a.Heads, sim.MineOpts{Order: sim.Zone, Salt: a.Salt + 77, Coinbase: o.Coinbase, Lock: o.Lock, Data: o.Data, TimeDelta: o.TimeDelta}, func(txs []*types.Transaction) []*types.Transaction {
						return append(txs, dtx)
					})
					mutLog = append(mutLog, fmt.Sprintf("foreign block with a Qi transaction naming one output twice: %v", ferr))
					kinds["foreign/double-spend-in-one-tx"] = true
					mutantsTried++
					if ferr == nil && fb != nil {
						stats.Violation(t, part, "C07/invalid-block-accepted/qi-tx-names-one-output-twice", fmt.Sprintf("a block carrying Qi transaction %x, which spends the same output twice, was executed, sealed and appended (#%d)", dtx.Hash().Bytes()[:6], fb.Zone().NumberU64(sim.Zone)), dump())
						return
					}
				}
			}
			// (a) the original must be accepted (also after the mutants)
			b, err := a.SubmitSealed(ph, o)
			if err != nil {
				stats.Violation(t, part, "C07/own-block-rejected/append", fmt.Sprintf("the node rejects the block it assembled itself: %v", err), dump())
				return
			}
			ownBlocks++
			if len(b.Zone().Transactions()) > 0 {
				stats.Label(part, "own_block_with_txs")
			}
			if len(b.Zone().Uncles()) > 0 {
				stats.Label(part, "own_block_with_uncles")
			}
		}
		if err := a.Adopt(); err != nil {
			stats.Violation(t, part, "C07/own-block-rejected/adopt", fmt.Sprintf("the node refuses to adopt a block it assembled and appended itself: %v", err), dump())
			return
		}
		var kl []string
		for k := range kinds {
			kl = append(kl, k)
			stats.Label(part, "mut_"+k)
		}
		sort.Strings(kl)
		stats.Case(part, strings.Join(kl, ","), mutantsTried > 0)
		stats.Label(part, "own_blocks")
		if mutantsTried > 0 && stats.WantSample(part) {
			stats.Sample(part, map[string]any{"own_blocks": ownBlocks, "mutants": mutLog, "tail_of_history": tail(a.Log, 10)})
		}
	})
}

func tail(l []string, n int) []string {
	if len(l) > n {
		return l[len(l)-n:]
	}
	return l
}
