// C02 — executing a transaction never creates Quai (DESIGN.md §4 C02).
//
// A generated pre-state (EOAs, contracts with generated code, lockup-contract slots and records)
// and a generated Quai transaction or inbound ETX are executed through core.ApplyTransaction on a
// real StateDB. Every account balance is read from the account trie before and after; the oracle
// is the accounting identity of the property statement, as an upper bound on the sum (value may
// be destroyed by known defects of other properties; it may never be created).
package c02

import (
	"fmt"
	"math/big"
	"sort"
	"strings"
	"testing"

	"github.com/dominant-strategies/go-quai/common"
	"github.com/dominant-strategies/go-quai/core/types"
	"github.com/dominant-strategies/go-quai/params"
	"github.com/holiman/uint256"
	"pgregory.net/rapid"

	"verifharness/evmgen"
	"verifharness/stats"
)

const (
	fpOOG         = "C02/failed-tx-changed-balance/create-codestore-oog-not-reverted"
	fpWrapETX     = "C02/value-created/etx-carries-more-than-debited/opETX-legacy-arith-before-SelfDestructRefundFork"
	fpWrapConvert = "C02/value-created/etx-carries-more-than-debited/opConvert-legacy-arith-before-SelfDestructRefundFork"
)

var two256 = new(big.Int).Lsh(big.NewInt(1), 256)

func exclusions() *evmgen.Exclusions {
	x := &evmgen.Exclusions{LegacyWrapETX: stats.IsKnown(fpWrapETX), LegacyWrapConvert: stats.IsKnown(fpWrapConvert)}
	x.OnExcluded = func(class string) {
		switch class {
		case "legacy-wrap-etx":
			stats.Excluded(fpWrapETX)
		case "legacy-wrap-convert":
			stats.Excluded(fpWrapConvert)
		}
	}
	return x
}

type report struct {
	labels     []string
	nontrivial bool
	sig        []string
	fps        []string
	// the accounting terms of the transaction (block mode accumulates them)
	usedFee, exported, credits *big.Int
	createOOG                  bool
}

func (r *report) label(l string) { r.labels = append(r.labels, l) }

// extraDump is merged into every violation dump (block mode puts the whole block there).
var extraDump map[string]any

func dump(c *evmgen.Case, o *evmgen.Outcome, extra map[string]any) map[string]any {
	m := map[string]any{"case": c.Dump()}
	for k, v := range extraDump {
		m[k] = v
	}
	if o != nil {
		if o.Tracer != nil {
			m["trace"] = o.Tracer.Dump()
		}
		if o.Res != nil {
			r := map[string]any{"err": fmt.Sprint(o.Res.Err), "used_gas": o.Res.UsedGas}
			if o.Res.Receipt != nil {
				r["status"] = o.Res.Receipt.Status
				ex := []string{}
				for _, e := range o.Res.Receipt.OutboundEtxs {
					ex = append(ex, fmt.Sprintf("type=%d to=%s value=%v gas=%d", e.EtxType(), e.To().Hex(), e.Value(), e.Gas()))
				}
				r["outbound_etxs"] = ex
			}
			m["result"] = r
		}
		if o.Before != nil && o.After != nil {
			diff := map[string]string{}
			for a, v := range o.Before.ByAddr {
				if w := o.After.Get(a); w.Cmp(v) != 0 {
					diff[a.Hex()] = v.String() + " -> " + w.String()
				}
			}
			for a, w := range o.After.ByAddr {
				if _, ok := o.Before.ByAddr[a]; !ok {
					diff[a.Hex()] = "(absent) -> " + w.String()
				}
			}
			m["balance_changes"] = diff
			m["sum_before"] = o.Before.Sum.String()
			m["sum_after"] = o.After.Sum.String()
		}
	}
	for k, v := range extra {
		m[k] = v
	}
	return m
}

func inboundValue(c *evmgen.Case) *big.Int {
	if c.Tx.Kind == "etx" {
		return c.Tx.Value
	}
	return new(big.Int)
}

func mul(a uint64, b *big.Int) *big.Int { return new(big.Int).Mul(new(big.Int).SetUint64(a), b) }

// reportKnown makes the oracle report listed findings through stats.Violation instead of counting
// them as excluded (used by the hand-written regression inputs).
var reportKnown = false

func checkCaseNoExclusion(t stats.TB, part string, c *evmgen.Case, o *evmgen.Outcome) *report {
	reportKnown = true
	defer func() { reportKnown = false }()
	return checkCase(t, part, c, o)
}

// checkCase applies the C02 oracle.
func checkCase(t stats.TB, part string, c *evmgen.Case, o *evmgen.Outcome) *report {
	rp := &report{}
	u := evmgen.U()
	env, res, tr := c.Env, o.Res, o.Tracer
	regime := evmgen.RegimeName(env.PrimeTerminusNumber)
	rp.label("regime:" + regime)
	rp.label("mode:" + c.Mode)
	rp.label("tx:" + c.Tx.Kind)
	rp.label("to:" + c.Tx.ToClass)
	rp.label("gas:" + c.Tx.GasClass)
	rp.label("accesslist:" + c.Tx.ALClass)
	if c.Tx.Suicide {
		rp.label("suicide-branch")
	}
	viol := func(fp, msg string, extra map[string]any) bool {
		rp.fps = append(rp.fps, fp)
		return stats.Violation(t, part, fp, msg, dump(c, o, extra))
	}
	if o.Broken != "" {
		fp := "C02/negative-balance/post-state-unhashable"
		if evmgen.BrokenBySuicideSize(o.Broken) {
			fp = evmgen.FpSuicideSize // crash form of the recorded C12 finding, not a balance
		}
		viol(fp, "the post-state cannot be hashed: "+o.Broken, nil)
		return rp
	}
	if res.Err != nil {
		rp.label("tx-rejected")
		rp.sig = []string{"rejected"}
		return rp // not includable: every caller discards the state
	}
	rcpt := res.Receipt
	failed := rcpt.Status != types.ReceiptStatusSuccessful
	if failed {
		rp.label("tx-failed")
	} else {
		rp.label("tx-ok")
	}
	price := c.Tx.Price
	usedFee := mul(rcpt.GasUsed, price)
	limitFee := mul(c.Tx.Gas, price)
	post := evmgen.PostArithFork(env.PrimeTerminusNumber)
	maxCode := uint64(params.GetMaxCodeSize(env.BlockNumber))

	partial := o.PartialBalances // a block step without a trie walk: only the accounting terms and the payer bound
	// (i) no balance is negative --------------------------------------------------------------
	for a, v := range o.After.ByAddr {
		if v.Sign() < 0 {
			viol("C02/negative-balance", fmt.Sprintf("account %s has balance %v after the transaction", a.Hex(), v), nil)
		}
	}

	// ---- classify the one known way a failed transaction keeps state: code-store out of gas --
	createOOG := false
	if failed && c.Tx.ToClass == "create" {
		if tr != nil {
			if tr.Started && len(tr.Frames) > 0 && !tr.Frames[0].Failed && tr.Frames[0].CreateRejected(maxCode) == "codestore-oog" {
				createOOG = true
			}
		} else if !partial {
			// without the tracer: the only balance that moved besides the payer's is a new account
			// holding exactly the endowment
			changed := changedAccounts(o, o.Payer)
			if len(changed) == 1 && c.Tx.Value.Sign() > 0 {
				if _, existed := o.Before.ByAddr[changed[0]]; !existed && o.After.Get(changed[0]).Cmp(c.Tx.Value) <= 0 {
					createOOG = true
				}
			} else if len(changed) > 1 {
				// the init code moved value on before it failed to pay for its code (first seen at
				// VERIF_SEED=1, thorough): the same case is executed once more with the tracer
				// (access-list checks enforced, as without a tracer) only to learn how the
				// creation frame ended
				c2 := *c
				c2.Mode = evmgen.ModeTracedEnforced
				if o2, err := c2.Run(); err == nil && o2 != nil && o2.Tracer != nil {
					t2 := o2.Tracer
					if t2.Started && len(t2.Frames) > 0 && !t2.Frames[0].Failed && t2.Frames[0].CreateRejected(maxCode) == "codestore-oog" {
						createOOG = true
					}
				}
			}
		}
	}

	// ---- credits the protocol defines -------------------------------------------------------
	credits := new(big.Int)
	if c.Tx.Kind == "etx" {
		credits.Add(credits, c.Tx.Value) // the inbound transfer's own value
	}
	mints := 0
	if c.Tx.Suicide {
		mints++
	}
	if tr != nil {
		seen := map[common.AddressBytes]bool{}
		for _, s := range tr.Suicides {
			if rolled, _ := tr.RolledBack(s.Frame, maxCode, failed); rolled {
				continue
			}
			if post {
				if seen[s.Addr.Bytes20()] {
					continue // once-only refund per account
				}
				seen[s.Addr.Bytes20()] = true
			}
			mints++
		}
	} else {
		// every SELFDESTRUCT costs at least SelfdestructGas out of the purchased gas
		mints += int(c.Tx.Gas / params.SelfdestructGas)
	}
	if mints > 0 && (tr != nil || c.Tx.Suicide) {
		rp.label("selfdestruct-refund")
	}
	credits.Add(credits, new(big.Int).Mul(big.NewInt(int64(mints)), o.Refund))

	// ---- value carried away by the exported ETXs ----------------------------------------------
	exported := new(big.Int)
	for _, e := range rcpt.OutboundEtxs {
		// wrapped-Qi unwraps and coinbase-lockup claims carry Qi / locked rewards, not account balance
		if e.EtxType() == types.UnwrapQiType || e.EtxType() == types.CoinbaseLockupType {
			continue
		}
		exported.Add(exported, e.Value())
	}
	// with the tracer the prepaid destination fees of the successful emissions are known too
	exportedWithFees := new(big.Int)
	wrapOp := ""
	if tr != nil {
		for _, r := range tr.Ops {
			if !r.HaveAfter || r.Top == nil || !r.Top.Eq(uint256.NewInt(1)) || r.EtxAfter != r.EtxBefore+1 {
				continue
			}
			if rolled, _ := tr.RolledBack(r.Frame, maxCode, failed); rolled || failed {
				continue
			}
			switch r.Kind {
			case "ETX":
				v, l, tip, cp := r.Operands[2].ToBig(), r.Operands[3].ToBig(), r.Operands[4].ToBig(), r.Operands[5].ToBig()
				tot := new(big.Int).Add(v, new(big.Int).Mul(new(big.Int).Add(tip, cp), l))
				if tot.Cmp(two256) >= 0 {
					wrapOp = "ETX"
				}
				exportedWithFees.Add(exportedWithFees, tot)
			case "CONVERT":
				v, l := r.Operands[2].ToBig(), r.Operands[3].ToBig()
				tot := new(big.Int).Add(v, new(big.Int).Mul(price, l))
				if tot.Cmp(two256) >= 0 {
					wrapOp = "CONVERT"
				}
				exportedWithFees.Add(exportedWithFees, tot)
			case "CALL-EXT":
				exportedWithFees.Add(exportedWithFees, r.Operands[2].ToBig())
			}
		}
		// a plain transaction to an out-of-scope address
		if !failed && c.Tx.Kind == "quai" && c.Tx.To != nil {
			if _, e := c.Tx.To.InternalAndQuaiAddress(); e != nil {
				exportedWithFees.Add(exportedWithFees, c.Tx.Value)
			}
		}
	}

	rp.usedFee, rp.exported, rp.credits, rp.createOOG = usedFee, exported, credits, createOOG
	if partial {
		if o.Payer != nil && !c.Tx.Suicide {
			paid := new(big.Int).Sub(o.Before.Get(*o.Payer), o.After.Get(*o.Payer))
			if maxPaid := new(big.Int).Add(limitFee, c.Tx.Value); paid.Cmp(maxPaid) > 0 {
				viol("C02/payer-charge/above-gaslimit-x-price", fmt.Sprintf("fee payer paid %v, more than gas limit x price %v plus value %v", paid, limitFee, c.Tx.Value), nil)
			}
		}
		rp.sig = []string{fmt.Sprintf("status=%d", rcpt.Status), c.Tx.Kind, c.Tx.ToClass}
		return rp
	}

	// (iii) operand-independent bound: S_after <= S_before - usedGas*price - sum(e.value) + credits
	bound := new(big.Int).Sub(o.Before.Sum, usedFee)
	bound.Sub(bound, exported)
	bound.Add(bound, credits)
	created := new(big.Int).Sub(o.After.Sum, bound)
	if created.Sign() > 0 {
		fp := "C02/value-created/sum-exceeds-bound"
		msg := fmt.Sprintf("sum of balances %v -> %v; gas charge %v (used %d x price %v), value carried by exported ETXs %v, protocol credits %v (inbound ETX value %v, %d self-destruct refunds of %v): %v wei more than the accounting allows",
			o.Before.Sum, o.After.Sum, usedFee, rcpt.GasUsed, price, exported, credits, inboundValue(c), mints, o.Refund, created)
		if !post {
			// an exported ETX that carries more than all balances together cannot have been debited
			for _, e := range rcpt.OutboundEtxs {
				if e.Value().Cmp(o.Before.Sum) > 0 && (e.EtxType() == types.DefaultType || e.EtxType() == types.ConversionType) {
					if e.EtxType() == types.ConversionType || wrapOp == "CONVERT" {
						fp = fpWrapConvert
					} else {
						fp = fpWrapETX
					}
					msg += fmt.Sprintf("; exported ETX of type %d carries %v: value+fee wrapped modulo 2^256 in the unchecked legacy arithmetic, the emitter paid only the remainder", e.EtxType(), e.Value())
					break
				}
			}
		}
		viol(fp, msg, nil)
	} else if tr != nil {
		// (ii) tracer-refined bound (prepaid fees included)
		b2 := new(big.Int).Sub(o.Before.Sum, usedFee)
		b2.Sub(b2, exportedWithFees)
		b2.Add(b2, credits)
		if d := new(big.Int).Sub(o.After.Sum, b2); d.Sign() > 0 {
			viol("C02/value-created/prepaid-fee-not-debited", fmt.Sprintf("sum of balances %v -> %v; gas charge %v, value+prepaid fee of successful emissions %v, credits %v: %v wei more than the accounting allows",
				o.Before.Sum, o.After.Sum, usedFee, exportedWithFees, credits, d), nil)
		}
	}
	if bound.Cmp(o.After.Sum) > 0 {
		rp.label("sum-below-bound") // value destroyed or burnt (self-destruct to self, failed inbound ETX, known C05 defects)
	}

	// (iv) the fee payer's charge ---------------------------------------------------------------
	if o.Payer != nil && !c.Tx.Suicide {
		paid := new(big.Int).Sub(o.Before.Get(*o.Payer), o.After.Get(*o.Payer))
		// an EOA has no code: only buyGas and the top-level value transfer can debit it
		maxPaid := new(big.Int).Add(limitFee, c.Tx.Value)
		if paid.Cmp(maxPaid) > 0 {
			viol("C02/payer-charge/above-gaslimit-x-price", fmt.Sprintf("fee payer paid %v, more than gas limit x price %v plus value %v", paid, limitFee, c.Tx.Value), nil)
		}
		raw := false
		for _, k := range c.Kinds {
			raw = raw || k == "raw"
		}
		if c.CleanFrom && !raw {
			// no program names this sender, so nothing flows back to it: the charge is exact
			moved := new(big.Int)
			if !failed && c.Tx.To != nil && !c.Tx.To.Equal(u.EOAs[c.Tx.From].Addr) {
				moved.Set(c.Tx.Value)
			}
			if !failed && c.Tx.To == nil {
				moved.Set(c.Tx.Value)
			}
			if !failed && c.Tx.ToClass == "lockup" {
				moved.SetInt64(0) // the lockup contract takes no value
			}
			charge := new(big.Int).Sub(paid, moved)
			rp.label("payer-charge-exact")
			if charge.Cmp(usedFee) != 0 {
				if failed && createOOG && new(big.Int).Sub(charge, c.Tx.Value).Cmp(usedFee) == 0 {
					if stats.IsKnown(fpOOG) && !reportKnown {
						stats.Excluded(fpOOG)
					} else {
						viol(fpOOG, fmt.Sprintf("creation failed (code-store out of gas) but the endowment %v stayed transferred: payer paid %v = gas %v + value", c.Tx.Value, paid, usedFee), nil)
					}
				} else if charge.Cmp(usedFee) < 0 {
					viol("C02/payer-charge/below-usedgas-x-price", fmt.Sprintf("fee payer was charged %v (paid %v, value moved %v) but used gas x price is %v", charge, paid, moved, usedFee), nil)
				} else if charge.Cmp(limitFee) > 0 {
					viol("C02/payer-charge/above-gaslimit-x-price", fmt.Sprintf("fee payer was charged %v (paid %v, value moved %v), gas limit x price is %v", charge, paid, moved, limitFee), nil)
				} else {
					viol("C02/payer-charge/not-usedgas-x-price", fmt.Sprintf("fee payer was charged %v (paid %v, value moved %v); used gas x price is %v on the ordinary path", charge, paid, moved, usedFee), nil)
				}
			}
		}
	}

	// (v) a failed transaction leaves every balance other than the fee payer's unchanged --------
	if failed {
		changed := changedAccounts(o, o.Payer)
		if len(changed) > 0 {
			if createOOG {
				if stats.IsKnown(fpOOG) && !reportKnown {
					stats.Excluded(fpOOG)
				} else {
					viol(fpOOG, fmt.Sprintf("failed creation transaction (code-store out of gas is not reverted by evm.create) changed balances of %v", hexes(changed)), nil)
				}
			} else {
				viol("C02/failed-tx-changed-balance", fmt.Sprintf("failed transaction changed balances of %v", hexes(changed)), nil)
			}
		}
	}

	// ---- non-trivial rule and signature -------------------------------------------------------
	var kinds []string
	if tr != nil {
		for k, n := range tr.Counts {
			if n > 3 {
				n = 3
			}
			kinds = append(kinds, fmt.Sprintf("%s*%d", k, n))
			switch {
			case strings.HasPrefix(k, "VALUE-"), k == "ETX", k == "CONVERT", k == "CALL-LOCKUP", k == "SELFDESTRUCT-FUNDED", k == "CALL-EXT":
				rp.nontrivial = true
			}
			rp.label("exec:" + k)
		}
		sort.Strings(kinds)
		if len(tr.Frames) > 1 {
			rp.label("nested-frames")
		}
	} else {
		// untraced: judged from the generated block kinds of the executed account
		for _, k := range c.Kinds {
			if strings.HasPrefix(k, "ETX") || strings.HasPrefix(k, "CONVERT") || strings.HasPrefix(k, "SELFDESTRUCT") || strings.Contains(k, "lockup") || strings.HasPrefix(k, "CREATE") {
				rp.nontrivial = rcpt.GasUsed > 30000
			}
		}
		kinds = []string{"untraced"}
	}
	if c.Tx.Value.Sign() > 0 && (c.Tx.ToClass == "contract" || c.Tx.ToClass == "create" || c.Tx.ToClass == "foreignQuai" || c.Tx.ToClass == "inZoneQi") && rcpt.GasUsed > 21000 {
		rp.nontrivial = true
	}
	if c.Tx.Suicide || c.Tx.Kind == "etx" {
		rp.nontrivial = true
	}
	if len(rcpt.OutboundEtxs) > 0 {
		rp.label("exports")
	}
	rp.sig = append(kinds, fmt.Sprintf("status=%d", rcpt.Status), c.Tx.Kind, c.Tx.ToClass)
	return rp
}

func changedAccounts(o *evmgen.Outcome, except *common.InternalAddress) []common.InternalAddress {
	var out []common.InternalAddress
	seen := map[common.InternalAddress]bool{}
	for a, v := range o.Before.ByAddr {
		seen[a] = true
		if except != nil && a == *except {
			continue
		}
		if o.After.Get(a).Cmp(v) != 0 {
			out = append(out, a)
		}
	}
	for a, w := range o.After.ByAddr {
		if seen[a] || (except != nil && a == *except) {
			continue
		}
		if w.Sign() != 0 {
			out = append(out, a)
		}
	}
	sort.Slice(out, func(i, j int) bool { return out[i].Cmp(out[j]) < 0 })
	return out
}

func hexes(l []common.InternalAddress) []string {
	var out []string
	for _, a := range l {
		out = append(out, evmgen.U().Name(common.Bytes20ToAddress(a, evmgen.Loc)))
	}
	return out
}

// TestC02_Conservation is the generated search.
func TestC02_Conservation(t *testing.T) {
	excl := exclusions()
	rapid.Check(t, func(rt *rapid.T) {
		cfg := evmgen.DefaultCfg()
		cfg.Excl = excl
		c := evmgen.GenCase(rt, evmgen.CaseOpts{Cfg: cfg, AllowETX: true})
		o, err := c.Run()
		if err != nil {
			rt.Fatalf("HARNESS: %v", err)
		}
		rp := checkCase(rt, "conservation", c, o)
		stats.Case("conservation", strings.Join(rp.sig, ","), rp.nontrivial, rp.labels...)
		if rp.nontrivial && stats.WantSample("conservation") {
			d := c.Dump()
			stats.Sample("conservation", map[string]any{"tx": d["tx"], "env": d["env"], "mode": c.Mode, "executed": rp.sig, "kinds": d["kinds"],
				"sum_before": o.Before.Sum.String(), "sum_after": o.After.Sum.String()})
		}
	})
}

// TestC02_Frames applies the same oracle to structured cases (evmgen.GenFrames): a chain of
// contracts whose bodies move value in every way the EVM offers (transfers, ETX, CONVERT,
// endowed CREATE/CREATE2, SELFDESTRUCT endings with their state-rent refund) with run-time-funded
// operands, inside nested CALL / DELEGATECALL / CALLCODE / STATICCALL / CREATE frames that fail
// or succeed independently of their callers. Dense in what the grammar reaches rarely: an effect
// (e.g. a self-destruct and its refund) inside a frame that an enclosing frame later rolls back.
func TestC02_Frames(t *testing.T) {
	rapid.Check(t, func(rt *rapid.T) {
		c := evmgen.GenFrames(rt, evmgen.FramesOpts{Effects: []string{"convert", "etx", "transfer", "sstore", "selfdestruct"}, FailPctTop: 25})
		o, err := c.Run()
		if err != nil {
			rt.Fatalf("HARNESS: %v", err)
		}
		rp := checkCase(rt, "frames", c, o)
		if o.Tracer != nil {
			maxCode := uint64(params.GetMaxCodeSize(c.Env.BlockNumber))
			failed := o.Res.Err == nil && o.Res.Receipt.Status != types.ReceiptStatusSuccessful
			for _, s := range o.Tracer.Suicides {
				if rb, _ := o.Tracer.RolledBack(s.Frame, maxCode, failed); rb {
					rp.label("selfdestruct-rolled-back")
					if !failed {
						rp.label("selfdestruct-rolled-back-in-successful-tx")
					}
				} else {
					rp.label("selfdestruct-kept")
				}
			}
		}
		stats.Case("frames", strings.Join(rp.sig, ",")+"|"+strings.Join(c.Kinds, ","), rp.nontrivial, rp.labels...)
		if rp.nontrivial && stats.WantSample("frames") {
			stats.Sample("frames", map[string]any{"regime": evmgen.RegimeName(c.Env.PrimeTerminusNumber), "mode": c.Mode, "program": strings.Join(c.Kinds, " "), "executed": rp.sig,
				"sum_before": o.Before.Sum.String(), "sum_after": o.After.Sum.String()})
		}
	})
}

// TestC02_TransferFrames: the equality, not only the upper bound. The general oracle demands
// "no more than the accounting allows" because several legitimate paths burn value (prepaid
// destination fees, a self-destruct to oneself, a failed inbound transfer) and some recorded
// findings destroy it. Here the structured cases move value only by plain in-zone transfers and
// endowed creations inside nested frames that fail or succeed on their own (no ETX, CONVERT,
// SELFDESTRUCT, inbound ETX): nothing can leave the zone and nothing is minted, so the sum of all
// balances afterwards must EQUAL the sum before minus the gas charge - a debit that a reverted
// frame fails to give back shows as destroyed value.
func TestC02_TransferFrames(t *testing.T) {
	const part = "transfer-frames"
	rapid.Check(t, func(rt *rapid.T) {
		c := evmgen.GenFrames(rt, evmgen.FramesOpts{Effects: []string{"transfer", "sstore"}, FailPctTop: 10, FailPctInner: 55})
		o, err := c.Run()
		if err != nil {
			rt.Fatalf("HARNESS: %v", err)
		}
		rp := checkCase(rt, part, c, o)
		executed := o.Res.Err == nil && o.Broken == "" && !o.PartialBalances
		if executed {
			usedFee := new(big.Int).Mul(new(big.Int).SetUint64(o.Res.Receipt.GasUsed), c.Tx.Price)
			want := new(big.Int).Sub(o.Before.Sum, usedFee)
			if len(o.Res.Receipt.OutboundEtxs) == 0 && want.Cmp(o.After.Sum) != 0 {
				var changes []string
				for a, v := range o.Before.ByAddr {
					if w := o.After.Get(a); w.Cmp(v) != 0 {
						changes = append(changes, fmt.Sprintf("%s: %v -> %v", a.Hex(), v, w))
					}
				}
				sort.Strings(changes)
				fp := "C02/value-destroyed/sum-below-accounting"
				if want.Cmp(o.After.Sum) < 0 {
					fp = "C02/value-created/sum-exceeds-bound"
				}
				stats.Violation(rt, part, fp, fmt.Sprintf("no value can leave or enter in this case (plain in-zone transfers and creations only): sum of balances %v -> %v, gas charge %v, difference %v; program: %s", o.Before.Sum, o.After.Sum, usedFee, new(big.Int).Sub(o.After.Sum, want), strings.Join(c.Kinds, " ")),
					map[string]any{"case": c.Dump(), "balance_changes": changes})
				return
			}
		}
		inner := false
		for _, k := range c.Kinds {
			if strings.HasPrefix(k, "L1:") || strings.HasPrefix(k, "L2:") {
				inner = true
			}
		}
		labels := append([]string{}, rp.labels...)
		if executed && inner {
			labels = append(labels, "equality-checked-with-nested-frames")
		}
		stats.Case(part, strings.Join(rp.sig, ",")+"|"+strings.Join(c.Kinds, ","), rp.nontrivial, labels...)
	})
}
