//go:build verif

// C02 block mode: several transactions in ONE block on a shared StateDB (cached state objects of
// accounts deleted by an earlier transaction, gas pool, ETX budgets survive from one transaction
// to the next), in the miner's configuration (core.ApplyTransaction per transaction) and in the
// validator's (one vm.EVM for the block, applyTransaction through core.VerifApplyTransactionShared).
package c02

import (
	"fmt"
	"math/big"
	"strings"
	"testing"

	"github.com/dominant-strategies/go-quai/common"
	"github.com/dominant-strategies/go-quai/core/types"
	"github.com/dominant-strategies/go-quai/core/vm"
	"github.com/dominant-strategies/go-quai/params"
	"pgregory.net/rapid"

	"verifharness/evmgen"
	"verifharness/stats"
)

type blockReport struct {
	labels     []string
	nontrivial bool
	fps        []string
}

func (br *blockReport) label(l string) { br.labels = append(br.labels, l) }

// blockAccounting accumulates the terms of the identity over the accepted transactions of a run.
type blockAccounting struct {
	usedFee, exported, credits *big.Int
}

func newAccounting() *blockAccounting {
	return &blockAccounting{new(big.Int), new(big.Int), new(big.Int)}
}

// checkBlockRun applies the cumulative identity to one run.
func checkBlockRun(t stats.TB, part string, b *evmgen.BlockCase, r *evmgen.BlockRun, acc *blockAccounting, br *blockReport) {
	viol := func(fp, msg string) {
		br.fps = append(br.fps, fp)
		changes := map[string]string{}
		for a, v := range r.Start.ByAddr {
			if w := r.End.Get(a); w.Cmp(v) != 0 {
				changes[a.Hex()] = v.String() + " -> " + w.String()
			}
		}
		for a, w := range r.End.ByAddr {
			if _, ok := r.Start.ByAddr[a]; !ok {
				changes[a.Hex()] = "(absent) -> " + w.String()
			}
		}
		stats.Violation(t, part, fp, msg, map[string]any{"block": b.Dump(), "configuration": r.Config, "outcomes": evmgen.BlockSignature(r.Steps), "balance_changes": changes})
	}
	if r.Broken != "" {
		fp := "C02/negative-balance/post-state-unhashable"
		if evmgen.BrokenBySuicideSize(r.Broken) {
			fp = evmgen.FpSuicideSize
		}
		viol(fp, fmt.Sprintf("[%s configuration] the post-state of the block cannot be hashed: %s", r.Config, r.Broken))
		return
	}
	for a, v := range r.End.ByAddr {
		if v.Sign() < 0 {
			viol("C02/negative-balance", fmt.Sprintf("[%s configuration] account %s has balance %v after the block", r.Config, a.Hex(), v))
		}
	}
	bound := new(big.Int).Sub(r.Start.Sum, acc.usedFee)
	bound.Sub(bound, acc.exported)
	bound.Add(bound, acc.credits)
	if created := new(big.Int).Sub(r.End.Sum, bound); created.Sign() > 0 {
		viol("C02/block/value-created/sum-exceeds-bound", fmt.Sprintf("[%s configuration] sum of balances over the block %v -> %v; gas charges %v, value carried by exported ETXs %v, protocol credits %v: %v wei more than the accounting allows",
			r.Config, r.Start.Sum, r.End.Sum, acc.usedFee, acc.exported, acc.credits, created))
	}
}

func checkBlock(t stats.TB, part string, b *evmgen.BlockCase) (*blockReport, []*evmgen.TxStep, error) {
	br := &blockReport{}
	extraDump = map[string]any{"block": b.Dump()}
	defer func() { extraDump = nil }()
	step := func(acc *blockAccounting) func(r *evmgen.BlockRun, s *evmgen.TxStep) {
		return func(r *evmgen.BlockRun, s *evmgen.TxStep) {
			c, o := b.PseudoCase(r, s)
			if extraDump != nil {
				extraDump["configuration"], extraDump["tx_index"] = r.Config, s.Index
			}
			// per transaction: the single-transaction identity on the state between transactions
			// (when the run walked the trie), the accounting terms always
			rp := checkCase(t, part, c, o)
			br.fps = append(br.fps, rp.fps...)
			if rp.usedFee != nil {
				acc.usedFee.Add(acc.usedFee, rp.usedFee)
				acc.exported.Add(acc.exported, rp.exported)
				acc.credits.Add(acc.credits, rp.credits)
			}
			if s.FullWalk && r.Config == "worker" {
				br.label("step:per-tx-identity")
			}
		}
	}
	wacc, pacc := newAccounting(), newAccounting()
	wr, err := b.RunWorker(step(wacc))
	if err != nil {
		return nil, nil, err
	}
	checkBlockRun(t, part, b, wr, wacc, br)
	accepted := wr.Accepted()
	pr, err := b.RunProcess(accepted, step(pacc))
	if err != nil {
		return nil, nil, err
	}
	if pr.BlockErr == nil {
		checkBlockRun(t, part, b, pr, pacc, br)
	} else {
		br.label("block:process-error") // judged by C05's differential
	}

	// ---- labels ------------------------------------------------------------------------------------
	br.label(fmt.Sprintf("block:accepted=%d", len(accepted)))
	br.label("regime:" + evmgen.RegimeName(b.Env.PrimeTerminusNumber))
	if b.PerTxWalk {
		br.label("block:per-tx-walk")
	}
	deleted := map[common.AddressBytes]bool{}
	deadWithBalance := map[common.AddressBytes]bool{}
	for _, s := range accepted {
		rc := s.Res.Receipt
		ok := rc.Status == types.ReceiptStatusSuccessful
		br.label("txclass:" + strings.SplitN(s.Spec.DataNote, ">", 2)[0])
		touch, touchDeadBal := false, false
		for _, a := range b.Touches(s) {
			touch = touch || deleted[a.Bytes20()]
			touchDeadBal = touchDeadBal || deadWithBalance[a.Bytes20()]
		}
		if touch {
			br.label("block:later-tx-touches-deleted-address")
			br.nontrivial = true
			if ok && (s.Spec.Value.Sign() > 0 || s.Spec.DataNote == "factory-create2") {
				br.label("block:deleted-address-recreated-with-value")
			}
		}
		if touchDeadBal && ok {
			br.label("block:recreates-account-that-died-holding-balance")
		}
		for _, a := range b.DeletedBy(s) {
			deleted[a.Bytes20()] = true
			// died while its cached object still held a balance: the Suicide-data transaction with the
			// sender as beneficiary, a contract paying itself, or a value CALL to the dead contract
			if s.Spec.Suicide && strings.HasPrefix(s.Spec.DataNote, "suicide-self") {
				deadWithBalance[a.Bytes20()] = true
			}
			if s.Spec.DataNote == "kill-then-pay" || (a.Equal(b.Roles.Victim) && b.Roles.VictimBen.Equal(b.Roles.Victim)) || (a.Equal(b.Roles.Child) && b.Roles.ChildBen.Equal(b.Roles.Child)) {
				deadWithBalance[a.Bytes20()] = true
			}
		}
		if len(s.Tracer.Suicides) > 0 || s.Spec.Suicide {
			br.nontrivial = br.nontrivial || len(accepted) > 1
		}
	}
	if len(accepted) < len(wr.Steps) {
		br.label("block:has-rejected-tx")
	}
	return br, wr.Steps, nil
}

// TestC02_Block is the generated block-mode search.
func TestC02_Block(t *testing.T) {
	excl := exclusions()
	rapid.Check(t, func(rt *rapid.T) {
		cfg := evmgen.DefaultCfg()
		cfg.Excl = excl
		b := evmgen.GenBlock(rt, cfg)
		br, steps, err := checkBlock(rt, "block", b)
		if err != nil {
			rt.Fatalf("HARNESS: %v", err)
		}
		sig := evmgen.BlockSignature(steps) + "|" + evmgen.RegimeName(b.Env.PrimeTerminusNumber)
		stats.Case("block", sig, br.nontrivial, br.labels...)
		if br.nontrivial && stats.WantSample("block") {
			stats.Sample("block", map[string]any{"txs": b.Dump()["txs"], "outcomes": evmgen.BlockSignature(steps), "labels": br.labels})
		}
	})
}

// TestC02_BlockHandwritten: deterministic blocks in which an account dies holding a balance and
// is re-created by a later transaction of the same block. The oracle must accept them on the
// unchanged tree and must have seen the class.
func TestC02_BlockHandwritten(t *testing.T) {
	if stats.Shard() != 0 {
		t.Skip("deterministic cases run on shard 0 only")
	}
	u := evmgen.U()
	post := params.SelfDestructRefundForkBlock + 10
	e18 := new(big.Int).Exp(big.NewInt(10), big.NewInt(18), nil)
	e24 := new(big.Int).Exp(big.NewInt(10), big.NewInt(24), nil)
	mk := func(txs ...*evmgen.TxSpec) *evmgen.BlockCase {
		env := &evmgen.Env{BlockNumber: 3_500_000, PrimeTerminusNumber: post, BaseFee: big.NewInt(7), GasLimit: 12_000_000, Time: 1_700_000_000,
			QuaiStateSize: big.NewInt(1_000_000), Eligible: evmgen.EligibleMask(*u.ForeignQuai[0].Location()), Coinbase: u.EOAs[0].Addr}
		pre := &evmgen.PreState{}
		for _, e := range u.EOAs {
			pre.Accounts = append(pre.Accounts, evmgen.AccountSpec{Addr: e.Addr, Balance: e24})
		}
		// victim: SELFDESTRUCT to itself; payer: kill the victim, then pay it 3e18
		va := evmgen.NewAsm()
		va.Op(vm.ADDRESS, vm.SELFDESTRUCT)
		vp := va.Assemble()
		pre.Accounts = append(pre.Accounts, evmgen.AccountSpec{Addr: u.Contracts[2], Balance: new(big.Int).Mul(big.NewInt(5), e18), Nonce: 1, Code: &vp})
		pa := evmgen.NewAsm()
		pa.Push(0).Push(0).Push(0).Push(0).Push(0).PushAddr(u.Contracts[2]).Op(vm.GAS, vm.CALL, vm.POP)
		pa.Push(0).Push(0).Push(0).Push(0).PushBig(new(big.Int).Mul(big.NewInt(3), e18)).PushAddr(u.Contracts[2]).Op(vm.GAS, vm.CALL, vm.POP, vm.STOP)
		pp := pa.Assemble()
		pre.Accounts = append(pre.Accounts, evmgen.AccountSpec{Addr: u.Contracts[3], Balance: new(big.Int).Mul(big.NewInt(100), e18), Nonce: 1, Code: &pp})
		for _, tx := range txs {
			tx.Price = big.NewInt(7)
			if tx.Kind == "etx" {
				tx.Price = new(big.Int)
			}
			if tx.Value == nil {
				tx.Value = new(big.Int)
			}
			tx.GasClass, tx.PriceClass, tx.ALClass = "hand", "basefee", "hand"
			tx.AccessList = types.AccessList{{Address: u.Contracts[2]}, {Address: u.Contracts[3]}, {Address: u.EOAs[1].Addr}, {Address: u.EOAs[2].Addr}}
		}
		b := &evmgen.BlockCase{Env: env, Pre: pre, Txs: txs, PerTxWalk: true}
		b.Roles.Victim, b.Roles.VictimBen, b.Roles.Payer = u.Contracts[2], u.Contracts[2], u.Contracts[3]
		return b
	}
	e1, c2, c3 := u.EOAs[1].Addr, u.Contracts[2], u.Contracts[3]
	cases := []struct {
		name string
		want string
		b    *evmgen.BlockCase
	}{
		{"SuicideSelfThenTransferToDeadEOA", "block:recreates-account-that-died-holding-balance", mk(
			&evmgen.TxSpec{Kind: "quai", From: 1, To: &e1, ToClass: "self", Gas: 100000, Data: append([]byte("Suicide"), e1.Bytes()...), DataNote: "suicide-self", Suicide: true},
			&evmgen.TxSpec{Kind: "quai", From: 2, To: &e1, ToClass: "transfer", Gas: 100000, Value: big.NewInt(12345), DataNote: "transfer>eoa1"},
		)},
		{"KillThenPayThenTransferToDeadContract", "block:recreates-account-that-died-holding-balance", mk(
			&evmgen.TxSpec{Kind: "quai", From: 1, To: &c3, ToClass: "contract", Gas: 600000, DataNote: "kill-then-pay"},
			&evmgen.TxSpec{Kind: "quai", From: 2, To: &c2, ToClass: "transfer", Gas: 100000, Value: big.NewInt(777), DataNote: "transfer>contract2"},
		)},
		{"KillThenPayThenInboundETXToDeadContract", "block:recreates-account-that-died-holding-balance", mk(
			&evmgen.TxSpec{Kind: "quai", From: 1, To: &c3, ToClass: "contract", Gas: 600000, DataNote: "kill-then-pay"},
			&evmgen.TxSpec{Kind: "etx", To: &c2, ToClass: "etx", Gas: 100000, Value: big.NewInt(999), DataNote: "etx>contract2", EtxSender: u.ForeignQuai[0], EtxType: types.DefaultType},
		)},
	}
	for _, tc := range cases {
		tc := tc
		t.Run(tc.name, func(t *testing.T) {
			br, steps, err := checkBlock(t, "blockhand", tc.b)
			if err != nil {
				t.Fatalf("HARNESS: %v", err)
			}
			stats.Case("blockhand", tc.name, true, br.labels...)
			found := false
			for _, l := range br.labels {
				found = found || l == tc.want
			}
			if !found {
				t.Fatalf("HARNESS: hand-written block %s did not reach %q (labels %v, outcomes %s)", tc.name, tc.want, br.labels, evmgen.BlockSignature(steps))
			}
		})
	}
}
