package c02

import (
	"math/big"
	"testing"

	"github.com/dominant-strategies/go-quai/common"
	"github.com/dominant-strategies/go-quai/core/types"
	"github.com/dominant-strategies/go-quai/core/vm"
	"github.com/dominant-strategies/go-quai/params"

	"verifharness/evmgen"
	"verifharness/stats"
)

// handCase builds a deterministic case: EOA4 (never named by any program) calls contract0.
func handCase(ptn uint64, contractBal *big.Int, code func(a *evmgen.Asm)) *evmgen.Case {
	u := evmgen.U()
	a := evmgen.NewAsm()
	code(a)
	p := a.Assemble()
	env := &evmgen.Env{BlockNumber: 120000, PrimeTerminusNumber: ptn, BaseFee: big.NewInt(7), GasLimit: 12_000_000, Time: 1_700_000_000,
		QuaiStateSize: big.NewInt(1_000_000), Eligible: evmgen.EligibleMask(common.Location{0, 1}, common.Location{1, 0}, common.Location{3, 3}), Coinbase: u.EOAs[0].Addr}
	pre := &evmgen.PreState{Accounts: []evmgen.AccountSpec{
		{Addr: u.Contracts[0], Balance: contractBal, Nonce: 1, Code: &p},
		{Addr: u.EOAs[1].Addr, Balance: big.NewInt(12345)},
		{Addr: u.EOAs[4].Addr, Balance: new(big.Int).Exp(big.NewInt(10), big.NewInt(24), nil)},
	}}
	to := u.Contracts[0]
	return &evmgen.Case{Env: env, Pre: pre, Mode: evmgen.ModeTracedBypass, CleanFrom: true,
		Tx: evmgen.TxSpec{Kind: "quai", From: 4, To: &to, ToClass: "contract", Gas: 400000, GasClass: "hand", Price: big.NewInt(7), PriceClass: "basefee",
			Value: new(big.Int), ALClass: "empty"}}
}

func etxOp(a *evmgen.Asm, dest common.Address, value, limit, tip, cap_ *big.Int) {
	a.Push(0).Push(0).Push(0).Push(0)
	a.PushBig(cap_).PushBig(tip).PushBig(limit).PushBig(value).PushAddr(dest).Push(0)
	a.Op(vm.ETX)
}

type handwritten struct {
	name  string
	fps   []string // expected oracle failures (known findings); empty = must be clean
	label string   // a label the case must reach
	mk    func() *evmgen.Case
}

func handwrittenCases() []handwritten {
	u := evmgen.U()
	post := params.SelfDestructRefundForkBlock + 10
	pre := params.SelfDestructRefundForkBlock - 1
	e21 := new(big.Int).Exp(big.NewInt(10), big.NewInt(21), nil)
	untraced := func(c *evmgen.Case) *evmgen.Case { c.Mode = evmgen.ModeUntraced; return c }
	createOOG := func() *evmgen.Case {
		c := handCase(post, big.NewInt(0), func(a *evmgen.Asm) { a.Op(vm.STOP) })
		a := evmgen.NewAsm()
		a.Push(20000).Push(0).Op(vm.RETURN) // 20000 bytes of code cost 4M gas to store
		c.Tx.To, c.Tx.ToClass = nil, "create"
		c.Tx.Data, c.Tx.DataNote = a.Assemble().Code, "init: RETURN 20000 zero bytes"
		c.Tx.Value, c.Tx.Gas = big.NewInt(5000), 600000
		// with access-list enforcement (block processing) the created address must be listed
		if addr, ok := evmgen.PredictCreateAddress(u.EOAs[4].Addr, 0, c.Tx.Data, c.Env.BlockNumber); ok {
			c.Tx.AccessList = types.AccessList{{Address: addr}}
			c.Tx.ALClass = "created"
		}
		return c
	}
	// the same, but the init code first forwards part of its endowment to an existing account
	// (two balances besides the payer's change): the untraced classification needs the traced re-run
	createOOGForward := func() *evmgen.Case {
		c := createOOG()
		a := evmgen.NewAsm()
		a.Push(0).Push(0).Push(0).Push(0).Push(1000).PushAddr(u.EOAs[1].Addr).Op(vm.GAS, vm.CALL, vm.POP)
		a.Push(20000).Push(0).Op(vm.RETURN)
		c.Tx.Data, c.Tx.DataNote = a.Assemble().Code, "init: send 1000 to an account, RETURN 20000 zero bytes"
		c.Tx.Gas = 900000
		al := types.AccessList{{Address: u.EOAs[1].Addr}}
		if addr, ok := evmgen.PredictCreateAddress(u.EOAs[4].Addr, 0, c.Tx.Data, c.Env.BlockNumber); ok {
			al = append(al, types.AccessTuple{Address: addr})
		}
		c.Tx.AccessList, c.Tx.ALClass = al, "created"
		return c
	}
	wrapETX := func() *evmgen.Case {
		value := new(big.Int).Sub(two256, big.NewInt(21000-5))
		return handCase(pre, big.NewInt(5000), func(a *evmgen.Asm) {
			etxOp(a, u.ForeignQuai[0], value, big.NewInt(21000), new(big.Int), big.NewInt(1))
			a.Op(vm.POP, vm.STOP)
		})
	}
	wrapConvert := func() *evmgen.Case {
		value := new(big.Int).Sub(two256, big.NewInt(147000-5))
		return handCase(pre, big.NewInt(5000), func(a *evmgen.Asm) {
			a.Push(21000).PushBig(value).PushAddr(u.InZoneQi[0]).Push(0).Op(vm.CONVERT, vm.POP, vm.STOP)
		})
	}
	return []handwritten{
		// ---- known findings ---------------------------------------------------------------------
		{"CreateCodeStoreOOG", []string{fpOOG}, "tx-failed", createOOG},
		{"CreateCodeStoreOOGUntraced", []string{fpOOG}, "tx-failed", func() *evmgen.Case { return untraced(createOOG()) }},
		{"CreateCodeStoreOOGForwardUntraced", []string{fpOOG}, "tx-failed", func() *evmgen.Case { return untraced(createOOGForward()) }},
		{"LegacyWrapETX", []string{fpWrapETX}, "exports", wrapETX},
		{"LegacyWrapETXUntraced", []string{fpWrapETX}, "exports", func() *evmgen.Case { return untraced(wrapETX()) }},
		{"LegacyWrapConvert", []string{fpWrapConvert}, "exports", wrapConvert},
		// ---- clean anchors ----------------------------------------------------------------------
		{"ValueCall", nil, "exec:VALUE-CALL", func() *evmgen.Case {
			return handCase(post, e21, func(a *evmgen.Asm) {
				a.Push(0).Push(0).Push(0).Push(0).Push(777).PushAddr(u.EOAs[1].Addr).Op(vm.GAS, vm.CALL, vm.POP, vm.STOP)
			})
		}},
		{"SelfdestructRefund", nil, "selfdestruct-refund", func() *evmgen.Case {
			return handCase(post, e21, func(a *evmgen.Asm) { a.PushAddr(u.EOAs[1].Addr).Op(vm.SELFDESTRUCT) })
		}},
		{"SelfdestructTwicePostFork", nil, "selfdestruct-refund", func() *evmgen.Case {
			// contract0 calls itself once (inner self-destruct), then self-destructs again
			return handCase(post, e21, func(a *evmgen.Asm) {
				skip := a.NewLabel("inner")
				a.Op(vm.CALLDATASIZE).PushLabel(skip).Op(vm.JUMPI)
				a.Push(1).Push(0).Op(vm.MSTORE8)
				a.Push(0).Push(0).Push(1).Push(0).Push(0).Op(vm.ADDRESS, vm.GAS, vm.CALL, vm.POP)
				a.Label(skip)
				a.PushAddr(u.EOAs[1].Addr).Op(vm.SELFDESTRUCT)
			})
		}},
		{"SelfdestructTwicePreFork", nil, "selfdestruct-refund", func() *evmgen.Case {
			return handCase(pre, e21, func(a *evmgen.Asm) {
				skip := a.NewLabel("inner")
				a.Op(vm.CALLDATASIZE).PushLabel(skip).Op(vm.JUMPI)
				a.Push(1).Push(0).Op(vm.MSTORE8)
				a.Push(0).Push(0).Push(1).Push(0).Push(0).Op(vm.ADDRESS, vm.GAS, vm.CALL, vm.POP)
				a.Label(skip)
				a.PushAddr(u.EOAs[1].Addr).Op(vm.SELFDESTRUCT)
			})
		}},
		{"ETXWithFee", nil, "exports", func() *evmgen.Case {
			return handCase(post, e21, func(a *evmgen.Asm) {
				etxOp(a, u.ForeignQuai[0], big.NewInt(1000), big.NewInt(21000), big.NewInt(3), big.NewInt(4))
				a.Op(vm.POP, vm.STOP)
			})
		}},
		{"SuicideDataBranch", nil, "suicide-branch", func() *evmgen.Case {
			c := handCase(post, big.NewInt(0), func(a *evmgen.Asm) { a.Op(vm.STOP) })
			from := u.EOAs[4].Addr
			c.Tx.To, c.Tx.ToClass = &from, "self"
			c.Tx.Data = append([]byte("Suicide"), u.EOAs[1].Addr.Bytes()...)
			c.Tx.Suicide = true
			return c
		}},
		{"InboundETX", nil, "tx:etx", func() *evmgen.Case {
			c := handCase(post, e21, func(a *evmgen.Asm) {
				a.Push(0).Push(0).Push(0).Push(0).Push(777).PushAddr(u.EOAs[1].Addr).Op(vm.GAS, vm.CALL, vm.POP, vm.STOP)
			})
			c.Tx.Kind, c.Tx.Price, c.Tx.Value, c.Tx.Gas = "etx", new(big.Int), big.NewInt(4242), 200000
			c.Tx.EtxSender = u.ForeignQuai[0]
			return c
		}},
		{"InboundETXFails", nil, "tx-failed", func() *evmgen.Case {
			c := handCase(post, e21, func(a *evmgen.Asm) { a.Push(0).Push(0).Op(vm.REVERT) })
			c.Tx.Kind, c.Tx.Price, c.Tx.Value, c.Tx.Gas = "etx", new(big.Int), big.NewInt(4242), 200000
			c.Tx.EtxSender = u.ForeignQuai[0]
			return c
		}},
	}
}

// TestC02_Handwritten replays, without rapid, (a) one minimal input per root cause found on the
// unchanged tree — reported through stats.Violation, i.e. KNOWN-FINDING when listed, VIOLATION when
// not — and (b) hand-written executions the oracle must accept while reaching the stated label.
func TestC02_Handwritten(t *testing.T) {
	if stats.Shard() != 0 {
		t.Skip("deterministic cases run on shard 0 only")
	}
	for _, hw := range handwrittenCases() {
		hw := hw
		t.Run(hw.name, func(t *testing.T) {
			c := hw.mk()
			o, err := c.Run()
			if err != nil {
				t.Fatalf("HARNESS: %v", err)
			}
			if o.Res.Err != nil {
				t.Fatalf("HARNESS: hand-written transaction rejected: %v", o.Res.Err)
			}
			// the regression inputs go to the oracle with the known-finding exclusion off, so that
			// the finding is reported (and printed as KNOWN-FINDING by the driver)
			rp := checkCaseNoExclusion(t, "handwritten", c, o)
			stats.Case("handwritten", hw.name, true, append(rp.labels, "hand:"+hw.name)...)
			found := false
			for _, l := range rp.labels {
				found = found || l == hw.label
			}
			if !found {
				t.Fatalf("HARNESS: hand-written case %s did not reach %q (labels %v)", hw.name, hw.label, rp.labels)
			}
			seen := map[string]bool{}
			for _, fp := range rp.fps {
				seen[fp] = true
			}
			for _, fp := range hw.fps {
				if !seen[fp] && stats.IsKnown(fp) {
					t.Fatalf("HARNESS: finding %s is listed as known but its minimal input no longer reproduces it (observed %v); if the defect was repaired set its status to \"fixed\"", fp, rp.fps)
				}
			}
			if len(hw.fps) == 0 && len(rp.fps) > 0 {
				t.Logf("oracle failures on a clean anchor: %v", rp.fps)
			}
		})
	}
}
