package c03

import (
	"fmt"
	"math/big"
	"testing"

	"github.com/dominant-strategies/go-quai/common"
	"github.com/dominant-strategies/go-quai/core/types"
	"google.golang.org/protobuf/proto"
)

func TestScratchHybrid(t *testing.T) {
	loc := common.Location{0, 0}
	p := poolFor(loc)
	env := newQiEnv(loc, 10)
	chain := big.NewInt(9)
	attacker, victim := p.attackers[0], p.owners[0]
	aop := types.OutPoint{TxHash: common.HexToHash("0xaa00aa"), Index: 0}
	vop := types.OutPoint{TxHash: common.HexToHash("0xbb00bb"), Index: 7}
	env.addUTXO(aop, 3, attacker.addr[:])
	env.addUTXO(vop, 10, victim.addr[:])
	thief := make([]byte, 20)
	thief[0], thief[1], thief[19] = loc.BytePrefix(), 0x80, 1
	outs := types.TxOuts{{Denomination: 2, Address: thief}}
	// A: attacker's own UTXO, hybrid key, honestly signed by the attacker
	insA := types.TxIns{{PreviousOutPoint: aop, PubKey: hybridPub(attacker.pub65)}}
	dg := qiDigest(mkQiTx(chain, insA, outs, nil, nil), chain, loc)
	sig, _ := signQi([]*qiKey{attacker}, dg, nil)
	A := mkQiTx(chain, insA, outs, nil, sig)
	fmt.Println("A pool:", env.poolValidate(A, chain), " process:", env.process(A, chain, true), " hash:", A.Hash().Hex())
	// B: victim's UTXO, victim's (public) key hybrid-encoded, attacker's signature from A reused
	insB := types.TxIns{{PreviousOutPoint: vop, PubKey: hybridPub(victim.pub65)}}
	B := mkQiTx(chain, insB, types.TxOuts{{Denomination: 9, Address: thief}}, nil, sig)
	fmt.Println("B pool:", env.poolValidate(B, chain), " process(checkSig):", env.process(B, chain, true), " hash:", B.Hash().Hex())
	fmt.Println("hash(A)==hash(B):", A.Hash() == B.Hash())
	_, encErr := A.ProtoEncode()
	fmt.Println("A.ProtoEncode err:", encErr)
	// can A arrive over the wire? build the proto message by hand
	okTx := mkQiTx(chain, types.TxIns{{PreviousOutPoint: aop, PubKey: attacker.pub65}}, outs, nil, sig)
	pm, _ := okTx.ProtoEncode()
	pm.TxIns.TxIns[0].PubKey = hybridPub(attacker.pub65)
	raw, _ := proto.Marshal(pm)
	var pm2 types.ProtoTransaction
	proto.Unmarshal(raw, &pm2)
	dec := new(types.Transaction)
	err := dec.ProtoDecode(&pm2, loc)
	fmt.Println("wire decode err:", err, " decoded pub prefix:", dec.TxIn()[0].PubKey[0], " decoded hash==A hash:", dec.Hash() == A.Hash(), " pool verdict of decoded:", env.poolValidate(dec, chain))
	fmt.Println("signing hash A:", qiDigest(A, chain, loc).Hex(), " signing hash of A with other outpoint:", qiDigest(mkQiTx(chain, types.TxIns{{PreviousOutPoint: vop, PubKey: hybridPub(attacker.pub65)}}, outs, nil, nil), chain, loc).Hex())
}
