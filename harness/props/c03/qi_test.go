package c03

import (
	"bytes"
	"fmt"
	"math/big"
	"testing"

	"github.com/btcsuite/btcd/btcec/v2"
	"github.com/btcsuite/btcd/btcec/v2/schnorr"
	"github.com/dominant-strategies/go-quai/common"
	"github.com/dominant-strategies/go-quai/core/types"
	"google.golang.org/protobuf/proto"
	"pgregory.net/rapid"

	"verifharness/stats"
)

// Qi side of C03 (DESIGN.md §4 C03): a valid single-key or MuSig2 spend is built against a UTXO
// database, then every single-field mutant of it, every replay on another chain ID, every
// foreign signature and every non-owning key set has to be refused by
//   - core.ProcessQiTx(checkSig=true)                      (block processing), and
//   - core.ValidateQiTxInputs + ValidateQiTxOutputsAndSignature   (what TxPool.addQiTxs calls),
// and has to have a transaction hash different from the valid spend (the pool's sender cache,
// which switches the signature check off during block processing, is keyed by that hash).

var qiLocs = []common.Location{{0, 0}, {0, 1}, {1, 2}}

type qiIn struct {
	owner *qiKey
	op    types.OutPoint
	decoy types.OutPoint // second UTXO with the same owner and denomination
	// two more of those, differing from op in exactly one component of the outpoint
	decoySameHash, decoySameIndex types.OutPoint
	denom                         uint8
}

type qiSpend struct {
	env       *qiEnv
	pool      *qiPool
	chainID   *big.Int
	ins       []qiIn
	outs      types.TxOuts
	data      []byte
	kind      string
	sig       *schnorr.Signature
	nonceSeed []byte
	tx        *types.Transaction
	uniq      int
}

type qiMutant struct {
	field, kind string // e.g. "in", "swap-decoy"
	tx          *types.Transaction
	nodeChain   *big.Int // chain ID of the validating node
	sigOnly     bool     // constructed so that the signature is the only thing wrong with it
	resignKeys  []*qiKey // keys that own the mutant's inputs (to confirm sigOnly by re-signing)
	sameObject  bool     // the unmodified transaction (replay): no hash comparison
}

func txInsOf(ins []qiIn) types.TxIns {
	out := make(types.TxIns, len(ins))
	for i, in := range ins {
		out[i] = types.TxIn{PreviousOutPoint: in.op, PubKey: in.owner.pub65}
	}
	return out
}

func ownersOf(ins []qiIn) []*qiKey {
	out := make([]*qiKey, len(ins))
	for i, in := range ins {
		out[i] = in.owner
	}
	return out
}

func mkQiTx(chainID *big.Int, ins types.TxIns, outs types.TxOuts, data []byte, sig *schnorr.Signature) *types.Transaction {
	return types.NewTx(&types.QiTx{ChainID: chainID, TxIn: ins, TxOut: outs, Data: data, Signature: sig})
}

func qiDigest(tx *types.Transaction, chainID *big.Int, loc common.Location) common.Hash {
	return types.NewSigner(chainID, loc).Hash(tx)
}

// canonQi is the harness' own structural rendering of a Qi transaction; whether two
// transactions "differ" must not be decided with the encoder that is under test.
func canonQi(tx *types.Transaction) string {
	var b bytes.Buffer
	fmt.Fprintf(&b, "chain=%x|", tx.ChainId().Bytes())
	for _, in := range tx.TxIn() {
		fmt.Fprintf(&b, "in(%x:%d,%x)", in.PreviousOutPoint.TxHash, in.PreviousOutPoint.Index, in.PubKey)
	}
	for _, o := range tx.TxOut() {
		lock := new(big.Int)
		if o.Lock != nil {
			lock = o.Lock
		}
		fmt.Fprintf(&b, "out(%d,%x,%v)", o.Denomination, o.Address, lock)
	}
	fmt.Fprintf(&b, "|data=%x|sig=%x", tx.Data(), tx.GetSchnorrSignature().Serialize())
	return b.String()
}

func wireBytes(tx *types.Transaction) []byte {
	p, err := tx.ProtoEncode()
	if err != nil || p == nil {
		return nil
	}
	b, _ := proto.MarshalOptions{Deterministic: true}.Marshal(p)
	return b
}

// uniqAddr builds a fresh 20-byte address in the given zone and ledger; uniqueness within a case
// comes from the counter, not from the random bytes.
func (s *qiSpend) uniqAddr(t *rapid.T, loc common.Location, qi bool, label string) []byte {
	s.uniq++
	a := rapid.SliceOfN(rapid.Byte(), 20, 20).Draw(t, label)
	a[0] = loc.BytePrefix()
	if qi {
		a[1] |= 0x80
	} else {
		a[1] &= 0x7f
	}
	a[2], a[3] = byte(s.uniq>>8), byte(s.uniq)
	return a
}

func (s *qiSpend) uniqOutPoint(t *rapid.T, label string) types.OutPoint {
	s.uniq++
	h := rapid.SliceOfN(rapid.Byte(), 32, 32).Draw(t, label)
	h[30], h[31] = byte(s.uniq>>8), byte(s.uniq)
	idx := rapid.SampledFrom([]uint16{0, 0, 1, 2, 255, 256, 65534, 65535}).Draw(t, label+"Idx")
	return types.OutPoint{TxHash: common.BytesToHash(h), Index: idx}
}

func denomVal(d uint8) int64 { return types.Denominations[d].Int64() }

func genQiSpend(t *rapid.T) *qiSpend {
	loc := rapid.SampledFrom(qiLocs).Draw(t, "loc")
	ptn := rapid.SampledFrom([]uint64{10, 10, 1800000}).Draw(t, "primeTerminusNumber")
	s := &qiSpend{env: newQiEnv(loc, ptn), pool: poolFor(loc), chainID: genChainID(t, "chainID")}
	s.nonceSeed = rapid.SliceOfN(rapid.Byte(), 8, 8).Draw(t, "nonceSeed")
	nIn := rapid.SampledFrom([]int{1, 1, 1, 2, 2, 2, 2, 3, 3, 4}).Draw(t, "nIn")
	var dmax uint8
	for i := 0; i < nIn; i++ {
		in := qiIn{owner: s.pool.owners[rapid.IntRange(0, nOwnerKeys-1).Draw(t, "owner")]}
		in.denom = uint8(rapid.IntRange(0, 10).Draw(t, "inDenom"))
		if i == 0 && in.denom == 0 {
			in.denom = 1
		}
		if in.denom > dmax {
			dmax = in.denom
		}
		in.op, in.decoy = s.uniqOutPoint(t, "op"), s.uniqOutPoint(t, "decoy")
		in.decoySameHash = types.OutPoint{TxHash: in.op.TxHash, Index: in.op.Index ^ (1 << rapid.IntRange(0, 15).Draw(t, "decoyIdxBit"))}
		in.decoySameIndex = types.OutPoint{TxHash: s.uniqOutPoint(t, "decoy2").TxHash, Index: in.op.Index}
		for _, op := range []types.OutPoint{in.op, in.decoy, in.decoySameHash, in.decoySameIndex} {
			if err := s.env.addUTXO(op, in.denom, in.owner.addr[:]); err != nil {
				t.Fatalf("HARNESS: CreateUTXO: %v", err)
			}
		}
		s.ins = append(s.ins, in)
	}
	s.kind = rapid.SampledFrom([]string{"plain", "plain", "plain", "data20", "wrap", "convert"}).Draw(t, "kind")
	nOut := rapid.SampledFrom([]int{0, 1, 1, 2, 2, 2, 3}).Draw(t, "nOut")
	if (s.kind == "wrap" || s.kind == "convert") && nOut == 0 {
		nOut = 1
	}
	budget := denomVal(dmax) - 1
	var convAddr []byte
	for i := 0; i < nOut; i++ {
		d := uint8(rapid.IntRange(0, int(dmax)-1).Draw(t, "outDenom"))
		for d > 0 && denomVal(d) > budget {
			d--
		}
		if denomVal(d) > budget {
			break
		}
		budget -= denomVal(d)
		var addr []byte
		switch {
		case s.kind == "wrap" && i == 0:
			addr = s.uniqAddr(t, loc, false, "wrapTo")
		case s.kind == "convert" && (i == 0 || rapid.Bool().Draw(t, "moreConvert")):
			if convAddr == nil {
				convAddr = s.uniqAddr(t, loc, false, "convertTo")
			}
			addr = convAddr
		default:
			to := loc
			if rapid.IntRange(0, 3).Draw(t, "crossZone") == 0 {
				to = rapid.SampledFrom(zoneLocs).Draw(t, "outLoc")
			}
			addr = s.uniqAddr(t, to, true, "outAddr")
		}
		s.outs = append(s.outs, types.TxOut{Denomination: d, Address: addr})
	}
	switch s.kind {
	case "plain":
		if rapid.Bool().Draw(t, "emptyData") {
			s.data = []byte{}
		}
	case "data20":
		s.data = s.uniqAddr(t, rapid.SampledFrom(zoneLocs).Draw(t, "dataLoc"), false, "data20")
	case "wrap":
		s.data = s.uniqAddr(t, loc, false, "ownerContract")
	case "convert":
		s.data = append(rapid.SliceOfN(rapid.Byte(), 2, 2).Draw(t, "slip"), s.uniqAddr(t, loc, true, "refund")...)
	}
	unsigned := mkQiTx(s.chainID, txInsOf(s.ins), s.outs, s.data, nil)
	sig, err := signQi(ownersOf(s.ins), qiDigest(unsigned, s.chainID, loc), s.nonceSeed)
	if err != nil {
		t.Fatalf("HARNESS: signing the valid spend failed: %v", err)
	}
	s.sig = sig
	s.tx = mkQiTx(s.chainID, txInsOf(s.ins), s.outs, s.data, sig)
	return s
}

func (s *qiSpend) describe() map[string]any {
	ins := []string{}
	for _, in := range s.ins {
		ins = append(ins, fmt.Sprintf("%s d%d %x:%d", in.owner.name, in.denom, in.op.TxHash[:4], in.op.Index))
	}
	outs := []string{}
	for _, o := range s.outs {
		outs = append(outs, fmt.Sprintf("d%d->%x", o.Denomination, o.Address))
	}
	return map[string]any{"loc": s.env.loc.Name(), "chainID": s.chainID.String(), "kind": s.kind, "ins": ins, "outs": outs,
		"data": fmt.Sprintf("%x", s.data), "sig": fmt.Sprintf("%x", s.sig.Serialize()), "primeTerminus": s.env.hdr.PrimeTerminusNumber().String(),
		"wire": fmt.Sprintf("%x", wireBytes(s.tx))}
}

// flipBit returns a copy of b with one bit flipped at a drawn position in [from, to).
func flipBit(t *rapid.T, b []byte, from, to int, label string) []byte {
	c := append([]byte{}, b...)
	c[rapid.IntRange(from, to-1).Draw(t, label+"Byte")] ^= 1 << rapid.IntRange(0, 7).Draw(t, label+"Bit")
	return c
}

func parseSig(b []byte) *schnorr.Signature {
	sg, err := schnorr.ParseSignature(b)
	if err != nil {
		return nil
	}
	return sg
}

// mutants builds every mutant of the valid spend s.
func (s *qiSpend) mutants(t *rapid.T) []qiMutant {
	var ms []qiMutant
	loc := s.env.loc
	owners := ownersOf(s.ins)
	baseIns := txInsOf(s.ins)
	cpIns := func() types.TxIns { return append(types.TxIns{}, baseIns...) }
	cpOuts := func() types.TxOuts { return append(types.TxOuts{}, s.outs...) }
	add := func(field, kind string, tx *types.Transaction, sigOnly bool, keys []*qiKey) {
		ms = append(ms, qiMutant{field: field, kind: kind, tx: tx, nodeChain: s.chainID, sigOnly: sigOnly, resignKeys: keys})
	}
	maxIdx := 0
	for i, in := range s.ins {
		if in.denom > s.ins[maxIdx].denom {
			maxIdx = i
		}
	}

	// --- chain ID ---------------------------------------------------------------------------
	other := otherChainID(t, s.chainID, "otherChain")
	relabel := mkQiTx(other, baseIns, s.outs, s.data, s.sig)
	ms = append(ms, qiMutant{field: "chainid", kind: "relabel@own", tx: relabel, nodeChain: s.chainID})
	ms = append(ms, qiMutant{field: "chainid", kind: "relabel@other", tx: mkQiTx(other, baseIns, s.outs, s.data, s.sig), nodeChain: other, sigOnly: true, resignKeys: owners})
	ms = append(ms, qiMutant{field: "chainid", kind: "replay@other", tx: mkQiTx(s.chainID, baseIns, s.outs, s.data, s.sig), nodeChain: other, sameObject: true})

	// --- inputs -----------------------------------------------------------------------------
	{
		i := rapid.IntRange(0, len(s.ins)-1).Draw(t, "mutIn")
		ins := cpIns()
		ins[i].PreviousOutPoint = s.ins[i].decoy
		add("in", "swap-decoy", mkQiTx(s.chainID, ins, s.outs, s.data, s.sig), true, owners)

		ins = cpIns()
		ins[i].PreviousOutPoint = s.ins[i].decoySameHash
		add("in", "swap-decoy-index", mkQiTx(s.chainID, ins, s.outs, s.data, s.sig), true, owners)

		ins = cpIns()
		ins[i].PreviousOutPoint = s.ins[i].decoySameIndex
		add("in", "swap-decoy-hash", mkQiTx(s.chainID, ins, s.outs, s.data, s.sig), true, owners)

		ins = cpIns()
		ins[i].PreviousOutPoint.Index ^= 1 << rapid.IntRange(0, 15).Draw(t, "idxBit")
		add("in", "index-bit", mkQiTx(s.chainID, ins, s.outs, s.data, s.sig), false, nil)

		ins = cpIns()
		ins[i].PreviousOutPoint.TxHash = common.BytesToHash(flipBit(t, ins[i].PreviousOutPoint.TxHash[:], 0, 32, "opHash"))
		add("in", "hash-bit", mkQiTx(s.chainID, ins, s.outs, s.data, s.sig), false, nil)

		ins = append(cpIns(), types.TxIn{PreviousOutPoint: s.ins[i].decoy, PubKey: s.ins[i].owner.pub65})
		add("in", "add-decoy", mkQiTx(s.chainID, ins, s.outs, s.data, s.sig), true, append(append([]*qiKey{}, owners...), s.ins[i].owner))

		ins = append(cpIns(), baseIns[i])
		add("in", "duplicate", mkQiTx(s.chainID, ins, s.outs, s.data, s.sig), false, nil)

		if len(s.ins) >= 2 {
			j := rapid.IntRange(0, len(s.ins)-2).Draw(t, "dropIn")
			if j >= maxIdx {
				j++ // never drop the input that pays for the outputs: the rest stays valid
			}
			ins = append(cpIns()[:j:j], baseIns[j+1:]...)
			keys := append(append([]*qiKey{}, owners[:j]...), owners[j+1:]...)
			add("in", "drop", mkQiTx(s.chainID, ins, s.outs, s.data, s.sig), true, keys)

			a := rapid.IntRange(0, len(s.ins)-1).Draw(t, "swapA")
			b := (a + 1 + rapid.IntRange(0, len(s.ins)-2).Draw(t, "swapB")) % len(s.ins)
			ins = cpIns()
			ins[a], ins[b] = ins[b], ins[a]
			keys = append([]*qiKey{}, owners...)
			keys[a], keys[b] = keys[b], keys[a]
			add("in", "swap-order", mkQiTx(s.chainID, ins, s.outs, s.data, s.sig), true, keys)
		}
	}

	// --- outputs ----------------------------------------------------------------------------
	if len(s.outs) > 0 {
		i := rapid.IntRange(0, len(s.outs)-1).Draw(t, "mutOut")
		o := s.outs[i]
		isQi := o.Address[1]&0x80 != 0
		oloc := *common.AddressBytes(o.Address).Location()
		nConv := 0
		for _, x := range s.outs {
			if x.Address[1]&0x80 == 0 {
				nConv++
			}
		}
		// redirecting one of several conversion outputs is also refused for mixing targets
		redirectSigOnly := isQi || nConv == 1

		outs := cpOuts()
		outs[i].Address = s.uniqAddr(t, oloc, isQi, "thiefAddr")
		add("out", "addr-redirect", mkQiTx(s.chainID, baseIns, outs, s.data, s.sig), redirectSigOnly, owners)

		outs = cpOuts()
		outs[i].Address = flipBit(t, o.Address, 4, 20, "outAddrFlip")
		add("out", "addr-bit", mkQiTx(s.chainID, baseIns, outs, s.data, s.sig), redirectSigOnly, owners)

		if o.Denomination > 0 {
			outs = cpOuts()
			outs[i].Denomination--
			add("out", "denom-1", mkQiTx(s.chainID, baseIns, outs, s.data, s.sig), true, owners)
		}
		outs = cpOuts()
		outs[i].Denomination++ // may or may not still be covered by the inputs
		add("out", "denom+1", mkQiTx(s.chainID, baseIns, outs, s.data, s.sig), false, nil)

		if isQi || nConv > 1 {
			outs = append(cpOuts()[:i:i], s.outs[i+1:]...)
			add("out", "drop", mkQiTx(s.chainID, baseIns, outs, s.data, s.sig), true, owners)
		}
		if len(s.outs) >= 2 {
			a := rapid.IntRange(0, len(s.outs)-1).Draw(t, "oswapA")
			b := (a + 1 + rapid.IntRange(0, len(s.outs)-2).Draw(t, "oswapB")) % len(s.outs)
			if s.outs[a].Denomination != s.outs[b].Denomination || !bytes.Equal(s.outs[a].Address, s.outs[b].Address) {
				outs = cpOuts()
				outs[a], outs[b] = outs[b], outs[a]
				// "wrap" treats output 0 specially only through its address, so order is free
				add("out", "swap-order", mkQiTx(s.chainID, baseIns, outs, s.data, s.sig), true, owners)
			}
		}
	}
	{
		outs := append(cpOuts(), types.TxOut{Denomination: 0, Address: s.uniqAddr(t, loc, true, "extraOut")})
		total := int64(0)
		for _, o := range outs {
			total += denomVal(o.Denomination)
		}
		add("out", "add", mkQiTx(s.chainID, baseIns, outs, s.data, s.sig), total < denomVal(s.ins[maxIdx].denom), owners)
	}

	// --- data -------------------------------------------------------------------------------
	switch s.kind {
	case "plain":
		add("data", "set20", mkQiTx(s.chainID, baseIns, s.outs, s.uniqAddr(t, loc, false, "newData"), s.sig), true, owners)
	case "data20":
		add("data", "bit", mkQiTx(s.chainID, baseIns, s.outs, flipBit(t, s.data, 4, 20, "dataFlip"), s.sig), true, owners)
		add("data", "clear", mkQiTx(s.chainID, baseIns, s.outs, nil, s.sig), true, owners)
	case "wrap":
		add("data", "owner-redirect", mkQiTx(s.chainID, baseIns, s.outs, s.uniqAddr(t, loc, false, "thiefContract"), s.sig), true, owners)
		add("data", "clear", mkQiTx(s.chainID, baseIns, s.outs, nil, s.sig), false, nil)
	case "convert":
		d := append([]byte{}, s.data...)
		d[rapid.IntRange(0, 1).Draw(t, "slipByte")] ^= 1 << rapid.IntRange(0, 7).Draw(t, "slipBit")
		add("data", "slip-bit", mkQiTx(s.chainID, baseIns, s.outs, d, s.sig), true, owners)
		d = append(append([]byte{}, s.data[:2]...), s.uniqAddr(t, loc, true, "thiefRefund")...)
		add("data", "refund-redirect", mkQiTx(s.chainID, baseIns, s.outs, d, s.sig), true, owners)
	}

	// --- signature --------------------------------------------------------------------------
	digest := qiDigest(s.tx, s.chainID, loc)
	sigBytes := s.sig.Serialize()
	att := s.pool.attackers
	attKeys := make([]*qiKey, len(s.ins))
	for i := range attKeys {
		attKeys[i] = att[i%len(att)]
	}
	mustSign := func(keys []*qiKey, d common.Hash) *schnorr.Signature {
		sg, err := signQi(keys, d, s.nonceSeed)
		if err != nil {
			t.Fatalf("HARNESS: signing a mutant failed: %v", err)
		}
		return sg
	}
	withSig := func(kind string, sg *schnorr.Signature) {
		if sg != nil {
			add("sig", kind, mkQiTx(s.chainID, baseIns, s.outs, s.data, sg), true, owners)
		}
	}
	withSig("by-attacker", mustSign(attKeys, digest))
	withSig("r-bit", parseSig(flipBit(t, sigBytes, 0, 32, "rFlip")))
	withSig("s-bit", parseSig(flipBit(t, sigBytes, 32, 64, "sFlip")))
	withSig("zero", parseSig(make([]byte, 64)))
	{
		var sc btcec.ModNScalar
		sc.SetByteSlice(sigBytes[32:])
		sc.Negate()
		neg := sc.Bytes()
		withSig("s-negated", parseSig(append(append([]byte{}, sigBytes[:32]...), neg[:]...)))
	}
	{
		// the owners' signature over another transaction of theirs (decoy spent instead)
		ins := cpIns()
		ins[0].PreviousOutPoint = s.ins[0].decoy
		otherTx := mkQiTx(s.chainID, ins, s.outs, s.data, nil)
		withSig("of-other-tx", mustSign(owners, qiDigest(otherTx, s.chainID, loc)))
		// the owners' signature for the same content on another chain
		withSig("of-other-chain", mustSign(owners, qiDigest(mkQiTx(other, baseIns, s.outs, s.data, nil), other, loc)))
	}
	if len(s.ins) >= 2 {
		i := rapid.IntRange(0, len(s.ins)-1).Draw(t, "subsetKey")
		withSig("subset-single", mustSign(owners[i:i+1], digest))
		if len(s.ins) >= 3 {
			withSig("subset-agg", mustSign(append(append([]*qiKey{}, owners[:i]...), owners[i+1:]...), digest))
		}
	}
	withSig("superset-agg", mustSign(append(append([]*qiKey{}, owners...), att[0]), digest))

	// --- non-owning keys ------------------------------------------------------------------------
	{
		ins := cpIns()
		for i := range ins {
			ins[i].PubKey = attKeys[i].pub65
		}
		unsigned := mkQiTx(s.chainID, ins, s.outs, s.data, nil)
		add("keys", "all-foreign", mkQiTx(s.chainID, ins, s.outs, s.data, mustSign(attKeys, qiDigest(unsigned, s.chainID, loc))), false, nil)

		i := rapid.IntRange(0, len(s.ins)-1).Draw(t, "foreignKey")
		ins = cpIns()
		ins[i].PubKey = att[0].pub65
		keys := append([]*qiKey{}, owners...)
		keys[i] = att[0]
		unsigned = mkQiTx(s.chainID, ins, s.outs, s.data, nil)
		add("keys", "one-foreign", mkQiTx(s.chainID, ins, s.outs, s.data, mustSign(keys, qiDigest(unsigned, s.chainID, loc))), false, nil)
		// same, but the original signature is kept
		add("keys", "one-foreign-keepsig", mkQiTx(s.chainID, ins, s.outs, s.data, s.sig), false, nil)
		// another owner's key on this input (pool keys all own UTXOs in this database)
		o2 := s.pool.owners[(indexOfKey(s.pool.owners, s.ins[i].owner)+1)%nOwnerKeys]
		ins = cpIns()
		ins[i].PubKey = o2.pub65
		keys = append([]*qiKey{}, owners...)
		keys[i] = o2
		unsigned = mkQiTx(s.chainID, ins, s.outs, s.data, nil)
		add("keys", "other-owner", mkQiTx(s.chainID, ins, s.outs, s.data, mustSign(keys, qiDigest(unsigned, s.chainID, loc))), false, nil)
	}
	return ms
}

func indexOfKey(ks []*qiKey, k *qiKey) int {
	for i, x := range ks {
		if x == k {
			return i
		}
	}
	return 0
}

func TestC03_QiSpend(t *testing.T) {
	const part = "qi"
	rapid.Check(t, func(t *rapid.T) {
		s := genQiSpend(t)
		loc := s.env.loc
		first := rapid.Bool().Draw(t, "isFirstQiTx")
		digest := qiDigest(s.tx, s.chainID, loc)
		if !verifyAgainst(ownersOf(s.ins), digest, s.sig) {
			t.Fatalf("HARNESS: the harness' own signature does not verify (%d keys)", len(s.ins))
		}
		multi := "single"
		if len(s.ins) > 1 {
			multi = "musig"
		}
		dump := func(m *qiMutant, extra string) map[string]any {
			d := s.describe()
			if m != nil {
				d["mutant"] = m.field + "/" + m.kind
				d["mutantWire"] = fmt.Sprintf("%x", wireBytes(m.tx))
				d["nodeChainID"] = m.nodeChain.String()
			}
			d["isFirstQiTx"] = first
			d["note"] = extra
			return d
		}
		// The valid spend has to pass both entry points for the refusals below to mean anything. The
		// property is one-directional ("authorised only by ..."): a refused valid spend is not a
		// violation by itself, but a node that refuses the protocol's authorisation usually accepts
		// another one - the mutants are still offered, and an accepted mutant is the violation. Only
		// when none is accepted does the case end without a verdict.
		baseRefused := ""
		if err := s.env.process(s.tx, s.chainID, first); err != nil {
			baseRefused = fmt.Sprintf("valid %s/%s spend refused by ProcessQiTx: %v", s.kind, multi, err)
		} else if err := s.env.poolValidate(s.tx, s.chainID); err != nil {
			baseRefused = fmt.Sprintf("valid %s/%s spend refused by pool validation: %v", s.kind, multi, err)
		}
		baseHash := s.tx.Hash()
		baseCanon := canonQi(s.tx)
		stats.Case(part, fmt.Sprintf("valid/%s/%s", s.kind, multi), true, "valid", "valid_"+multi, "kind_"+s.kind)
		if stats.WantSample(part) {
			stats.Sample(part, dump(nil, "valid spend"))
		}

		ms := s.mutants(t)
		// a few of the sig-only mutants get their claim confirmed by re-signing (see below)
		var sigOnlyIdx []int
		for i := range ms {
			if ms[i].sigOnly {
				sigOnlyIdx = append(sigOnlyIdx, i)
			}
		}
		confirm := map[int]bool{}
		for k := 0; k < 4; k++ {
			confirm[rapid.SampledFrom(sigOnlyIdx).Draw(t, "confirmIdx")] = true
		}
		for i := range ms {
			m := &ms[i]
			name := m.field + "/" + m.kind
			differs := m.sameObject || canonQi(m.tx) != baseCanon
			labels := []string{"mutant", "field_" + m.field, multi}
			if m.sigOnly {
				labels = append(labels, "sig_only", "sig_only_"+multi)
			}
			// sigOnly claim: the same mutant signed by the rightful owners is accepted, so
			// the stale signature is what gets the mutant refused.
			if m.sigOnly && confirm[i] && baseRefused == "" {
				unsigned := mkQiTx(m.tx.ChainId(), m.tx.TxIn(), m.tx.TxOut(), m.tx.Data(), nil)
				sg, err := signQi(m.resignKeys, qiDigest(unsigned, m.nodeChain, loc), s.nonceSeed)
				if err != nil {
					t.Fatalf("HARNESS: re-signing %s: %v", name, err)
				}
				re := mkQiTx(m.tx.ChainId(), m.tx.TxIn(), m.tx.TxOut(), m.tx.Data(), sg)
				if err := s.env.process(re, m.nodeChain, first); err != nil {
					t.Fatalf("HARNESS: mutant %s is not otherwise valid (re-signed by the owners it is refused: %v) %v", name, err, dump(m, ""))
				}
				labels = append(labels, "sig_only_confirmed")
			}
			stats.Case(part, fmt.Sprintf("%s/%s/%s", s.kind, multi, name), differs, labels...)

			if err := s.env.process(m.tx, m.nodeChain, first); err == nil {
				stats.Violation(t, part, "C03/qi/process-accepts/"+name,
					fmt.Sprintf("ProcessQiTx(checkSig=true) accepted the %s mutant of a valid %s/%s spend", name, s.kind, multi), dump(m, "accepted by ProcessQiTx"))
			}
			if err := s.env.poolValidate(m.tx, m.nodeChain); err == nil {
				stats.Violation(t, part, "C03/qi/pool-accepts/"+name,
					fmt.Sprintf("ValidateQiTxInputs+ValidateQiTxOutputsAndSignature accepted the %s mutant of a valid %s/%s spend", name, s.kind, multi), dump(m, "accepted by pool validation"))
			}
			if !m.sameObject && differs && m.tx.Hash() == baseHash {
				stats.Violation(t, part, "C03/qi/hash-collision/"+name,
					fmt.Sprintf("the %s mutant has the same transaction hash %x as the valid spend (pool sender cache key)", name, baseHash), dump(m, "hash collision"))
			}
		}
		if baseRefused != "" {
			t.Fatalf("HARNESS: %s (no mutant was accepted either)  %v", baseRefused, dump(nil, ""))
		}
	})
}

// fpHybrid: a TxIn.PubKey that btcec parses but crypto.UnmarshalPubkey refuses (hybrid SEC
// encoding) makes Transaction.ProtoEncode fail; ProtoEncodeTxSigningData and Hash() drop the
// error, so the signing hash no longer covers the inputs and the transaction hash is a constant.
const fpHybrid = "C03/qi/hybrid-pubkey-unencodable"

// hybridPub re-encodes an uncompressed public key in the "hybrid" SEC format (prefix 6 or 7
// carrying the parity of Y). btcec.ParsePubKey accepts it and the address derivation ignores
// the prefix byte, so it names the same key and the same owner address.
func hybridPub(pub65 []byte) []byte {
	h := append([]byte{}, pub65...)
	h[0] = 0x06 | (pub65[64] & 1)
	return h
}

// TestC03_QiPubkeyEncoding covers the one input field whose value can change without changing
// the key it denotes: the encoding of TxIn.PubKey. A spend whose public keys are re-encoded
// (and which its owners sign in that form) is still a signed transaction in the sense of the
// property, so its single-field mutants must be refused and must hash differently as well.
func TestC03_QiPubkeyEncoding(t *testing.T) {
	const part = "qi_pubenc"
	rapid.Check(t, func(t *rapid.T) {
		s := genQiSpend(t)
		loc := s.env.loc
		first := rapid.Bool().Draw(t, "isFirstQiTx")
		owners := ownersOf(s.ins)
		multi := "single"
		if len(s.ins) > 1 {
			multi = "musig"
		}
		if err := s.env.process(s.tx, s.chainID, first); err != nil {
			t.Fatalf("HARNESS: valid spend refused by ProcessQiTx: %v %v", err, s.describe())
		}
		// hybrid-encode a non-empty subset of the inputs' keys
		hyIns := txInsOf(s.ins)
		which := rapid.SliceOfN(rapid.Bool(), len(hyIns), len(hyIns)).Draw(t, "hybridMask")
		which[rapid.IntRange(0, len(hyIns)-1).Draw(t, "hybridAtLeast")] = true
		for i := range hyIns {
			if which[i] {
				hyIns[i].PubKey = hybridPub(hyIns[i].PubKey)
			}
		}
		dump := func(name string, tx *types.Transaction, note string) map[string]any {
			d := s.describe()
			d["hybridMask"] = fmt.Sprint(which)
			d["mutant"] = name
			d["isFirstQiTx"] = first
			d["note"] = note
			ins := []string{}
			for _, in := range tx.TxIn() {
				ins = append(ins, fmt.Sprintf("%x:%d pub=%x", in.PreviousOutPoint.TxHash, in.PreviousOutPoint.Index, in.PubKey))
			}
			d["mutantIns"] = ins
			d["mutantSig"] = fmt.Sprintf("%x", tx.GetSchnorrSignature().Serialize())
			d["mutantHash"] = tx.Hash().Hex()
			d["mutantSigningHash"] = qiDigest(tx, tx.ChainId(), loc).Hex()
			return d
		}
		mustReject := func(name string, tx *types.Transaction, nodeChain *big.Int, ref *types.Transaction, fp string, labels ...string) {
			stats.Case(part, fmt.Sprintf("%s/%s/%s", s.kind, multi, name), true, append(labels, "mutant", multi)...)
			if err := s.env.process(tx, nodeChain, first); err == nil {
				stats.Violation(t, part, fp, fmt.Sprintf("ProcessQiTx(checkSig=true) accepted the %s mutant of a %s/%s spend", name, s.kind, multi), dump(name, tx, "accepted by ProcessQiTx"))
			}
			if err := s.env.poolValidate(tx, nodeChain); err == nil {
				stats.Violation(t, part, fp, fmt.Sprintf("ValidateQiTxInputs+ValidateQiTxOutputsAndSignature accepted the %s mutant of a %s/%s spend", name, s.kind, multi), dump(name, tx, "accepted by pool validation"))
			}
			if tx.Hash() == ref.Hash() {
				stats.Violation(t, part, fp, fmt.Sprintf("the %s mutant has the same transaction hash %x as the transaction it was derived from (pool sender cache key)", name, ref.Hash()), dump(name, tx, "hash collision"))
			}
		}

		// (1) re-encoded keys under the ORIGINAL signature: a mutant of the valid spend
		mustReject("pubenc/hybrid-keepsig", mkQiTx(s.chainID, hyIns, s.outs, s.data, s.sig), s.chainID, s.tx, "C03/qi/hybrid-pubkey-keepsig", "keepsig")

		// (2) the owners sign the re-encoded form themselves
		if stats.IsKnown(fpHybrid) {
			stats.Excluded(fpHybrid) // known finding: this class is accepted with unsigned inputs and a constant hash
			return
		}
		unsigned := mkQiTx(s.chainID, hyIns, s.outs, s.data, nil)
		hsig, err := signQi(owners, qiDigest(unsigned, s.chainID, loc), s.nonceSeed)
		if err != nil {
			t.Fatalf("HARNESS: signing: %v", err)
		}
		h := mkQiTx(s.chainID, hyIns, s.outs, s.data, hsig)
		accepted := s.env.process(h, s.chainID, first) == nil
		acceptedPool := s.env.poolValidate(h, s.chainID) == nil
		verdict := "owner_signed_hybrid_refused"
		if accepted || acceptedPool {
			verdict = "owner_signed_hybrid_accepted"
		}
		stats.Case(part, fmt.Sprintf("%s/%s/owner-signed-hybrid", s.kind, multi), true, verdict, multi)
		if stats.WantSample(part) {
			stats.Sample(part, dump("owner-signed-hybrid", h, verdict))
		}
		if !accepted && !acceptedPool {
			return // refused outright: nothing that could be replayed
		}
		// single-field mutants of h, signature kept
		i := rapid.IntRange(0, len(hyIns)-1).Draw(t, "mutIn")
		ins := append(types.TxIns{}, hyIns...)
		ins[i].PreviousOutPoint = s.ins[i].decoy
		mustReject("hybrid/in-swap-decoy", mkQiTx(s.chainID, ins, s.outs, s.data, hsig), s.chainID, h, fpHybrid, "h_in")

		ins = append(append(types.TxIns{}, hyIns...), types.TxIn{PreviousOutPoint: s.ins[i].decoy, PubKey: hyIns[i].PubKey})
		mustReject("hybrid/in-add-decoy", mkQiTx(s.chainID, ins, s.outs, s.data, hsig), s.chainID, h, fpHybrid, "h_in")

		if len(s.outs) > 0 {
			j := rapid.IntRange(0, len(s.outs)-1).Draw(t, "mutOut")
			outs := append(types.TxOuts{}, s.outs...)
			outs[j].Address = s.uniqAddr(t, *common.AddressBytes(outs[j].Address).Location(), outs[j].Address[1]&0x80 != 0, "thiefAddr")
			mustReject("hybrid/out-addr-redirect", mkQiTx(s.chainID, hyIns, outs, s.data, hsig), s.chainID, h, fpHybrid, "h_out")
		}
		other := otherChainID(t, s.chainID, "otherChain")
		mustReject("hybrid/chainid-relabel@other", mkQiTx(other, hyIns, s.outs, s.data, hsig), other, h, fpHybrid, "h_chainid")

		// a third party's UTXO under an arbitrary signature: refused here because the signature
		// is checked, but block processing skips that check for hashes found in the pool's
		// sender cache, so the hash has to differ from h's
		victim := s.pool.owners[(indexOfKey(s.pool.owners, s.ins[0].owner)+1)%nOwnerKeys]
		vop := s.uniqOutPoint(t, "victimOp")
		vop.TxHash[2] = s.ins[0].op.TxHash[2]
		if err := s.env.addUTXO(vop, s.ins[0].denom, victim.addr[:]); err != nil {
			t.Fatalf("HARNESS: CreateUTXO: %v", err)
		}
		vins := append(types.TxIns{}, hyIns...)
		vins[0] = types.TxIn{PreviousOutPoint: vop, PubKey: hybridPub(victim.pub65)}
		mustReject("hybrid/in-victim-utxo", mkQiTx(s.chainID, vins, s.outs, s.data, hsig), s.chainID, h, fpHybrid, "h_victim")
	})
}
