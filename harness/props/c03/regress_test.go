package c03

import (
	"fmt"
	"math/big"
	"testing"
	"time"

	"github.com/dominant-strategies/go-quai/common"
	"github.com/dominant-strategies/go-quai/core"
	"github.com/dominant-strategies/go-quai/core/rawdb"
	"github.com/dominant-strategies/go-quai/core/types"
	"github.com/dominant-strategies/go-quai/params"
	"google.golang.org/protobuf/proto"

	"verifharness/stats"
)

// TestC03_Regress_KnownFindings replays, deterministically and once per run, the two defects this
// check found, under their fingerprints:
//
//   - C03/qi/hybrid-pubkey-unencodable (recorded, not repaired): TxIn.PubKey = 0x06|0x07 || X || Y.
//     ProtoDecode keeps the 65 bytes, crypto.PubkeyBytesToAddress ignores byte 0 (owner check
//     passes), btcec.ParsePubKey accepts the key (signature check runs), but
//     compressPubKeyIfNeeded -> crypto.UnmarshalPubkey refuses it, TxIns.ProtoEncode fails,
//     ProtoEncodeTxSigningData drops the error (the signing hash has NO inputs) and
//     Transaction.Hash drops it too (hash = keccak256("") with bytes 0..3 patched, for every such
//     transaction). While the entry is listed as known the driver prints its KNOWN-FINDING line
//     from here; when the defect stops reproducing the test says so in a note and passes.
//   - C03/pool/sender-cached-for-foreign-chain-tx (repaired in /repo f8514446): must stay repaired.
func TestC03_Regress_KnownFindings(t *testing.T) {
	const part = "regress"
	if stats.Shard() != 0 {
		return
	}
	loc := common.Location{0, 0}
	p := poolFor(loc)

	// ---- hybrid public key -----------------------------------------------------------------
	{
		env := newQiEnv(loc, 10)
		chain := big.NewInt(9)
		attacker, victim := p.attackers[0], p.owners[0]
		aop := types.OutPoint{TxHash: common.HexToHash("0xaa00aa"), Index: 0}
		aop2 := types.OutPoint{TxHash: common.HexToHash("0xaa00ab"), Index: 5}
		vop := types.OutPoint{TxHash: common.HexToHash("0xbb00bb"), Index: 7}
		for _, u := range []struct {
			op    types.OutPoint
			d     uint8
			owner *qiKey
		}{{aop, 3, attacker}, {aop2, 3, attacker}, {vop, 10, victim}} {
			if err := env.addUTXO(u.op, u.d, u.owner.addr[:]); err != nil {
				t.Fatalf("HARNESS: CreateUTXO: %v", err)
			}
		}
		thief := make([]byte, 20)
		thief[0], thief[1], thief[19] = loc.BytePrefix(), 0x80, 1
		outs := types.TxOuts{{Denomination: 2, Address: thief}}
		// A: the key holder spends an own UTXO, key hybrid-encoded, honestly signed
		insA := types.TxIns{{PreviousOutPoint: aop, PubKey: hybridPub(attacker.pub65)}}
		sig, err := signQi([]*qiKey{attacker}, qiDigest(mkQiTx(chain, insA, outs, nil, nil), chain, loc), nil)
		if err != nil {
			t.Fatalf("HARNESS: signing: %v", err)
		}
		A := mkQiTx(chain, insA, outs, nil, sig)
		errProc, errPool := env.process(A, chain, true), env.poolValidate(A, chain)
		// A2: another outpoint of the same key under the SAME signature (single-field mutant of A)
		A2 := mkQiTx(chain, types.TxIns{{PreviousOutPoint: aop2, PubKey: hybridPub(attacker.pub65)}}, outs, nil, sig)
		// B: somebody else's UTXO, their public key hybrid-encoded, A's signature
		B := mkQiTx(chain, types.TxIns{{PreviousOutPoint: vop, PubKey: hybridPub(victim.pub65)}}, types.TxOuts{{Denomination: 9, Address: thief}}, nil, sig)
		// can A arrive over the wire? patch the key into the proto form of the plain spend
		wireOK := false
		if pm, err := mkQiTx(chain, types.TxIns{{PreviousOutPoint: aop, PubKey: attacker.pub65}}, outs, nil, sig).ProtoEncode(); err == nil {
			pm.TxIns.TxIns[0].PubKey = hybridPub(attacker.pub65)
			if raw, err := proto.Marshal(pm); err == nil {
				var pm2 types.ProtoTransaction
				dec := new(types.Transaction)
				wireOK = proto.Unmarshal(raw, &pm2) == nil && dec.ProtoDecode(&pm2, loc) == nil && dec.TxIn()[0].PubKey[0] != 4
			}
		}
		_, encErr := A.ProtoEncode()
		dump := map[string]any{
			"A.accepted":        fmt.Sprintf("ProcessQiTx: %v, pool validators: %v", errProc, errPool),
			"A.hash":            A.Hash().Hex(),
			"A.signingHash":     qiDigest(A, chain, loc).Hex(),
			"A2.signingHash":    qiDigest(A2, chain, loc).Hex(),
			"B.hash":            B.Hash().Hex(),
			"A.ProtoEncode":     fmt.Sprint(encErr),
			"A.decodesFromWire": wireOK,
			"pubkey":            fmt.Sprintf("%x", hybridPub(attacker.pub65)),
		}
		observed := 0
		report := func(what string) {
			observed++
			stats.Violation(t, part, fpHybrid, what, dump)
		}
		stats.Case(part, "hybrid-pubkey/owner-signed", true, "hybrid_pubkey")
		if errProc == nil || errPool == nil {
			stats.Case(part, "hybrid-pubkey/in-swap", true, "hybrid_pubkey")
			if err := env.process(A2, chain, true); err == nil {
				report("ProcessQiTx(checkSig=true) accepts another outpoint of the key under the signature made for a hybrid-pubkey spend (inputs are not covered by the signing hash)")
			}
			if err := env.poolValidate(A2, chain); err == nil {
				report("ValidateQiTxInputs+ValidateQiTxOutputsAndSignature accept another outpoint of the key under the signature made for a hybrid-pubkey spend")
			}
			stats.Case(part, "hybrid-pubkey/hash", true, "hybrid_pubkey")
			if A.Hash() == B.Hash() {
				// what Process does for a Qi tx whose hash is in the pool's sender cache
				batch := env.db.NewBatch()
				batch.SetPending(true)
				gp := new(types.GasPool).AddGas(env.hdr.GasLimit())
				used := uint64(0)
				rl, pl := params.ETXRLimitMin, params.ETXPLimitMin
				_, _, _, err, _ := core.ProcessQiTx(B, env.chain, false, true, env.hdr, batch, env.db, gp, &used, types.NewSigner(chain, loc), loc, *chain, 1.0, &rl, &pl, new(core.UtxosCreatedDeleted), big.NewInt(0), big.NewInt(0), false)
				dump["B.processWithoutSigCheck"] = fmt.Sprint(err)
				report(fmt.Sprintf("a hybrid-pubkey spend of a third party's UTXO has the same transaction hash %x as the accepted spend (pool sender cache key; ProcessQiTx(checkSig=false) on it: %v)", A.Hash(), err))
			}
		}
		if observed == 0 {
			stats.Note("C03 regress: " + fpHybrid + " no longer reproduces (hybrid-pubkey spend refused or its mutants refused and hashed apart)")
		}
	}

	// ---- pool sender cache, foreign chain (repaired: must not come back) -------------------------
	{
		key := p.quai[0]
		chain := poolChainFor(t, loc)
		cfg := core.DefaultTxPoolConfig
		cfg.Journal = ""
		nodeChain, foreignChain := big.NewInt(9), big.NewInt(15000)
		pool := core.NewTxPool(cfg, &params.ChainConfig{ChainID: nodeChain, Location: loc}, chain, logger, rawdb.NewMemoryDatabase(logger))
		defer pool.Stop()
		to := common.BytesToAddress(append([]byte{loc.BytePrefix(), 0}, make([]byte, 18)...), loc)
		mk := func(c *big.Int, nonce uint64) quaiFields {
			return sign(t, quaiFields{chainID: new(big.Int).Set(c), nonce: nonce, gasPrice: big.NewInt(10), gas: 60000, to: &to, value: big.NewInt(1)}, types.NewSigner(c, loc), key.priv)
		}
		foreign, sentinel := mk(foreignChain, 0), mk(nodeChain, 0)
		ftx, stx := foreign.tx(), sentinel.tx()
		errs := pool.AddRemotesSync([]*types.Transaction{ftx, stx})
		if errs[1] != nil {
			t.Fatalf("HARNESS: sentinel transaction refused: %v", errs[1])
		}
		for deadline := time.Now().Add(5 * time.Second); ; time.Sleep(200 * time.Microsecond) {
			if _, ok := pool.PeekSender(stx.Hash()); ok {
				break
			}
			if time.Now().After(deadline) {
				t.Fatalf("HARNESS: sentinel sender never reached the pool's sender cache")
			}
		}
		stats.Case(part, "pool/foreign-chain", true, "pool_foreign_chain")
		if a, ok := pool.PeekSender(ftx.Hash()); ok {
			stats.Violation(t, part, fpPoolForeign, fmt.Sprintf("pool (chain %v) caches sender %s for a transaction signed for chain %v (pool verdict: %v)", nodeChain, a.Hex(), foreignChain, errs[0]),
				map[string]any{"tx": foreign.describe(), "nodeChainID": nodeChain.String(), "poolError": fmt.Sprint(errs[0])})
		}
	}
}
