package c03

import (
	"bytes"
	"crypto/ecdsa"
	"fmt"
	"math/big"
	"testing"

	"github.com/dominant-strategies/go-quai/common"
	"github.com/dominant-strategies/go-quai/core/types"
	"github.com/dominant-strategies/go-quai/crypto"
	"google.golang.org/protobuf/proto"
	"pgregory.net/rapid"

	"verifharness/stats"
)

// Quai side of C03 (DESIGN.md §4 C03): key x transaction contents x chain ID x location, then every
// single signed-field mutation with V,R,S kept, chain-ID mutations and signature mutations.

// quaiFields is a Quai transaction in a form whose fields can be edited one at a time.
type quaiFields struct {
	chainID    *big.Int
	nonce      uint64
	gasPrice   *big.Int
	gas        uint64
	to         *common.Address
	value      *big.Int
	data       []byte
	al         types.AccessList
	parentHash *common.Hash
	mixHash    *common.Hash
	workNonce  *types.BlockNonce
	v, r, s    *big.Int
}

func (f quaiFields) inner() *types.QuaiTx {
	return &types.QuaiTx{ChainID: f.chainID, Nonce: f.nonce, GasPrice: f.gasPrice, Gas: f.gas, To: f.to, Value: f.value,
		Data: f.data, AccessList: f.al, V: f.v, R: f.r, S: f.s, ParentHash: f.parentHash, MixHash: f.mixHash, WorkNonce: f.workNonce}
}

// tx builds a fresh transaction object (empty caches).
func (f quaiFields) tx() *types.Transaction { return types.NewTx(f.inner()) }

func (f quaiFields) clone() quaiFields {
	g := f
	g.chainID = new(big.Int).Set(f.chainID)
	g.gasPrice = new(big.Int).Set(f.gasPrice)
	g.value = new(big.Int).Set(f.value)
	g.data = append([]byte(nil), f.data...)
	if f.data != nil && g.data == nil {
		g.data = []byte{}
	}
	g.al = make(types.AccessList, len(f.al))
	for i, tup := range f.al {
		g.al[i] = types.AccessTuple{Address: tup.Address, StorageKeys: append([]common.Hash{}, tup.StorageKeys...)}
	}
	if f.al == nil {
		g.al = nil
	}
	if f.to != nil {
		a := *f.to
		g.to = &a
	}
	if f.v != nil {
		g.v, g.r, g.s = new(big.Int).Set(f.v), new(big.Int).Set(f.r), new(big.Int).Set(f.s)
	}
	return g
}

func (f quaiFields) describe() map[string]any {
	to := "nil"
	if f.to != nil {
		to = fmt.Sprintf("%x", f.to.Bytes())
	}
	al := []string{}
	for _, tup := range f.al {
		ks := []string{}
		for _, k := range tup.StorageKeys {
			ks = append(ks, k.Hex())
		}
		al = append(al, fmt.Sprintf("%x%v", tup.Address.Bytes(), ks))
	}
	d := map[string]any{"chainID": f.chainID.String(), "nonce": f.nonce, "gasPrice": f.gasPrice.String(), "gas": f.gas, "to": to,
		"value": f.value.String(), "data": fmt.Sprintf("%x", f.data), "accessList": al}
	if f.v != nil {
		d["v"], d["r"], d["s"] = f.v.String(), fmt.Sprintf("%x", f.r), fmt.Sprintf("%x", f.s)
	}
	return d
}

func genBig(t *rapid.T, label string) *big.Int {
	switch rapid.IntRange(0, 5).Draw(t, label+"Kind") {
	case 0:
		return new(big.Int)
	case 1:
		return big.NewInt(int64(rapid.IntRange(1, 300).Draw(t, label+"Small")))
	case 2:
		return new(big.Int).Sub(two256, big.NewInt(int64(rapid.IntRange(1, 3).Draw(t, label+"Top"))))
	default:
		return new(big.Int).SetBytes(rapid.SliceOfN(rapid.Byte(), 1, 32).Draw(t, label))
	}
}

func genU64(t *rapid.T, label string) uint64 {
	switch rapid.IntRange(0, 4).Draw(t, label+"Kind") {
	case 0:
		return 0
	case 1:
		return ^uint64(0) - uint64(rapid.IntRange(0, 2).Draw(t, label+"Top"))
	case 2:
		return uint64(rapid.IntRange(1, 100000).Draw(t, label+"Small"))
	default:
		return rapid.Uint64().Draw(t, label)
	}
}

func genAddr(t *rapid.T, loc common.Location, label string) common.Address {
	b := rapid.SliceOfN(rapid.Byte(), 20, 20).Draw(t, label)
	switch rapid.IntRange(0, 3).Draw(t, label+"Scope") {
	case 0, 1: // in the node's zone
		b[0] = loc.BytePrefix()
	case 2: // another zone
		b[0] = rapid.SampledFrom(zoneLocs).Draw(t, label+"Zone").BytePrefix()
	}
	return common.BytesToAddress(b, loc)
}

func genHash(t *rapid.T, label string) common.Hash {
	if rapid.IntRange(0, 4).Draw(t, label+"Zero") == 0 {
		return common.Hash{}
	}
	return common.BytesToHash(rapid.SliceOfN(rapid.Byte(), 32, 32).Draw(t, label))
}

func genQuaiFields(t *rapid.T, chainID *big.Int, loc common.Location) quaiFields {
	f := quaiFields{chainID: new(big.Int).Set(chainID), nonce: genU64(t, "nonce"), gasPrice: genBig(t, "gasPrice"), gas: genU64(t, "gas"), value: genBig(t, "value")}
	if rapid.IntRange(0, 4).Draw(t, "create") != 0 {
		a := genAddr(t, loc, "to")
		f.to = &a
	}
	switch rapid.IntRange(0, 5).Draw(t, "dataKind") {
	case 0:
		f.data = nil
	case 1:
		f.data = []byte{}
	case 2:
		f.data = rapid.SliceOfN(rapid.Byte(), 300, 5000).Draw(t, "bigData")
	default:
		f.data = rapid.SliceOfN(rapid.Byte(), 1, 68).Draw(t, "data")
	}
	switch rapid.IntRange(0, 3).Draw(t, "alKind") {
	case 0:
		f.al = nil
	case 1:
		f.al = types.AccessList{}
	default:
		n := rapid.IntRange(1, 4).Draw(t, "alLen")
		for i := 0; i < n; i++ {
			tup := types.AccessTuple{Address: genAddr(t, loc, "alAddr"), StorageKeys: []common.Hash{}}
			for k := rapid.IntRange(0, 3).Draw(t, "alKeys"); k > 0; k-- {
				tup.StorageKeys = append(tup.StorageKeys, genHash(t, "alKey"))
			}
			f.al = append(f.al, tup)
		}
	}
	if rapid.IntRange(0, 2).Draw(t, "workFields") == 0 {
		ph, mh := genHash(t, "parentHash"), genHash(t, "mixHash")
		wn := types.EncodeNonce(rapid.Uint64().Draw(t, "workNonce"))
		f.parentHash, f.mixHash, f.workNonce = &ph, &mh, &wn
	}
	return f
}

func flipBig(t *rapid.T, x *big.Int, bits int, label string) *big.Int {
	y := new(big.Int).Set(x)
	i := rapid.IntRange(0, bits-1).Draw(t, label)
	return y.SetBit(y, i, y.Bit(i)^1)
}

func flipHash(t *rapid.T, h common.Hash, label string) common.Hash {
	return common.BytesToHash(flipBit(t, h[:], 0, 32, label))
}

func flipAddr(t *rapid.T, a common.Address, loc common.Location, label string) common.Address {
	return common.BytesToAddress(flipBit(t, a.Bytes(), 0, 20, label), loc)
}

type quaiMutant struct {
	field, kind string
	f           quaiFields
	signer      types.Signer // nil = the signer the original was made for
	mustError   bool         // the property demands an error (zero / out-of-range / high-S)
	otherSender *common.AddressBytes
}

// fieldMutants returns every single-field mutation of the signed transaction f (V,R,S kept).
func fieldMutants(t *rapid.T, f quaiFields, loc common.Location) []quaiMutant {
	var ms []quaiMutant
	add := func(field, kind string, edit func(g *quaiFields)) {
		g := f.clone()
		edit(&g)
		ms = append(ms, quaiMutant{field: field, kind: kind, f: g})
	}
	add("nonce", "+1", func(g *quaiFields) { g.nonce++ })
	add("nonce", "bit", func(g *quaiFields) { g.nonce ^= 1 << rapid.IntRange(0, 63).Draw(t, "nonceBit") })
	add("gas", "+1", func(g *quaiFields) { g.gas++ })
	add("gas", "bit", func(g *quaiFields) { g.gas ^= 1 << rapid.IntRange(0, 63).Draw(t, "gasBit") })
	if f.nonce != f.gas {
		add("nonce+gas", "swapped", func(g *quaiFields) { g.nonce, g.gas = g.gas, g.nonce })
	}
	add("gasPrice", "+1", func(g *quaiFields) { g.gasPrice.Add(g.gasPrice, big1) })
	add("gasPrice", "bit", func(g *quaiFields) { g.gasPrice = flipBig(t, g.gasPrice, 256, "gasPriceBit") })
	add("value", "+1", func(g *quaiFields) { g.value.Add(g.value, big1) })
	add("value", "bit", func(g *quaiFields) { g.value = flipBig(t, g.value, 256, "valueBit") })
	if f.gasPrice.Sign() != 0 {
		add("gasPrice", "<<8", func(g *quaiFields) { g.gasPrice.Lsh(g.gasPrice, 8) })
	}
	if f.value.Sign() != 0 {
		add("value", "<<8", func(g *quaiFields) { g.value.Lsh(g.value, 8) })
	}
	if f.gasPrice.Cmp(f.value) != 0 {
		add("gasPrice+value", "swapped", func(g *quaiFields) { g.gasPrice, g.value = g.value, g.gasPrice })
	}
	if f.to == nil {
		add("to", "create->call", func(g *quaiFields) { a := genAddr(t, loc, "newTo"); g.to = &a })
		add("to", "create->zero", func(g *quaiFields) { a := common.BytesToAddress(make([]byte, 20), loc); g.to = &a })
	} else {
		add("to", "call->create", func(g *quaiFields) { g.to = nil })
		add("to", "bit", func(g *quaiFields) { a := flipAddr(t, *g.to, loc, "toBit"); g.to = &a })
	}
	add("data", "append0", func(g *quaiFields) { g.data = append(g.data, 0) })
	add("data", "prepend0", func(g *quaiFields) { g.data = append([]byte{0}, g.data...) })
	if len(f.data) > 0 {
		add("data", "drop-last", func(g *quaiFields) { g.data = g.data[:len(g.data)-1] })
		add("data", "bit", func(g *quaiFields) { g.data = flipBit(t, g.data, 0, len(g.data), "dataBit") })
		if f.to != nil && len(f.data) >= 20 {
			// bytes moved between two adjacent byte fields
			add("to+data", "swapped-prefix", func(g *quaiFields) {
				a := common.BytesToAddress(g.data[:20], loc)
				nd := append(append([]byte{}, g.to.Bytes()...), g.data[20:]...)
				if !bytes.Equal(a.Bytes(), g.to.Bytes()) {
					g.to, g.data = &a, nd
				} else {
					g.data = append(g.data, 1)
				}
			})
		}
	}
	add("accessList", "add-tuple", func(g *quaiFields) {
		g.al = append(g.al, types.AccessTuple{Address: genAddr(t, loc, "newAlAddr"), StorageKeys: []common.Hash{}})
	})
	if len(f.al) > 0 {
		i := rapid.IntRange(0, len(f.al)-1).Draw(t, "alIdx")
		add("accessList", "drop-tuple", func(g *quaiFields) { g.al = append(g.al[:i:i], g.al[i+1:]...) })
		add("accessList", "addr-bit", func(g *quaiFields) { g.al[i].Address = flipAddr(t, g.al[i].Address, loc, "alAddrBit") })
		add("accessList", "add-key", func(g *quaiFields) { g.al[i].StorageKeys = append(g.al[i].StorageKeys, genHash(t, "newKey")) })
		if nk := len(f.al[i].StorageKeys); nk > 0 {
			k := rapid.IntRange(0, nk-1).Draw(t, "keyIdx")
			add("accessList", "drop-key", func(g *quaiFields) {
				g.al[i].StorageKeys = append(g.al[i].StorageKeys[:k:k], g.al[i].StorageKeys[k+1:]...)
			})
			add("accessList", "key-bit", func(g *quaiFields) { g.al[i].StorageKeys[k] = flipHash(t, g.al[i].StorageKeys[k], "keyBit") })
			if len(f.al) >= 2 {
				// the key changes owner: same multiset of addresses and keys, other grouping
				add("accessList", "move-key", func(g *quaiFields) {
					j := (i + 1) % len(g.al)
					key := g.al[i].StorageKeys[k]
					g.al[i].StorageKeys = append(g.al[i].StorageKeys[:k:k], g.al[i].StorageKeys[k+1:]...)
					g.al[j].StorageKeys = append(g.al[j].StorageKeys, key)
				})
			}
		}
		if len(f.al) >= 2 {
			j := (i + 1) % len(f.al)
			same := f.al[i].Address.Equal(f.al[j].Address) && len(f.al[i].StorageKeys) == len(f.al[j].StorageKeys)
			if same {
				for x := range f.al[i].StorageKeys {
					same = same && f.al[i].StorageKeys[x] == f.al[j].StorageKeys[x]
				}
			}
			if !same {
				add("accessList", "swap-tuples", func(g *quaiFields) { g.al[i], g.al[j] = g.al[j], g.al[i] })
			}
		}
	}
	return ms
}

// sigMutants returns the signature mutations of the signed transaction f (payload kept).
func sigMutants(t *rapid.T, f quaiFields, foreign *ecdsa.PrivateKey, foreignSigned quaiFields, loc common.Location) []quaiMutant {
	var ms []quaiMutant
	bad := func(kind string, edit func(g *quaiFields)) {
		g := f.clone()
		edit(&g)
		ms = append(ms, quaiMutant{field: "sig", kind: kind, f: g, mustError: true})
	}
	diff := func(kind string, edit func(g *quaiFields)) {
		g := f.clone()
		edit(&g)
		ms = append(ms, quaiMutant{field: "sig", kind: kind, f: g})
	}
	// zero
	bad("r=0", func(g *quaiFields) { g.r = new(big.Int) })
	bad("s=0", func(g *quaiFields) { g.s = new(big.Int) })
	bad("r=s=0", func(g *quaiFields) { g.r, g.s = new(big.Int), new(big.Int) })
	// out of range
	bad("r=N", func(g *quaiFields) { g.r = new(big.Int).Set(curveN) })
	bad("s=N", func(g *quaiFields) { g.s = new(big.Int).Set(curveN) })
	bad("r+N", func(g *quaiFields) { g.r.Add(g.r, curveN) }) // same residue, out of range
	bad("s+N", func(g *quaiFields) { g.s.Add(g.s, curveN) })
	bad("r=2^256-1", func(g *quaiFields) { g.r = new(big.Int).Sub(two256, big1) })
	bad("s=2^256-1", func(g *quaiFields) { g.s = new(big.Int).Sub(two256, big1) })
	bad("r+2^256", func(g *quaiFields) { g.r.Add(g.r, two256) }) // same low 32 bytes
	bad("s+2^256", func(g *quaiFields) { g.s.Add(g.s, two256) })
	// high S: (r, N-s, v^1) is the second valid ECDSA signature of the same key and payload
	bad("high-s,v^1", func(g *quaiFields) { g.s.Sub(curveN, g.s); g.v.Xor(g.v, big1) })
	bad("high-s", func(g *quaiFields) { g.s.Sub(curveN, g.s) })
	bad("s=halfN+1", func(g *quaiFields) { g.s.Add(curveHalfN, big1) })
	// V out of range
	vs := []*big.Int{big.NewInt(int64(rapid.IntRange(2, 255).Draw(t, "vAny"))), big.NewInt(2), big.NewInt(3), big.NewInt(27), big.NewInt(28),
		big.NewInt(229), big.NewInt(255), big.NewInt(256), big.NewInt(257),
		new(big.Int).Add(new(big.Int).Lsh(big1, 64), f.v),                            // same low 64 bits
		new(big.Int).Add(big.NewInt(35), new(big.Int).Mul(f.chainID, big.NewInt(2))), // EIP-155 style
		new(big.Int).Add(big.NewInt(36), new(big.Int).Mul(f.chainID, big.NewInt(2))), //
		new(big.Int).Add(new(big.Int).Lsh(big1, 8), f.v),                             // same low byte
	}
	for _, v := range vs {
		if v.IsUint64() && v.Uint64() <= 1 {
			continue
		}
		v := v
		bad("v="+vClass(v), func(g *quaiFields) { g.v = new(big.Int).Set(v) })
	}
	// other signatures: error or another sender
	diff("v^1", func(g *quaiFields) { g.v.Xor(g.v, big1) })
	diff("r-bit", func(g *quaiFields) { g.r = flipBig(t, g.r, 256, "rBit") })
	diff("s-bit", func(g *quaiFields) { g.s = flipBig(t, g.s, 256, "sBit") })
	diff("r<->s", func(g *quaiFields) { g.r, g.s = g.s, g.r })
	diff("r+1", func(g *quaiFields) { g.r.Add(g.r, big1) })
	diff("s-1", func(g *quaiFields) {
		if g.s.Cmp(big1) > 0 {
			g.s.Sub(g.s, big1)
		} else {
			g.s.Add(g.s, big1)
		}
	})
	// a different key signs the same payload: the sender must be that key's address
	fa := crypto.PubkeyToAddress(foreign.PublicKey, loc).Bytes20()
	ms = append(ms, quaiMutant{field: "sig", kind: "foreign-key", f: foreignSigned, otherSender: &fa})
	return ms
}

func vClass(v *big.Int) string {
	switch {
	case v.BitLen() > 64:
		return ">64bit"
	case v.BitLen() > 8:
		return "9..64bit"
	case v.Uint64()+27 > 255:
		return "229..255"
	default:
		return "2..228"
	}
}

// canon is the harness' own structural rendering of the transaction (nil and empty data /
// access list are the same transaction); "does the mutant differ" must not be decided with the
// encoder under test.
func (f quaiFields) canon() string {
	var b bytes.Buffer
	to := "create"
	if f.to != nil {
		to = fmt.Sprintf("%x", f.to.Bytes())
	}
	fmt.Fprintf(&b, "chain=%v|nonce=%d|price=%v|gas=%d|to=%s|value=%v|data=%x|al=", f.chainID, f.nonce, f.gasPrice, f.gas, to, f.value, f.data)
	for _, tup := range f.al {
		fmt.Fprintf(&b, "(%x:", tup.Address.Bytes())
		for _, k := range tup.StorageKeys {
			fmt.Fprintf(&b, "%x,", k[:])
		}
		b.WriteString(")")
	}
	if f.parentHash != nil {
		fmt.Fprintf(&b, "|work=%x,%x,%x", f.parentHash[:], f.mixHash[:], f.workNonce[:])
	}
	if f.v != nil {
		fmt.Fprintf(&b, "|v=%v|r=%v|s=%v", f.v, f.r, f.s)
	}
	return b.String()
}

func quaiWire(tx *types.Transaction) []byte {
	p, err := tx.ProtoEncode()
	if err != nil {
		return nil
	}
	b, _ := proto.MarshalOptions{Deterministic: true}.Marshal(p)
	return b
}

func sign(t fataler, f quaiFields, signer types.Signer, key *ecdsa.PrivateKey) quaiFields {
	signed, err := types.SignTx(f.tx(), signer, key)
	if err != nil {
		t.Fatalf("HARNESS: SignTx: %v", err)
	}
	g := f.clone()
	v, r, s := signed.GetEcdsaSignatureValues()
	g.v, g.r, g.s = new(big.Int).Set(v), new(big.Int).Set(r), new(big.Int).Set(s)
	return g
}

func isInternal(a common.Address) bool { _, err := a.InternalAddress(); return err == nil }

func TestC03_QuaiSender(t *testing.T) {
	const part = "quai"
	rapid.Check(t, func(t *rapid.T) {
		key := genKey(t, "key")
		loc := rapid.SampledFrom(zoneLocs).Draw(t, "loc")
		chainID := genChainID(t, "chainID")
		signer := types.NewSigner(chainID, loc)
		unsigned := genQuaiFields(t, chainID, loc)
		f := sign(t, unsigned, signer, key)
		want := crypto.PubkeyToAddress(key.PublicKey, loc)
		want20 := want.Bytes20()
		dump := func(m *quaiMutant, note string) map[string]any {
			d := map[string]any{"key": fmt.Sprintf("%x", key.D), "loc": loc.Name(), "signed": f.describe(), "expectedSender": want.Hex(), "note": note}
			if m != nil {
				d["mutant"] = m.field + "/" + m.kind
				d["mutantTx"] = m.f.describe()
			}
			return d
		}

		// (1) the signed transaction: sender = address of the signing key, first (uncached) and
		// second (cached) call, directly and after a wire round trip
		base := f.tx()
		for round, tag := range []string{"uncached", "cached"} {
			got, err := types.Sender(signer, base)
			if err != nil || got.Bytes20() != want20 || isInternal(got) != isInternal(want) {
				stats.Violation(t, part, "C03/quai/wrong-sender/"+tag, fmt.Sprintf("Sender(%s call) = %v, %v; want %v", tag, got, err, want.Hex()), dump(nil, fmt.Sprint("round ", round)))
			}
		}
		labels := []string{"valid", "loc_" + loc.Name()}
		baseWire := quaiWire(base)
		baseCanon := f.canon()
		{
			var pm types.ProtoTransaction
			dec := new(types.Transaction)
			if err := proto.Unmarshal(baseWire, &pm); err != nil {
				t.Fatalf("HARNESS: proto unmarshal of an encoded transaction: %v", err)
			}
			if err := dec.ProtoDecode(&pm, loc); err != nil {
				labels = append(labels, "wire_decode_refused") // availability, not authorisation
			} else if got, err := types.Sender(signer, dec); err != nil || got.Bytes20() != want20 {
				stats.Violation(t, part, "C03/quai/wrong-sender/wire", fmt.Sprintf("Sender(decoded) = %v, %v; want %v", got, err, want.Hex()), dump(nil, "after ProtoEncode/ProtoDecode"))
			}
		}
		baseHash := f.tx().Hash()
		if f.to == nil {
			labels = append(labels, "create")
		}
		if len(f.al) > 0 {
			labels = append(labels, "access_list")
		}
		stats.Case(part, "valid", true, labels...)
		if stats.WantSample(part) {
			stats.Sample(part, dump(nil, "valid"))
		}

		// (2) mutants
		other := otherChainID(t, chainID, "otherChain")
		otherSigner := types.NewSigner(other, loc)
		ms := fieldMutants(t, f, loc)
		relabel := f.clone()
		relabel.chainID = new(big.Int).Set(other)
		ms = append(ms,
			quaiMutant{field: "chainid", kind: "relabel@own", f: relabel},                        // tx says B, node is A
			quaiMutant{field: "chainid", kind: "relabel@other", f: relabel, signer: otherSigner}, // tx says B, node is B
			quaiMutant{field: "chainid", kind: "replay@other", f: f, signer: otherSigner},        // tx says A, node is B
		)
		foreign := genKey(t, "foreignKey")
		if foreign.D.Cmp(key.D) == 0 {
			foreign = keyFromScalar(new(big.Int).Add(new(big.Int).Mod(key.D, new(big.Int).Sub(curveN, big.NewInt(2))), big1))
		}
		ms = append(ms, sigMutants(t, f, foreign, sign(t, unsigned, signer, foreign), loc)...)

		for i := range ms {
			m := &ms[i]
			name := m.field + "/" + m.kind
			sg := m.signer
			if sg == nil {
				sg = signer
			}
			mtx := m.f.tx()
			changed := m.f.canon() != baseCanon
			differs := changed || m.signer != nil
			ml := []string{"mutant", "field_" + m.field}
			if m.mustError {
				ml = append(ml, "must_error")
			}
			stats.Case(part, fmt.Sprintf("%s|create=%v|al=%d|data=%d", name, f.to == nil, min(len(f.al), 2), min(len(f.data), 2)), differs, ml...)
			if !differs {
				continue // the edit did not change the transaction (not expected by construction)
			}
			got, err := types.Sender(sg, mtx)
			switch {
			case m.mustError && err == nil:
				stats.Violation(t, part, "C03/quai/bad-signature-accepted/"+name, fmt.Sprintf("Sender accepted signature mutation %s and returned %v", name, got.Hex()), dump(m, ""))
			case m.otherSender != nil:
				if err != nil || got.Bytes20() != *m.otherSender {
					stats.Violation(t, part, "C03/quai/wrong-sender/"+name, fmt.Sprintf("Sender = %v, %v for a transaction signed by another key (want %x)", got, err, m.otherSender[:]), dump(m, ""))
				}
			case err == nil && got.Bytes20() == want20:
				stats.Violation(t, part, "C03/quai/sender-unchanged/"+name, fmt.Sprintf("mutation %s still yields the original sender %v", name, want.Hex()), dump(m, ""))
			}
			// cached answer must be the same verdict
			got2, err2 := types.Sender(sg, mtx)
			if (err == nil) != (err2 == nil) || (err == nil && got.Bytes20() != got2.Bytes20()) {
				stats.Violation(t, part, "C03/quai/cache-changes-verdict/"+name, fmt.Sprintf("first Sender = %v,%v second = %v,%v", got, err, got2, err2), dump(m, ""))
			}
			if m.signer == nil || m.kind != "replay@other" {
				if h := mtx.Hash(); h == baseHash && changed {
					stats.Violation(t, part, "C03/quai/hash-collision/"+name, fmt.Sprintf("mutant %s has the transaction hash %x of the original (pool sender cache key)", name, h), dump(m, ""))
				}
			}
		}
	})
}

// TestC03_QuaiCache drives ONE transaction object through a drawn sequence of sender queries
// with signers of different chain IDs and node locations (plus the calls that fill the cache as
// a side effect: Hash, FromChain, AsMessage). The object is either a properly signed
// transaction or its cross-chain relabelling (chain ID field rewritten, signature kept).
func TestC03_QuaiCache(t *testing.T) {
	const part = "quai_cache"
	rapid.Check(t, func(t *rapid.T) {
		key := genKey(t, "key")
		loc0 := rapid.SampledFrom(zoneLocs).Draw(t, "loc")
		chainA := genChainID(t, "chainA")
		chainB := otherChainID(t, chainA, "chainB")
		chainC := new(big.Int).Add(new(big.Int).Add(chainA, chainB), big.NewInt(7))
		chains := []*big.Int{chainA, chainB, chainC}
		f := sign(t, genQuaiFields(t, chainA, loc0), types.NewSigner(chainA, loc0), key)
		want20 := crypto.PubkeyToAddress(key.PublicKey, loc0).Bytes20()
		relabelled := rapid.IntRange(0, 2).Draw(t, "object") == 0
		txChain := chainA
		if relabelled {
			f.chainID = new(big.Int).Set(chainB)
			txChain = chainB
		}
		tx := f.tx()
		var hist []string
		perChain := map[string]common.AddressBytes{} // successful answers by signer chain ID
		fail := func(fp, msg string) {
			stats.Violation(t, part, fp, msg, map[string]any{"key": fmt.Sprintf("%x", key.D), "tx": f.describe(), "relabelled": relabelled,
				"chainA": chainA.String(), "chainB": chainB.String(), "chainC": chainC.String(), "history": hist})
		}
		crossChain, crossLoc, afterHash := false, false, false
		lastOK := ""
		check := func(op string, c *big.Int, loc common.Location, got common.Address, err error) {
			hist = append(hist, fmt.Sprintf("%s(chain=%v,loc=%s) -> %x,%v", op, c, loc.Name(), got.Bytes(), err))
			if err != nil {
				if !relabelled && c.Cmp(chainA) == 0 {
					fail("C03/quai/cache/valid-refused", fmt.Sprintf("%s with the transaction's own chain ID failed: %v", op, err))
				}
				return
			}
			g := got.Bytes20()
			if !relabelled && c.Cmp(txChain) != 0 {
				// the signed transaction got a sender on a chain it does not name (replay)
				fail("C03/quai/cache/foreign-chain-sender", fmt.Sprintf("%s with signer chain %v returned %x for a transaction whose chain ID is %v", op, c, g[:], txChain))
			}
			for oc, a := range perChain {
				if oc != c.String() && a == g {
					fail("C03/quai/cache/sender-reused-across-chains", fmt.Sprintf("%s with chain %v returned %x, the answer previously given for chain %s", op, c, g[:], oc))
				}
			}
			perChain[c.String()] = g
			if !relabelled && g != want20 {
				fail("C03/quai/cache/wrong-sender", fmt.Sprintf("%s returned %x want %x", op, g[:], want20[:]))
			}
			if relabelled && g == want20 {
				fail("C03/quai/cache/relabelled-keeps-sender", fmt.Sprintf("%s returned the original signer %x for the relabelled transaction", op, g[:]))
			}
			if isInternal(got) != common.IsInChainScope(g[:], loc) {
				fail("C03/quai/cache/wrong-location-class", fmt.Sprintf("%s at %s: internal=%v but in-scope=%v", op, loc.Name(), isInternal(got), common.IsInChainScope(g[:], loc)))
			}
			if lastOK != "" && lastOK != loc.Name() {
				crossLoc = true
			}
			lastOK = loc.Name()
		}
		n := rapid.IntRange(2, 8).Draw(t, "steps")
		for i := 0; i < n; i++ {
			c := rapid.SampledFrom(chains).Draw(t, "signerChain")
			loc := rapid.SampledFrom(zoneLocs).Draw(t, "signerLoc")
			if len(perChain) > 0 && c.Cmp(txChain) != 0 {
				crossChain = true
			}
			switch rapid.SampledFrom([]string{"sender", "sender", "sender", "hash", "hashloc", "asmessage", "asmessage-block", "from"}).Draw(t, "op") {
			case "sender":
				got, err := types.Sender(types.NewSigner(c, loc), tx)
				check("Sender", c, loc, got, err)
			case "asmessage":
				msg, err := tx.AsMessage(types.NewSigner(c, loc), big.NewInt(1))
				check("AsMessage", c, loc, msg.From(), err)
			case "asmessage-block":
				// what block processing calls for a transaction the pool's sender cache does not know
				msg, err := tx.AsMessageWithSender(types.NewSigner(c, loc), big.NewInt(1), nil)
				check("AsMessageWithSender(nil)", c, loc, msg.From(), err)
			case "hash":
				tx.Hash()
				afterHash = true
				hist = append(hist, "Hash()")
			case "hashloc":
				tx.Hash(loc...)
				hist = append(hist, "Hash(loc)")
			case "from":
				if a := tx.From(loc); a != nil {
					hist = append(hist, fmt.Sprintf("From(%s) -> %x", loc.Name(), a.Bytes()))
					if !relabelled && a.Bytes20() != want20 {
						fail("C03/quai/cache/wrong-sender", fmt.Sprintf("From returned %x want %x", a.Bytes(), want20[:]))
					}
					if relabelled && a.Bytes20() == want20 {
						fail("C03/quai/cache/relabelled-keeps-sender", fmt.Sprintf("From returned the original signer for the relabelled transaction"))
					}
				}
			}
		}
		labels := []string{}
		if relabelled {
			labels = append(labels, "relabelled")
		}
		if crossChain {
			labels = append(labels, "other_chain_after_cached")
		}
		if crossLoc {
			labels = append(labels, "other_location_after_cached")
		}
		if afterHash {
			labels = append(labels, "hash_warmed")
		}
		stats.Case(part, fmt.Sprintf("relabelled=%v/xchain=%v/xloc=%v/hash=%v/n=%d", relabelled, crossChain, crossLoc, afterHash, n), crossChain || crossLoc, labels...)
		if (crossChain || crossLoc) && stats.WantSample(part) {
			stats.Sample(part, hist)
		}
	})
}
