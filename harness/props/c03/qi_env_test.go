package c03

import (
	"bytes"
	"crypto/ecdsa"
	"errors"
	"fmt"
	"math/big"
	"sync"

	"github.com/btcsuite/btcd/btcec/v2"
	"github.com/btcsuite/btcd/btcec/v2/schnorr"
	"github.com/btcsuite/btcd/btcec/v2/schnorr/musig2"
	"github.com/dominant-strategies/go-quai/common"
	"github.com/dominant-strategies/go-quai/consensus"
	"github.com/dominant-strategies/go-quai/core"
	"github.com/dominant-strategies/go-quai/core/rawdb"
	"github.com/dominant-strategies/go-quai/core/types"
	"github.com/dominant-strategies/go-quai/crypto"
	"github.com/dominant-strategies/go-quai/ethdb"
	"github.com/dominant-strategies/go-quai/params"

	"verifharness/stats"
)

var logger = nullLogger()

// ---- keys ------------------------------------------------------------------------------------

type qiKey struct {
	priv  *ecdsa.PrivateKey
	btc   *btcec.PrivateKey
	pub65 []byte // uncompressed, as carried by TxIn.PubKey
	addr  common.AddressBytes
	name  string
}

func newQiKey(k *ecdsa.PrivateKey, loc common.Location, name string) *qiKey {
	b := make([]byte, 32)
	k.D.FillBytes(b)
	bk, _ := btcec.PrivKeyFromBytes(b)
	return &qiKey{priv: k, btc: bk, pub65: crypto.FromECDSAPub(&k.PublicKey), addr: crypto.PubkeyToAddress(k.PublicKey, loc).Bytes20(), name: name}
}

// qiPool holds keys whose addresses lie in the Qi ledger of one zone. Finding such a key takes
// ~512 tries, so a pool is ground once per process; it depends on (VERIF_SEED, shard) so that
// different runs use different keys while a replay reproduces them.
type qiPool struct {
	loc       common.Location
	owners    []*qiKey
	attackers []*qiKey
	quai      []*qiKey // keys whose address is in the Quai ledger of the zone (pool test)
}

const (
	nOwnerKeys    = 6
	nAttackerKeys = 3
	nQuaiKeys     = 3
)

var (
	poolMu sync.Mutex
	pools  = map[string]*qiPool{}
)

func poolFor(loc common.Location) *qiPool {
	poolMu.Lock()
	defer poolMu.Unlock()
	if p, ok := pools[loc.Name()]; ok {
		return p
	}
	p := &qiPool{loc: loc}
	seed := uint64(stats.Seed())<<16 | uint64(stats.Shard())
	ctr := uint64(0)
	for len(p.owners)+len(p.attackers) < nOwnerKeys+nAttackerKeys || len(p.quai) < nQuaiKeys {
		k := derivedKey("c03-qi-pool", seed, uint64(loc[0])<<8|uint64(loc[1]), ctr)
		ctr++
		a := crypto.PubkeyToAddress(k.PublicKey, loc)
		if _, err := a.InternalAndQuaiAddress(); err == nil && len(p.quai) < nQuaiKeys {
			p.quai = append(p.quai, newQiKey(k, loc, fmt.Sprintf("quai%d", len(p.quai))))
			continue
		}
		if _, err := a.InternalAndQiAddress(); err != nil || len(p.owners)+len(p.attackers) >= nOwnerKeys+nAttackerKeys {
			continue
		}
		if len(p.owners) < nOwnerKeys {
			p.owners = append(p.owners, newQiKey(k, loc, fmt.Sprintf("owner%d", len(p.owners))))
		} else {
			p.attackers = append(p.attackers, newQiKey(k, loc, fmt.Sprintf("attacker%d", len(p.attackers))))
		}
	}
	pools[loc.Name()] = p
	return p
}

// ---- chain stub --------------------------------------------------------------------------------

type stubChain struct{ pt *types.WorkObject }

func (s *stubChain) Engine(*types.WorkObjectHeader) consensus.Engine          { return nil }
func (s *stubChain) GetHeaderOrCandidateByHash(common.Hash) *types.WorkObject { return s.pt }
func (s *stubChain) NodeCtx() int                                             { return common.ZONE_CTX }
func (s *stubChain) IsGenesisHash(common.Hash) bool                           { return false }
func (s *stubChain) GetHeaderByHash(common.Hash) *types.WorkObject            { return s.pt }
func (s *stubChain) GetBlockByHash(common.Hash) *types.WorkObject             { return s.pt }
func (s *stubChain) CheckIfEtxIsEligible(common.Hash, common.Location) bool   { return true }
func (s *stubChain) CheckInCalcOrderCache(common.Hash) (*big.Int, int, bool)  { return nil, 0, false }
func (s *stubChain) AddToCalcOrderCache(common.Hash, int, *big.Int)           {}
func (s *stubChain) CalcBaseFee(*types.WorkObject) *big.Int                   { return big.NewInt(1) }
func (s *stubChain) CalcOrder(*types.WorkObject) (*big.Int, int, error) {
	return big.NewInt(0), common.ZONE_CTX, nil
}

// locDB makes the in-memory database report the node location like the disk databases do.
type locDB struct {
	ethdb.Database
	loc common.Location
}

func (d locDB) Location() common.Location { return d.loc }

// qiEnv is one zone node as far as Qi transaction validation can see it: a UTXO database, the
// header the transaction would be included under and the prime terminus (exchange rate).
type qiEnv struct {
	loc   common.Location
	db    ethdb.Database
	chain *stubChain
	hdr   *types.WorkObject
}

func newQiEnv(loc common.Location, primeTerminusNumber uint64) *qiEnv {
	pt := types.EmptyZoneWorkObject()
	pt.Header().SetExchangeRate(params.ExchangeRate)
	hdr := types.EmptyZoneWorkObject()
	hdr.WorkObjectHeader().SetLocation(loc)
	hdr.WorkObjectHeader().SetNumber(big.NewInt(100))
	hdr.SetNumber(big.NewInt(100), common.ZONE_CTX)
	hdr.WorkObjectHeader().SetDifficulty(big.NewInt(1000000))
	hdr.WorkObjectHeader().SetPrimeTerminusNumber(new(big.Int).SetUint64(primeTerminusNumber))
	hdr.Header().SetBaseFee(big.NewInt(1))
	hdr.Header().SetGasLimit(12000000)
	return &qiEnv{loc: loc, db: locDB{rawdb.NewMemoryDatabase(logger), loc}, chain: &stubChain{pt}, hdr: hdr}
}

func (e *qiEnv) addUTXO(op types.OutPoint, denom uint8, owner []byte) error {
	return rawdb.CreateUTXO(e.db, op.TxHash, op.Index, types.NewUtxoEntry(types.NewTxOut(denom, owner, big.NewInt(0))))
}

// process runs the block-processing entry point with the signature check enabled, exactly as
// StateProcessor.Process does for a transaction that is not in the pool's sender cache. Nothing
// is written: the batch is dropped.
func (e *qiEnv) process(tx *types.Transaction, nodeChainID *big.Int, firstQiTx bool) (err error) {
	defer func() {
		if r := recover(); r != nil {
			err = fmt.Errorf("panic: %v", r)
		}
	}()
	batch := e.db.NewBatch()
	batch.SetPending(true)
	gp := new(types.GasPool).AddGas(e.hdr.GasLimit())
	used := uint64(0)
	rl, pl := params.ETXRLimitMin, params.ETXPLimitMin
	ucd := new(core.UtxosCreatedDeleted)
	_, _, _, err, _ = core.ProcessQiTx(tx, e.chain, true, firstQiTx, e.hdr, batch, e.db, gp, &used,
		types.NewSigner(nodeChainID, e.loc), e.loc, *nodeChainID, 1.0, &rl, &pl, ucd, big.NewInt(0), big.NewInt(0), false)
	return err
}

// poolValidate runs the two validation calls TxPool.addQiTxs makes, with the limits it derives
// for an empty current block.
func (e *qiEnv) poolValidate(tx *types.Transaction, nodeChainID *big.Int) (err error) {
	defer func() {
		if r := recover(); r != nil {
			err = fmt.Errorf("panic: %v", r)
		}
	}()
	signer := types.NewSigner(nodeChainID, e.loc)
	totalIn, err := core.ValidateQiTxInputs(tx, e.chain, e.db, e.hdr, signer, e.loc, *nodeChainID)
	if err != nil {
		return err
	}
	_, err = core.ValidateQiTxOutputsAndSignature(tx, e.chain, totalIn, e.hdr, signer, e.loc, *nodeChainID, 1.0, params.ETXRLimitMin, params.ETXPLimitMin)
	return err
}

// ---- signing -----------------------------------------------------------------------------------

func pubsOf(keys []*qiKey) []*btcec.PublicKey {
	out := make([]*btcec.PublicKey, len(keys))
	for i, k := range keys {
		out[i] = k.btc.PubKey()
	}
	return out
}

// signQi produces the signature a wallet holding all of keys makes for digest: plain BIP-340
// for one key, a MuSig2 session (deterministic nonces derived from nonceSeed) for several.
func signQi(keys []*qiKey, digest common.Hash, nonceSeed []byte) (*schnorr.Signature, error) {
	if len(keys) == 0 {
		return nil, errors.New("no keys")
	}
	if len(keys) == 1 {
		return schnorr.Sign(keys[0].btc, digest[:])
	}
	pubs := pubsOf(keys)
	nonces := make([]*musig2.Nonces, len(keys))
	pubNonces := make([][musig2.PubNonceSize]byte, len(keys))
	for i, k := range keys {
		r := crypto.Keccak256(nonceSeed, []byte{byte(i)}, digest[:], k.pub65)
		n, err := musig2.GenNonces(musig2.WithCustomRand(bytes.NewReader(r)), musig2.WithPublicKey(k.btc.PubKey()))
		if err != nil {
			return nil, err
		}
		nonces[i] = n
		pubNonces[i] = n.PubNonce
	}
	agg, err := musig2.AggregateNonces(pubNonces)
	if err != nil {
		return nil, err
	}
	partials := make([]*musig2.PartialSignature, len(keys))
	for i, k := range keys {
		ps, err := musig2.Sign(nonces[i].SecNonce, k.btc, agg, pubs, [32]byte(digest))
		if err != nil {
			return nil, err
		}
		partials[i] = ps
	}
	return musig2.CombineSigs(partials[0].R, partials), nil
}

// verifyAgainst is the reference verdict the harness uses to make sure its own signatures are
// good before blaming the code under test: BIP-340 verify against the (aggregated) key.
func verifyAgainst(keys []*qiKey, digest common.Hash, sig *schnorr.Signature) bool {
	var fk *btcec.PublicKey
	if len(keys) == 1 {
		fk = keys[0].btc.PubKey()
	} else {
		agg, _, _, err := musig2.AggregateKeys(pubsOf(keys), false)
		if err != nil {
			return false
		}
		fk = agg.FinalKey
	}
	return sig.Verify(digest[:], fk)
}
