package c03

import (
	"fmt"
	"math/big"
	"sync"
	"testing"
	"time"

	"github.com/dominant-strategies/go-quai/common"
	"github.com/dominant-strategies/go-quai/consensus"
	"github.com/dominant-strategies/go-quai/core"
	"github.com/dominant-strategies/go-quai/core/rawdb"
	"github.com/dominant-strategies/go-quai/core/state"
	"github.com/dominant-strategies/go-quai/core/types"
	"github.com/dominant-strategies/go-quai/event"
	"github.com/dominant-strategies/go-quai/params"
	"pgregory.net/rapid"

	"verifharness/stats"
)

// Pool sender cache (property anchor "pool sender cache: tx hash -> sender, used to skip
// signature checks during block processing"). StateProcessor.Process takes the sender of a Quai
// transaction from TxPool.PeekSenderNoLock(tx.Hash()) when it is there and then does not call
// types.Sender at all, so an entry in that cache stands for "types.Sender(node signer, tx)
// succeeded and returned this address". The check feeds a real TxPool transactions signed for
// the node's chain and for other chains and afterwards compares every cache entry with that
// definition.

type poolChain struct {
	head *types.WorkObject
	sdb  state.Database
	root common.Hash
	loc  common.Location
	feed event.Feed
}

func (s *poolChain) CurrentBlock() *types.WorkObject                { return s.head }
func (s *poolChain) GetBlock(common.Hash, uint64) *types.WorkObject { return s.head }
func (s *poolChain) StateAt(root, etxRoot common.Hash, size *big.Int) (*state.StateDB, error) {
	return state.New(s.root, types.EmptyRootHash, big.NewInt(0), s.sdb, s.sdb, nil, s.loc, logger)
}
func (s *poolChain) SubscribeChainHeadEvent(ch chan<- core.ChainHeadEvent) event.Subscription {
	return s.feed.Subscribe(ch)
}
func (s *poolChain) IsGenesisHash(common.Hash) bool                           { return false }
func (s *poolChain) CheckIfEtxIsEligible(common.Hash, common.Location) bool   { return true }
func (s *poolChain) Engine(*types.WorkObjectHeader) consensus.Engine          { return nil }
func (s *poolChain) GetHeaderOrCandidateByHash(common.Hash) *types.WorkObject { return s.head }
func (s *poolChain) NodeCtx() int                                             { return common.ZONE_CTX }
func (s *poolChain) GetHeaderByHash(common.Hash) *types.WorkObject            { return s.head }
func (s *poolChain) GetBlockByHash(common.Hash) *types.WorkObject             { return s.head }
func (s *poolChain) GetMaxTxInWorkShare() uint64                              { return 100 }
func (s *poolChain) CheckInCalcOrderCache(common.Hash) (*big.Int, int, bool)  { return nil, 0, false }
func (s *poolChain) AddToCalcOrderCache(common.Hash, int, *big.Int)           {}
func (s *poolChain) CalcBaseFee(*types.WorkObject) *big.Int                   { return big.NewInt(1) }
func (s *poolChain) CalcOrder(*types.WorkObject) (*big.Int, int, error) {
	return big.NewInt(0), common.ZONE_CTX, nil
}

var (
	poolChainMu sync.Mutex
	poolChains  = map[string]*poolChain{}
)

// poolChainFor builds (once per zone) a head block whose state funds the zone's Quai keys.
func poolChainFor(t fataler, loc common.Location) *poolChain {
	poolChainMu.Lock()
	defer poolChainMu.Unlock()
	if c, ok := poolChains[loc.Name()]; ok {
		return c
	}
	sdb := state.NewDatabase(rawdb.NewMemoryDatabase(logger))
	st, err := state.New(types.EmptyRootHash, types.EmptyRootHash, big.NewInt(0), sdb, sdb, nil, loc, logger)
	if err != nil {
		t.Fatalf("HARNESS: state.New: %v", err)
	}
	for _, k := range poolFor(loc).quai {
		ia, err := common.Bytes20ToAddress(k.addr, loc).InternalAndQuaiAddress()
		if err != nil {
			t.Fatalf("HARNESS: quai key not internal: %v", err)
		}
		st.AddBalance(ia, new(big.Int).Lsh(big1, 100))
	}
	root, err := st.Commit(true)
	if err != nil {
		t.Fatalf("HARNESS: state commit: %v", err)
	}
	head := types.EmptyZoneWorkObject()
	head.WorkObjectHeader().SetLocation(loc)
	head.WorkObjectHeader().SetNumber(big.NewInt(100))
	head.SetNumber(big.NewInt(100), common.ZONE_CTX)
	head.Header().SetBaseFee(big.NewInt(1))
	head.Header().SetGasLimit(12000000)
	head.Header().SetEVMRoot(root)
	c := &poolChain{head: head, sdb: sdb, root: root, loc: loc}
	poolChains[loc.Name()] = c
	return c
}

// fpPoolForeign: TxPool.validateTx trusts tx.From() (filled as a side effect of tx.Hash() with a
// signer built from the transaction's OWN chain ID) and queues the sender for the cache before
// TxPool.add finds out, via types.Sender(pool.signer, tx), that the chain ID is wrong.
const fpPoolForeign = "C03/pool/sender-cached-for-foreign-chain-tx"

type poolTx struct {
	name    string
	tx      *types.Transaction
	fields  quaiFields
	foreign bool // signed for (or relabelled to) a chain other than the node's
}

func TestC03_PoolSenderCache(t *testing.T) {
	const part = "pool"
	rapid.Check(t, func(t *rapid.T) {
		loc := rapid.SampledFrom(qiLocs).Draw(t, "loc")
		keys := poolFor(loc).quai
		chain := poolChainFor(t, loc)
		nodeChain := genChainID(t, "nodeChain")
		cfg := core.DefaultTxPoolConfig
		cfg.Journal = ""
		chainCfg := &params.ChainConfig{ChainID: nodeChain, Location: loc}
		pool := core.NewTxPool(cfg, chainCfg, chain, logger, rawdb.NewMemoryDatabase(logger))
		defer pool.Stop()
		nodeSigner := types.NewSigner(nodeChain, loc)

		mk := func(label string, key *qiKey, txChain *big.Int, nonce uint64) quaiFields {
			to := common.BytesToAddress(append([]byte{loc.BytePrefix(), 0x00}, rapid.SliceOfN(rapid.Byte(), 18, 18).Draw(t, label+"To")...), loc)
			f := quaiFields{chainID: new(big.Int).Set(txChain), nonce: nonce, gasPrice: big.NewInt(int64(rapid.IntRange(1, 1000).Draw(t, label+"Price"))),
				gas: uint64(rapid.IntRange(60000, 200000).Draw(t, label+"Gas")), to: &to, value: big.NewInt(int64(rapid.IntRange(0, 1000).Draw(t, label+"Value"))),
				data: rapid.SliceOfN(rapid.Byte(), 0, 40).Draw(t, label+"Data")}
			return sign(t, f, types.NewSigner(txChain, loc), key.priv)
		}
		kinds := []string{"own", "foreign", "foreign", "relabel", "own-sigflip"}
		if stats.IsKnown(fpPoolForeign) {
			stats.Excluded(fpPoolForeign) // known finding: validly signed foreign-chain transactions are left out
			kinds = []string{"own", "relabel", "own-sigflip"}
		}
		var txs []poolTx
		n := rapid.IntRange(1, 4).Draw(t, "nTx")
		nonces := map[*qiKey]uint64{}
		for i := 0; i < n; i++ {
			key := keys[rapid.IntRange(0, len(keys)-1).Draw(t, "key")]
			label := fmt.Sprintf("tx%d", i)
			switch kind := rapid.SampledFrom(kinds).Draw(t, label+"Kind"); kind {
			case "own":
				f := mk(label, key, nodeChain, nonces[key])
				nonces[key]++
				txs = append(txs, poolTx{name: kind, tx: f.tx(), fields: f})
			case "foreign": // a transaction the key holder made for another chain
				f := mk(label, key, otherChainID(t, nodeChain, label+"Chain"), nonces[key])
				txs = append(txs, poolTx{name: kind, tx: f.tx(), fields: f, foreign: true})
			case "relabel": // that transaction with its chain ID field rewritten to the node's
				f := mk(label, key, otherChainID(t, nodeChain, label+"Chain"), nonces[key])
				f.chainID = new(big.Int).Set(nodeChain)
				txs = append(txs, poolTx{name: kind, tx: f.tx(), fields: f})
			case "own-sigflip":
				f := mk(label, key, nodeChain, nonces[key])
				f.v = new(big.Int).Xor(f.v, big1)
				txs = append(txs, poolTx{name: kind, tx: f.tx(), fields: f})
			}
		}
		// delivery: like the p2p handler (AddRemotes) or like the RPC (AddLocal)
		var errs []error
		if rapid.Bool().Draw(t, "asLocal") {
			for _, p := range txs {
				errs = append(errs, pool.AddLocal(p.tx))
			}
		} else {
			list := make([]*types.Transaction, len(txs))
			for i, p := range txs {
				list[i] = p.tx
			}
			errs = pool.AddRemotesSync(list)
		}
		// sentinel: a good transaction goes in last; the sender channel is FIFO with a single
		// consumer, so once the sentinel's entry is visible every earlier entry has been stored
		sk := keys[0]
		sf := mk("sentinel", sk, nodeChain, nonces[sk])
		sentinel := sf.tx()
		if err := pool.AddRemotesSync([]*types.Transaction{sentinel})[0]; err != nil {
			t.Fatalf("HARNESS: sentinel transaction refused: %v", err)
		}
		deadline := time.Now().Add(5 * time.Second)
		for {
			if _, ok := pool.PeekSender(sentinel.Hash()); ok {
				break
			}
			if time.Now().After(deadline) {
				t.Fatalf("HARNESS: sentinel sender never reached the pool's sender cache")
			}
			time.Sleep(200 * time.Microsecond)
		}
		for i, p := range txs {
			cached, ok := pool.PeekSender(p.tx.Hash())
			labels := []string{"tx_" + p.name}
			if ok {
				labels = append(labels, "cached", "cached_"+p.name)
			}
			if errs[i] == nil {
				labels = append(labels, "accepted_"+p.name)
			}
			stats.Case(part, fmt.Sprintf("%s/cached=%v/accepted=%v", p.name, ok, errs[i] == nil), p.name != "own", labels...)
			if !ok {
				continue
			}
			// what block processing would have computed without the cache
			real, err := types.Sender(nodeSigner, p.fields.tx())
			dump := map[string]any{"loc": loc.Name(), "nodeChainID": nodeChain.String(), "tx": p.fields.describe(), "kind": p.name,
				"poolError": fmt.Sprint(errs[i]), "cachedSender": cached.Hex(), "realSender": fmt.Sprintf("%v / %v", real, err)}
			if err != nil {
				fp := "C03/pool/sender-cached-for-invalid-tx"
				if p.foreign {
					fp = fpPoolForeign
				}
				stats.Violation(t, part, fp, fmt.Sprintf("pool (chain %v) caches sender %s for a %s transaction with chain ID %v although Sender(node signer, tx) fails with %q (pool verdict: %v)",
					nodeChain, cached.Hex(), p.name, p.fields.chainID, err, errs[i]), dump)
			} else if real.Bytes20() != common.AddressBytes(cached) {
				stats.Violation(t, part, "C03/pool/wrong-sender-cached", fmt.Sprintf("pool caches %s, Sender gives %s", cached.Hex(), real.Hex()), dump)
			}
		}
	})
}
