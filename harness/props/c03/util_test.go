// C03 — only the key holder can authorise a transaction; no replay across chains.
// Shared helpers: deterministic key material, locations, chain IDs, logger.
package c03

import (
	"crypto/ecdsa"
	"encoding/binary"
	"fmt"
	"io"
	"math/big"

	"github.com/dominant-strategies/go-quai/common"
	"github.com/dominant-strategies/go-quai/crypto"
	"github.com/dominant-strategies/go-quai/log"
	"github.com/sirupsen/logrus"
	"pgregory.net/rapid"
)

var (
	curveN     = crypto.S256().Params().N
	curveHalfN = new(big.Int).Rsh(curveN, 1)
	big1       = big.NewInt(1)
	two256     = new(big.Int).Lsh(big1, 256)
)

// fataler is what helpers need from *rapid.T or *testing.T.
type fataler interface {
	Fatalf(format string, args ...any)
}

func nullLogger() *log.Logger {
	l := logrus.New()
	l.SetOutput(io.Discard)
	l.SetLevel(logrus.PanicLevel)
	l.ExitFunc = func(int) { panic("HARNESS: logger.Fatal called") }
	return l
}

// zone locations used as node locations (region, zone).
var zoneLocs = []common.Location{{0, 0}, {0, 1}, {1, 0}, {2, 2}, {1, 2}}

// chain IDs: the network IDs shipped in params plus boundary shapes.
var chainIDs = []*big.Int{
	big.NewInt(1), big.NewInt(9), big.NewInt(1337), big.NewInt(9000), big.NewInt(12000), big.NewInt(15000), big.NewInt(17000),
	big.NewInt(255), big.NewInt(256), big.NewInt(2), new(big.Int).SetUint64(^uint64(0)),
	new(big.Int).Add(new(big.Int).Lsh(big1, 64), big.NewInt(9)), // same low 64 bits as 9
	new(big.Int).Lsh(big1, 200),
}

func genChainID(t *rapid.T, label string) *big.Int {
	switch rapid.IntRange(0, 11).Draw(t, label+"Kind") {
	case 0:
		b := rapid.SliceOfN(rapid.Byte(), 1, 12).Draw(t, label+"Bytes")
		return new(big.Int).SetBytes(b)
	case 1:
		// zero: the value the signing helpers treat as "chain ID not specified" - a transaction
		// carrying it must still not be attributed to its signer by any other chain's signer
		return new(big.Int)
	}
	return new(big.Int).Set(rapid.SampledFrom(chainIDs).Draw(t, label))
}

// otherChainID returns a chain ID different from c; the interesting neighbours come first.
func otherChainID(t *rapid.T, c *big.Int, label string) *big.Int {
	cands := []*big.Int{
		new(big.Int).Add(c, big1),
		new(big.Int).Add(c, new(big.Int).Lsh(big1, 64)),  // equal modulo 2^64
		new(big.Int).Add(c, new(big.Int).Lsh(big1, 256)), // equal modulo 2^256
		new(big.Int).Lsh(c, 8),                           // same bytes followed by a zero byte
		new(big.Int).Mul(c, big.NewInt(2)),
	}
	if c.Cmp(big1) > 0 {
		cands = append(cands, new(big.Int).Sub(c, big1))
	}
	if c.Sign() != 0 {
		cands = append(cands, new(big.Int)) // the "unspecified" chain ID
	}
	for _, o := range chainIDs {
		cands = append(cands, new(big.Int).Set(o))
	}
	var diff []*big.Int
	for _, o := range cands {
		if o.Cmp(c) != 0 {
			diff = append(diff, o)
		}
	}
	return rapid.SampledFrom(diff).Draw(t, label)
}

// scalarFromBytes maps 32 bytes onto [1, N-1].
func scalarFromBytes(b []byte) *big.Int {
	x := new(big.Int).SetBytes(b)
	x.Mod(x, new(big.Int).Sub(curveN, big1))
	return x.Add(x, big1)
}

func keyFromScalar(d *big.Int) *ecdsa.PrivateKey {
	buf := make([]byte, 32)
	d.FillBytes(buf)
	k, err := crypto.ToECDSA(buf)
	if err != nil {
		panic(fmt.Sprintf("HARNESS: ToECDSA(%x): %v", buf, err))
	}
	return k
}

// genKey draws a secp256k1 private key; boundary scalars are mixed in.
func genKey(t *rapid.T, label string) *ecdsa.PrivateKey {
	switch rapid.IntRange(0, 15).Draw(t, label+"Kind") {
	case 0:
		return keyFromScalar(big.NewInt(int64(rapid.IntRange(1, 3).Draw(t, label+"Small"))))
	case 1:
		return keyFromScalar(new(big.Int).Sub(curveN, big.NewInt(int64(rapid.IntRange(1, 3).Draw(t, label+"Top")))))
	}
	return keyFromScalar(scalarFromBytes(rapid.SliceOfN(rapid.Byte(), 32, 32).Draw(t, label)))
}

// derivedKey is a deterministic key stream (keccak of a domain string and counters); used
// for the pools of Qi keys that have to be ground into a given zone and ledger.
func derivedKey(domain string, a, b, c uint64) *ecdsa.PrivateKey {
	var buf [24]byte
	binary.BigEndian.PutUint64(buf[0:], a)
	binary.BigEndian.PutUint64(buf[8:], b)
	binary.BigEndian.PutUint64(buf[16:], c)
	return keyFromScalar(scalarFromBytes(crypto.Keccak256([]byte(domain), buf[:])))
}

func hexShort(b []byte) string {
	if len(b) > 8 {
		return fmt.Sprintf("%x..(%d)", b[:8], len(b))
	}
	return fmt.Sprintf("%x", b)
}
