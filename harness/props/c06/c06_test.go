// C06 — block execution is deterministic and header commitments equal stored state.
// Generated multi-level histories (Quai, Qi, conversions, lockups, claims, trimming) are mined on
// an in-memory hierarchy; every block is (a) re-executed several times on its parent under
// different cache warmth / GOMAXPROCS and the results compared, (b) followed by a full database
// scan that must reproduce the header's UTXO root and set size and open its state roots; the
// same blocks are then replayed on a second hierarchy with another storage engine and the
// stored state compared record by record (DESIGN.md §4 C06).
package c06

import (
	"fmt"
	"runtime"
	"sort"
	"strings"
	"testing"

	"github.com/dominant-strategies/go-quai/common"
	"github.com/dominant-strategies/go-quai/core/rawdb"
	"github.com/dominant-strategies/go-quai/core/types"
	"github.com/dominant-strategies/go-quai/trie"
	"pgregory.net/rapid"

	"verifharness/sim"
	"verifharness/stats"
)

const part = "history"

type procResult struct {
	receiptRoot, etxRoot, stateRoot, etxSetRoot, multiset common.Hash
	gas, stateUsed, setSize                              uint64
	nEtx                                                 int
	err                                                  string
}

func (r procResult) String() string {
	return fmt.Sprintf("{receipts %x etxs %x(%d) evm %x etxset %x multiset %x gas %d state %d size %d err %q}", r.receiptRoot[:4], r.etxRoot[:4], r.nEtx, r.stateRoot[:4], r.etxSetRoot[:4], r.multiset[:4], r.gas, r.stateUsed, r.setSize, r.err)
}

func process(nd *sim.Node, block *types.WorkObject) procResult {
	batch := nd.DB.NewBatch()
	receipts, etxs, _, statedb, gas, stateUsed, size, ms, _, err := nd.Core.Processor().Process(block, batch)
	if err != nil {
		return procResult{err: err.Error()}
	}
	r := procResult{gas: gas, stateUsed: stateUsed, setSize: size, nEtx: len(etxs)}
	r.receiptRoot = types.DeriveSha(receipts, trie.NewStackTrie(nil))
	r.etxRoot = types.DeriveSha(types.Transactions(etxs), trie.NewStackTrie(nil))
	r.stateRoot = statedb.IntermediateRoot(true)
	r.etxSetRoot = statedb.ETXRoot()
	r.multiset = ms.Hash()
	return r
}

func kinds(b *sim.Block, nd *sim.Node) []string {
	set := map[string]bool{}
	for _, tx := range b.Zone().Transactions() {
		switch tx.Type() {
		case types.QiTxType:
			set["qi"] = true
		case types.QuaiTxType:
			set["quai"] = true
		case types.ExternalTxType:
			set[fmt.Sprintf("etx%d", tx.EtxType())] = true
			if tx.EtxType() == types.CoinbaseType && len(tx.Data()) > 33 {
				set["lockup"] = true
			}
		}
	}
	if tr, err := rawdb.ReadTrimmedUTXOs(nd.DB, b.Zone().Hash()); err == nil && len(tr) > 0 {
		set["trim"] = true
	}
	var out []string
	for k := range set {
		out = append(out, k)
	}
	sort.Strings(out)
	return out
}

func TestC06_History(t *testing.T) {
	procs := runtime.GOMAXPROCS(0)
	defer runtime.GOMAXPROCS(procs)
	rapid.Check(t, func(t *rapid.T) {
		other := rapid.SampledFrom([]string{"memory", "leveldb", "pebble", "memory", "none"}).Draw(t, "replayBackend")
		n, err := sim.NewNet(sim.Options{})
		if err != nil {
			t.Fatalf("HARNESS: net: %v", err)
		}
		defer n.Close()
		a := sim.NewActor(n)
		if rapid.IntRange(0, 3).Draw(t, "lockupHeavy") == 0 {
			a.StickyPct = 70 // most block rewards go to one contract-held lockup tranche (overwrites of lockup records)
			stats.Label(part, "lockup_heavy")
		}
		dump := func() any { return map[string]any{"replay_backend": other, "history": a.Log} }
		zone := n.Nodes[sim.Zone]
		allKinds := map[string]bool{}
		nontrivial := false

		checkBlock := func(b *sim.Block) bool {
			blk := zone.Core.GetBlockByHash(b.Zone().Hash())
			if blk == nil {
				t.Fatalf("HARNESS: mined block not found")
			}
			// (a) determinism: warm, cold caches, single P
			r1 := process(zone, blk)
			zone.Core.Slice().HeaderChain().VerifPurgeCaches()
			r2 := process(zone, blk)
			runtime.GOMAXPROCS(1)
			r3 := process(zone, blk)
			runtime.GOMAXPROCS(procs)
			if r1 != r2 || r1 != r3 {
				stats.Violation(t, part, "C06/nondeterministic-process", fmt.Sprintf("block #%d re-executed on the same parent gives different results: warm %v cold %v gomaxprocs1 %v", blk.NumberU64(sim.Zone), r1, r2, r3), dump())
				return false
			}
			if r1.err != "" {
				// the worker assembled a block its own processor rejects: that is C07's subject
				t.Fatalf("HARNESS: own block rejected by Process: %s\n%s", r1.err, strings.Join(a.Log, "\n"))
			}
			// adopt => the node executes and commits the block
			if err := a.Adopt(); err != nil {
				t.Fatalf("HARNESS: adopt: %v\n%s", err, strings.Join(a.Log, "\n"))
			}
			h := zone.Core.CurrentHeader()
			if h.Hash() != blk.Hash() {
				t.Fatalf("HARNESS: head is not the mined block")
			}
			if h.EVMRoot() != r1.stateRoot || h.EtxSetRoot() != r1.etxSetRoot || h.UTXORoot() != r1.multiset || h.GasUsed() != r1.gas && blk.NumberU64(sim.Zone) > 6 {
				stats.Violation(t, part, "C06/header-vs-reexecution", fmt.Sprintf("block #%d header commits evm %x etxset %x utxo %x gas %d but re-execution gives %v", blk.NumberU64(sim.Zone), h.EVMRoot().Bytes()[:4], h.EtxSetRoot().Bytes()[:4], h.UTXORoot().Bytes()[:4], h.GasUsed(), r1), dump())
				return false
			}
			// (b) commitment = content
			if fp, msg := sim.CheckHeadCommitment(zone); fp != "" {
				stats.Violation(t, part, "C06/commitment/"+fp, msg, dump())
				return false
			}
			ks := kinds(b, zone)
			for _, k := range ks {
				allKinds[k] = true
				if k == "qi" || k == "lockup" || k == "trim" || strings.HasPrefix(k, "etx") {
					nontrivial = true
				}
			}
			return true
		}

		// prelude blocks are checked too
		preludeDone := 0
		if err := a.Prelude(); err != nil {
			t.Fatalf("HARNESS: prelude: %v", err)
		}
		preludeDone = len(a.Blocks)
		if err := a.Adopt(); err != nil {
			t.Fatalf("HARNESS: adopt after prelude: %v", err)
		}
		if fp, msg := sim.CheckHeadCommitment(zone); fp != "" {
			stats.Violation(t, part, "C06/commitment/"+fp, "after prelude: "+msg, dump())
			return
		}
		steps := rapid.IntRange(4, 22).Draw(t, "steps")
		for i := 0; i < steps; i++ {
			a.Traffic(t)
			b, err := a.MineRandom(t)
			if err != nil {
				t.Fatalf("HARNESS: mine: %v\n%s", err, strings.Join(a.Log, "\n"))
			}
			if !checkBlock(b) {
				return
			}
			// the node is taken through a reorganisation now and then: the commitments of the head it
			// ends up on must describe the stored state exactly as if the abandoned branch had never
			// been seen (the replay hierarchy below only ever sees the final chain)
			if rapid.IntRange(0, 4).Draw(t, "reorgEpisode") == 0 {
				B := a.Fork(a.Salt + 3000 + uint64(i))
				forkLog := len(a.Log)
				for k, dA := 0, rapid.IntRange(1, 3).Draw(t, "depthA"); k < dA; k++ {
					a.Traffic(t)
					if a.ZoneNumber() >= 3 && rapid.Bool().Draw(t, "shareA") {
						if _, err := a.WorkShare(t); err != nil {
							t.Fatalf("HARNESS: workshare: %v", err)
						}
					}
					if _, err := a.MineRandom(t); err != nil {
						t.Fatalf("HARNESS: mine A: %v\n%s", err, strings.Join(a.Log, "\n"))
					}
					if err := a.Adopt(); err != nil {
						t.Fatalf("HARNESS: adopt A: %v\n%s", err, strings.Join(a.Log, "\n"))
					}
				}
				if fp, msg := sim.CheckHeadCommitment(zone); fp != "" {
					stats.Violation(t, part, "C06/commitment/"+fp, "on branch A: "+msg, dump())
					return
				}
				A := a
				a = B // from here on the node follows branch B (checkBlock adopts the actor's heads)
				for k, dB := 0, rapid.IntRange(1, 3).Draw(t, "depthB"); k < dB; k++ {
					if err := a.Adopt(); err != nil {
						t.Fatalf("HARNESS: adopt B: %v", err)
					}
					a.Traffic(t)
					bb, err := a.MineRandom(t)
					if err != nil {
						t.Fatalf("HARNESS: mine B: %v\n%s", err, strings.Join(a.Log, "\n"))
					}
					if !checkBlock(bb) {
						return
					}
				}
				own := append([]string{}, a.Log[forkLog:]...)
				a.Log = append(append(append([]string{}, A.Log...), "-- reorganisation: the entries since the fork above are branch A; the node now follows branch B:"), own...)
				stats.Label(part, "reorg_episode")
			}
		}
		_ = preludeDone

		// cross-backend replay: every node must accept every block and end with identical state
		if other != "none" {
			opt := sim.Options{ZoneBackend: other}
			// half of the replays run the zone node with the state snapshot enabled (the production
			// default), the first hierarchy runs without
			if rapid.Bool().Draw(t, "replaySnapshot") {
				opt.Nodes[sim.Zone].SnapshotLimit = 16
				other += "+snapshot"
			}
			f, err := sim.NewNet(opt)
			if err != nil {
				t.Fatalf("HARNESS: replay net: %v", err)
			}
			defer f.Close()
			for i, b := range a.Blocks {
				if err := f.SetHeads(b.Parents); err != nil {
					stats.Violation(t, part, "C06/replay-reject/"+other, fmt.Sprintf("node on %s refuses to adopt parents of block %d that the first node accepted: %v", other, i, err), dump())
					return
				}
				if err := f.Insert(b); err != nil {
					stats.Violation(t, part, "C06/replay-reject/"+other, fmt.Sprintf("node on %s rejects block %d that the first node accepted: %v", other, i, err), dump())
					return
				}
				if i%3 == 0 {
					f.Nodes[sim.Zone].Core.Slice().HeaderChain().VerifPurgeCaches()
				}
			}
			if err := f.SetHeads(a.Heads); err != nil {
				stats.Violation(t, part, "C06/replay-reject/"+other, fmt.Sprintf("node on %s refuses the final heads: %v", other, err), dump())
				return
			}
			if fp, msg := sim.CheckHeadCommitment(f.Nodes[sim.Zone]); fp != "" {
				stats.Violation(t, part, "C06/commitment/"+fp+"/"+other, msg, dump())
				return
			}
			if d := n.ZoneChainState().Diff(f.ZoneChainState()); d != "" {
				stats.Violation(t, part, "C06/backend-state-differs/"+other, fmt.Sprintf("same blocks, different stored state (memory vs %s): %s", other, d), dump())
				return
			}
			stats.Label(part, "replay_"+other)
		}
		for k, v := range a.Labels {
			if v > 0 && strings.HasPrefix(k, "tx_lab") {
				stats.Label(part, k)
			}
		}
		var kl []string
		for k := range allKinds {
			kl = append(kl, k)
			stats.Label(part, "kind_"+k)
		}
		sort.Strings(kl)
		stats.Case(part, strings.Join(kl, ",")+"|"+other, nontrivial)
		if nontrivial && stats.WantSample(part) {
			stats.Sample(part, dump())
		}
	})
}
