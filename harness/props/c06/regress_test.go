package c06

import (
	"fmt"
	"testing"

	"github.com/dominant-strategies/go-quai/core/types"

	"verifharness/sim"
	"verifharness/stats"
)

// TestC06_Regress_KnownFindings replays, without rapid, the minimal history of each recorded
// finding of this property so that every run observes it (or notices that it is gone).
func TestC06_Regress_KnownFindings(t *testing.T) {
	n, err := sim.NewNet(sim.Options{})
	if err != nil {
		t.Fatalf("HARNESS: %v", err)
	}
	defer n.Close()
	a := sim.NewActor(n)
	if err := a.Prelude(); err != nil {
		t.Fatalf("HARNESS: prelude: %v", err)
	}
	qi := sim.QiKeys(8)
	mine := func() {
		if _, err := a.MineOne(sim.MineOpts{Order: sim.Zone}); err != nil {
			t.Fatalf("HARNESS: mine: %v", err)
		}
		if err := a.Adopt(); err != nil {
			t.Fatalf("HARNESS: adopt: %v", err)
		}
	}
	// wait until the prelude conversion outputs are spendable
	var src *sim.UTXORec
	for i := 0; i < 12 && src == nil; i++ {
		for _, u := range n.OwnedUTXOs(qi[0].Addr) {
			u := u
			if u.Entry.Denomination >= 6 && u.Entry.Lock.Uint64() <= a.ZoneNumber() {
				src = &u
				break
			}
		}
		if src == nil {
			mine()
		}
	}
	if src == nil {
		t.Fatalf("HARNESS: no spendable conversion output")
	}
	// step 1: create an unlocked denomination-4 output (trim depth 7 in the scaled configuration)
	tx1, err := sim.QiTx(qi[0], []sim.UTXORec{*src}, []sim.QiOut{{Denomination: 4, To: qi[5].Addr}}, nil)
	if err != nil {
		t.Fatalf("HARNESS: %v", err)
	}
	if errs := n.SubmitTxs(tx1); errs[0] != nil {
		t.Fatalf("HARNESS: submit tx1: %v", errs[0])
	}
	mine()
	created := a.ZoneNumber()
	var small *sim.UTXORec
	for _, u := range n.OwnedUTXOs(qi[5].Addr) {
		u := u
		if u.TxHash == tx1.Hash() {
			small = &u
		}
	}
	if small == nil {
		t.Fatalf("HARNESS: tx1 was not mined")
	}
	depth := types.TrimDepths[4]
	for a.ZoneNumber()+1 < created+depth {
		mine()
	}
	// step 2: spend it in exactly the block that trims the outputs of block `created`
	tx2, err := sim.QiTx(qi[5], []sim.UTXORec{*small}, []sim.QiOut{{Denomination: 3, To: qi[6].Addr}}, nil)
	if err != nil {
		t.Fatalf("HARNESS: %v", err)
	}
	if errs := n.SubmitTxs(tx2); errs[0] != nil {
		t.Fatalf("HARNESS: submit tx2: %v", errs[0])
	}
	mine()
	stats.Case("regress", "spent-and-trimmed-same-block", true)
	if fp, msg := sim.CheckHeadCommitment(n.Nodes[sim.Zone]); fp != "" {
		stats.Violation(t, "regress", "C06/commitment/"+fp, msg, map[string]any{"history": a.Log, "note": fmt.Sprintf("output created in block %d, spent in block %d = created + trim depth %d", created, a.ZoneNumber(), depth)})
	}
}
