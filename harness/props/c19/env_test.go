// C19 — the transaction pool stays internally consistent under any interleaving.
//
// env_test.go: the fixed transaction universe, the stub chain behind the pool's unexported
// blockChain interface, the per-case environment (a real core.NewTxPool with tiny limits) and the
// interpreter of harness operations. See DESIGN.md §4 C19.
package c19

import (
	"bytes"
	"crypto/ecdsa"
	"crypto/sha256"
	"errors"
	"fmt"
	"io"
	"math/big"
	"os"
	"path/filepath"
	"runtime/debug"
	"runtime/pprof"
	"sort"
	"strings"
	"sync"
	"sync/atomic"
	"time"

	"github.com/dominant-strategies/go-quai/common"
	"github.com/dominant-strategies/go-quai/consensus"
	"github.com/dominant-strategies/go-quai/core"
	"github.com/dominant-strategies/go-quai/core/rawdb"
	"github.com/dominant-strategies/go-quai/core/state"
	"github.com/dominant-strategies/go-quai/core/types"
	"github.com/dominant-strategies/go-quai/crypto"
	"github.com/dominant-strategies/go-quai/ethdb"
	"github.com/dominant-strategies/go-quai/event"
	"github.com/dominant-strategies/go-quai/log"
	"github.com/dominant-strategies/go-quai/params"
	"github.com/sirupsen/logrus"

	"verifharness/stats"
)

// ---------------------------------------------------------------------------------------------
// universe

const (
	nAccts   = 4
	nNonces  = 7 // nonces 0..6
	txValue  = 1000
	baseGas  = 12_000_000 // normal head gas limit = baseGas + block id (identifies the head)
	lowGas   = 40_000     // "low gas limit" head = lowGas + block id (< 50 000: drops the big-gas txs)
	maxBlock = 9_000      // block ids stay below this so that lowGas+id < gasLevels[1]
)

var (
	loc         = common.Location{0, 0}
	chainID     = big.NewInt(1337)
	chainCfg    = &params.ChainConfig{ChainID: chainID, Location: loc}
	signer      = types.LatestSigner(chainCfg)
	priceLevels = []int64{100, 105, 120} // 105 < 100*1.10 <= 120: one replacement below and one above the bump
	gasLevels   = []uint64{21000, 50000}
	// genesis balances: A rich, B poor (cannot afford a 50 000-gas tx, 5e6), C rich,
	// D medium (affords any single tx, but not after one expensive tx was mined)
	genesisBal = []int64{1_000_000_000_000, 3_000_000, 1_000_000_000_000, 7_000_000}
	acctNames  = []string{"A", "B", "C", "D"}
)

type txRef struct {
	Acct, Nonce, Price, Gas int
	Qi                      int // > 0: not a Quai transaction but Qi universe entry Qi-1
}

func qiRef(i int) txRef { return txRef{Qi: i + 1} }

func ref(a, n, p, g int) txRef { return txRef{Acct: a, Nonce: n, Price: p, Gas: g} }

func (r txRef) String() string {
	if r.Qi > 0 {
		return fmt.Sprintf("qi%d", r.Qi-1)
	}
	return fmt.Sprintf("%s%d/p%d/g%d", acctNames[r.Acct], r.Nonce, priceLevels[r.Price], gasLevels[r.Gas]/1000)
}

type universe struct {
	keys   [nAccts]*ecdsa.PrivateKey
	addrs  [nAccts]common.InternalAddress
	full   [nAccts]common.Address
	idx    map[common.InternalAddress]int
	to     common.Address
	canon  map[txRef]*types.Transaction
	mu     sync.Mutex
	drains map[string]*types.Transaction
}

var (
	uniOnce sync.Once
	uni     *universe
)

func getUniverse() *universe {
	uniOnce.Do(func() {
		l := logrus.New()
		l.SetOutput(io.Discard)
		l.SetLevel(logrus.PanicLevel)
		log.Global = l
		u := &universe{idx: map[common.InternalAddress]int{}, canon: map[txRef]*types.Transaction{}, drains: map[string]*types.Transaction{}}
		u.to = common.HexToAddress("0x0011111111111111111111111111111111111111", loc)
		n := 0
		for ctr := 0; n < nAccts; ctr++ {
			if ctr > 100000 {
				panic("HARNESS: no quai-scope key found")
			}
			seed := sha256.Sum256([]byte(fmt.Sprintf("c19-account-key-%d", ctr)))
			k, err := crypto.ToECDSA(seed[:])
			if err != nil {
				continue
			}
			a := crypto.PubkeyToAddress(k.PublicKey, loc)
			ia, err := a.InternalAndQuaiAddress()
			if err != nil {
				continue
			}
			u.keys[n], u.addrs[n], u.full[n] = k, ia, a
			u.idx[ia] = n
			n++
		}
		for a := 0; a < nAccts; a++ {
			for nn := 0; nn < nNonces; nn++ {
				for p := range priceLevels {
					for g := range gasLevels {
						r := ref(a, nn, p, g)
						u.canon[r] = u.sign(a, uint64(nn), priceLevels[p], gasLevels[g], big.NewInt(txValue))
					}
				}
			}
		}
		uni = u
	})
	return uni
}

func (u *universe) sign(acct int, nonce uint64, price int64, gas uint64, value *big.Int) *types.Transaction {
	to := u.to
	tx, err := types.SignNewTx(u.keys[acct], signer, &types.QuaiTx{ChainID: chainID, Nonce: nonce, GasPrice: big.NewInt(price), Gas: gas, To: &to, Value: value})
	if err != nil {
		panic("HARNESS: sign: " + err.Error())
	}
	return tx
}

// fresh returns a new transaction object (as if decoded from the wire) for a universe entry; with
// preset the sender cache is filled like the p2p layer's sender cacher would have done.
func (u *universe) fresh(r txRef, preset bool) *types.Transaction {
	return u.copyOf(u.canon[r], r.Acct, preset)
}

func (u *universe) copyOf(tx *types.Transaction, acct int, preset bool) *types.Transaction {
	c := types.NewTx(tx.Inner())
	if preset {
		c.SetFrom(u.full[acct], signer)
	}
	return c
}

// drain returns a transaction of acct that moves (almost) the whole balance away.
func (u *universe) drain(acct int, nonce uint64, value *big.Int) *types.Transaction {
	key := fmt.Sprintf("%d/%d/%s", acct, nonce, value)
	u.mu.Lock()
	defer u.mu.Unlock()
	if tx := u.drains[key]; tx != nil {
		return tx
	}
	tx := u.sign(acct, nonce, priceLevels[0], gasLevels[0], value)
	u.drains[key] = tx
	return tx
}

func (u *universe) senderIdx(tx *types.Transaction) int {
	from, err := types.Sender(signer, tx)
	if err != nil {
		return -1
	}
	ia, err := from.InternalAndQuaiAddress()
	if err != nil {
		return -1
	}
	if i, ok := u.idx[ia]; ok {
		return i
	}
	return -1
}

func (u *universe) describe(tx *types.Transaction) string {
	if tx.Type() == types.QiTxType {
		return "qi:" + tx.Hash().Hex()[:12]
	}
	i := u.senderIdx(tx)
	name := "?"
	if i >= 0 {
		name = acctNames[i]
	}
	s := fmt.Sprintf("%s%d/p%s/g%d", name, tx.Nonce(), tx.GasPrice(), tx.Gas()/1000)
	if tx.Value().Cmp(big.NewInt(txValue)) != 0 {
		s += "/v" + tx.Value().String()
	}
	return s
}

// ---------------------------------------------------------------------------------------------
// model chain

type acctState struct {
	Nonce uint64
	Bal   *big.Int
}

type block struct {
	id       int
	wo       *types.WorkObject
	hash     common.Hash
	parent   *block
	num      uint64
	txs      []*types.Transaction
	st       [nAccts]acctState
	gasLimit uint64
	root     common.Hash
}

func (b *block) String() string {
	if b == nil {
		return "nil"
	}
	p := -1
	if b.parent != nil {
		p = b.parent.id
	}
	u := getUniverse()
	var txs []string
	for _, tx := range b.txs {
		txs = append(txs, u.describe(tx))
	}
	return fmt.Sprintf("b%d(parent b%d,num %d,gas %d,txs %v)", b.id, p, b.num, b.gasLimit, txs)
}

type stubChain struct {
	mu     sync.RWMutex // guards the maps and head
	headMu sync.Mutex   // serialises head changes + event sends (like the real chain's append)
	byHash map[common.Hash]*block
	byRoot map[common.Hash]*block
	byGas  map[uint64]*block
	head   *block
	prev   *block // head before the last head change
	nextID int
	feed   event.Feed
	headCh chan<- core.ChainHeadEvent
	sdb    state.Database
	logger *log.Logger
	qi     *qiWorld
}

func (s *stubChain) CurrentBlock() *types.WorkObject {
	s.mu.RLock()
	defer s.mu.RUnlock()
	return s.head.wo
}
func (s *stubChain) Head() *block {
	s.mu.RLock()
	defer s.mu.RUnlock()
	return s.head
}
func (s *stubChain) lookup(h common.Hash) *types.WorkObject {
	s.mu.RLock()
	defer s.mu.RUnlock()
	if b := s.byHash[h]; b != nil {
		return b.wo
	}
	return nil
}
func (s *stubChain) GetBlock(h common.Hash, _ uint64) *types.WorkObject { return s.lookup(h) }
func (s *stubChain) GetBlockByHash(h common.Hash) *types.WorkObject     { return s.lookup(h) }
func (s *stubChain) GetHeaderByHash(h common.Hash) *types.WorkObject {
	if wo := s.lookup(h); wo != nil {
		return wo
	}
	// the prime terminus of every stub block is the zero hash: hand out the genesis header
	s.mu.RLock()
	defer s.mu.RUnlock()
	return s.byGas[baseGas].wo
}
func (s *stubChain) GetHeaderOrCandidateByHash(h common.Hash) *types.WorkObject {
	return s.GetHeaderByHash(h)
}
func (s *stubChain) StateAt(root, _ common.Hash, _ *big.Int) (*state.StateDB, error) {
	s.mu.RLock()
	b := s.byRoot[root]
	s.mu.RUnlock()
	if b == nil {
		return nil, fmt.Errorf("stub chain: unknown state root %x", root)
	}
	st, err := state.New(types.EmptyRootHash, types.EmptyRootHash, big.NewInt(0), s.sdb, s.sdb, nil, loc, s.logger)
	if err != nil {
		return nil, err
	}
	u := getUniverse()
	for i := 0; i < nAccts; i++ {
		st.SetNonce(u.addrs[i], b.st[i].Nonce)
		st.SetBalance(u.addrs[i], new(big.Int).Set(b.st[i].Bal))
	}
	return st, nil
}
func (s *stubChain) SubscribeChainHeadEvent(ch chan<- core.ChainHeadEvent) event.Subscription {
	s.headCh = ch
	return s.feed.Subscribe(ch)
}
func (s *stubChain) IsGenesisHash(common.Hash) bool                          { return false }
func (s *stubChain) CheckIfEtxIsEligible(common.Hash, common.Location) bool  { return true }
func (s *stubChain) Engine(*types.WorkObjectHeader) consensus.Engine         { return nil }
func (s *stubChain) NodeCtx() int                                            { return common.ZONE_CTX }
func (s *stubChain) GetMaxTxInWorkShare() uint64                             { return 100 }
func (s *stubChain) CheckInCalcOrderCache(common.Hash) (*big.Int, int, bool) { return nil, 0, false }
func (s *stubChain) AddToCalcOrderCache(common.Hash, int, *big.Int)          {}
func (s *stubChain) CalcBaseFee(*types.WorkObject) *big.Int                  { return big.NewInt(1) }
func (s *stubChain) CalcOrder(*types.WorkObject) (*big.Int, int, error) {
	return big.NewInt(0), common.ZONE_CTX, nil
}

// newBlock creates (and registers) a block on top of parent. Caller holds headMu.
func (s *stubChain) newBlock(parent *block, txs []*types.Transaction, st [nAccts]acctState, low bool) *block {
	s.mu.Lock()
	defer s.mu.Unlock()
	id := s.nextID
	s.nextID++
	if id >= maxBlock {
		panic("HARNESS: too many blocks in one case")
	}
	b := &block{id: id, parent: parent, txs: txs, st: st}
	b.gasLimit = baseGas + uint64(id)
	if low {
		b.gasLimit = lowGas + uint64(id)
	}
	b.num = 100
	if parent != nil {
		b.num = parent.num + 1
	}
	rh := sha256.Sum256([]byte(fmt.Sprintf("c19-state-root-%d", id)))
	b.root = common.BytesToHash(rh[:])
	wo := types.EmptyZoneWorkObject()
	wo.WorkObjectHeader().SetNumber(new(big.Int).SetUint64(b.num))
	wo.WorkObjectHeader().SetNonce(types.EncodeNonce(uint64(id) + 1))
	wo.WorkObjectHeader().SetTime(uint64(1_700_000_000 + id))
	wo.WorkObjectHeader().SetDifficulty(big.NewInt(1_000_000_000))
	if parent != nil {
		wo.WorkObjectHeader().SetParentHash(parent.hash)
	}
	wo.Header().SetGasLimit(b.gasLimit)
	wo.Header().SetBaseFee(big.NewInt(1))
	wo.Header().SetEVMRoot(b.root)
	wo.Header().SetExchangeRate(params.ExchangeRate)
	wo.Body().SetTransactions(txs)
	b.wo = wo
	b.hash = wo.Hash()
	if s.byHash[b.hash] != nil {
		panic("HARNESS: duplicate block hash")
	}
	s.byHash[b.hash] = b
	s.byRoot[b.root] = b
	s.byGas[b.gasLimit] = b
	return b
}

// ---------------------------------------------------------------------------------------------
// environment

type logHook struct {
	mu      sync.Mutex
	panics  []string
	errs    map[string]int
	maxKeep int
}

func (h *logHook) Levels() []logrus.Level {
	return []logrus.Level{logrus.ErrorLevel, logrus.FatalLevel, logrus.PanicLevel}
}
func (h *logHook) Fire(e *logrus.Entry) error {
	h.mu.Lock()
	defer h.mu.Unlock()
	if strings.Contains(e.Message, "Panicked") {
		if len(h.panics) < h.maxKeep {
			h.panics = append(h.panics, fmt.Sprintf("%v\n%v", e.Data["error"], e.Data["stacktrace"]))
		}
		return nil
	}
	h.errs[e.Message]++
	return nil
}
func (h *logHook) takePanics() []string {
	h.mu.Lock()
	defer h.mu.Unlock()
	p := h.panics
	h.panics = nil
	return p
}
func (h *logHook) errCounts() map[string]int {
	h.mu.Lock()
	defer h.mu.Unlock()
	out := map[string]int{}
	for k, v := range h.errs {
		out[k] = v
	}
	return out
}

type env struct {
	u        *universe
	chain    *stubChain
	pool     *core.TxPool
	hook     *logHook
	cfg      core.TxPoolConfig
	db       ethdb.Database
	logger   *log.Logger
	tmp      string
	feedMode bool // head events through the chain-head feed (pool.loop) instead of VerifSyncReset(old,new)
	deadline time.Duration
	hung     bool
	// excludeGap: FPReorgGap is a listed known finding; head changes that can run into it are
	// left out by construction (and counted)
	excludeGap bool
	serial     map[string]*sync.Mutex // known-race exclusions: ops serialised by construction
}

var poolCfg = func() core.TxPoolConfig {
	cfg := core.DefaultTxPoolConfig
	cfg.Journal = ""
	cfg.AccountSlots, cfg.GlobalSlots, cfg.AccountQueue, cfg.GlobalQueue = 2, 4, 2, 4
	cfg.PriceBump = 10
	cfg.PriceLimit = 1
	cfg.ReorgFrequency = 5 * time.Millisecond
	cfg.QiPoolSize = 4
	return cfg
}()

// sawHang is set once a pool call missed its deadline in this process: later cases (rapid's
// shrinking re-runs of a deadlocking case) then use a short deadline.
var sawHang atomic.Bool

func newEnv(feedMode bool) *env { return newEnvJ(feedMode, false) }

// newEnvJ: with journal the pool journals local transactions to a temp file (and can be restarted
// from it).
func newEnvJ(feedMode, journal bool) *env {
	u := getUniverse()
	l := logrus.New()
	l.SetOutput(io.Discard)
	l.SetLevel(logrus.ErrorLevel)
	l.ExitFunc = func(int) { panic("logger.Fatal called") }
	hook := &logHook{errs: map[string]int{}, maxKeep: 4}
	l.AddHook(hook)
	db := rawdb.NewMemoryDatabase(l)
	ch := &stubChain{byHash: map[common.Hash]*block{}, byRoot: map[common.Hash]*block{}, byGas: map[uint64]*block{}, logger: l}
	ch.sdb = state.NewDatabase(rawdb.NewMemoryDatabase(l))
	var st [nAccts]acctState
	for i := range st {
		st[i] = acctState{0, big.NewInt(genesisBal[i])}
	}
	ch.head = ch.newBlock(nil, nil, st, false)
	ch.qi = newQiWorld(db, ch.head)
	e := &env{u: u, chain: ch, hook: hook, feedMode: feedMode, deadline: 30 * time.Second}
	e.excludeGap = stats.IsKnown(FPReorgGap)
	if sawHang.Load() {
		e.deadline = 5 * time.Second
	}
	e.cfg = poolCfg
	if journal {
		dir, err := os.MkdirTemp("", "c19-journal")
		if err != nil {
			panic("HARNESS: " + err.Error())
		}
		e.tmp = dir
		e.cfg.Journal = filepath.Join(dir, "transactions.rlp")
	}
	e.db, e.logger = db, l
	e.pool = core.NewTxPool(e.cfg, chainCfg, ch, l, db)
	return e
}

// restart stops the pool and starts a new one over the same chain, database and journal.
func (e *env) restart() {
	e.pool.Stop()
	e.pool = core.NewTxPool(e.cfg, chainCfg, e.chain, e.logger, e.db)
}

func (e *env) close() {
	if e.tmp != "" {
		defer os.RemoveAll(e.tmp)
	}
	if e.hung {
		return // Stop would block forever
	}
	done := make(chan struct{})
	go func() { e.pool.Stop(); close(done) }()
	select {
	case <-done:
	case <-time.After(e.deadline):
	}
}

// callResult is what running one pool call produced besides its own return values.
type callResult struct {
	panicVal any
	stack    string
	hang     bool
	dump     string
}

var errHang = errors.New("pool call did not return")

// call runs fn (which calls into the pool) on its own goroutine with a generous deadline, so
// that a panic or a deadlock inside the pool becomes an observation instead of killing the run.
func (e *env) call(fn func()) callResult {
	var res callResult
	done := make(chan struct{})
	go func() {
		defer close(done)
		defer func() {
			if r := recover(); r != nil {
				res.panicVal = r
				res.stack = string(debug.Stack())
			}
		}()
		fn()
	}()
	timer := time.NewTimer(e.deadline)
	defer timer.Stop()
	select {
	case <-done:
		return res
	case <-timer.C:
		e.hung = true
		sawHang.Store(true)
		return callResult{hang: true, dump: goroutineDump()}
	}
}

func goroutineDump() string {
	var buf bytes.Buffer
	pprof.Lookup("goroutine").WriteTo(&buf, 2)
	return buf.String()
}

// classifyHang decides whether a goroutine dump taken at a missed deadline shows the pool
// blocking its callers. stuck lists the marker function names of the goroutines that should have
// finished. It returns (true, reason) when every stuck goroutine is parked inside a TxPool method
// on a lock or channel; otherwise the hang is the harness's or the machine's problem.
func classifyHang(dump string, marker string) (bool, string) {
	var stuck, inPool int
	var where []string
	for _, g := range strings.Split(dump, "\n\n") {
		if !strings.Contains(g, marker) {
			continue
		}
		stuck++
		head := g
		if i := strings.Index(g, "\n"); i >= 0 {
			head = g[:i]
		}
		blocked := strings.Contains(head, "semacquire") || strings.Contains(head, "sync.Mutex") || strings.Contains(head, "sync.RWMutex") ||
			strings.Contains(head, "chan send") || strings.Contains(head, "chan receive") || strings.Contains(head, "select")
		if blocked && strings.Contains(g, "core.(*TxPool).") {
			inPool++
			for _, ln := range strings.Split(g, "\n") {
				if strings.Contains(ln, "core.(*TxPool).") {
					where = append(where, strings.TrimSpace(ln))
					break
				}
			}
		}
	}
	sort.Strings(where)
	if stuck > 0 && stuck == inPool {
		return true, fmt.Sprintf("%d caller(s) parked inside the pool: %v", stuck, where)
	}
	return false, fmt.Sprintf("%d stuck goroutine(s), %d of them parked inside the pool", stuck, inPool)
}

// ---------------------------------------------------------------------------------------------
// operations

type mineSel struct {
	N    int // how many consecutive nonces of the account the block includes
	Mode int // 0: the pool's own transaction for that nonce (else a universe tx), 1: a competing universe tx, 2: a balance-draining tx
}

type headSpec struct {
	Back   bool // switch back to the head we had before the last head change (branch flip-flop)
	Depth  int  // 0: extend the current head; k: fork off the k-th ancestor (reorg)
	Blocks int  // blocks appended on the fork point (>=1)
	Mine   [nAccts]mineSel
	Low    bool // last block carries a gas limit below the big-gas transactions
	Fund   int  // account credited with 1e12 in the last block, -1 none
	Qi     int  // bitmask of Qi universe transactions included in the last block
}

func (h *headSpec) String() string {
	if h.Back {
		return "back"
	}
	var m []string
	for i, s := range h.Mine {
		if s.N > 0 {
			m = append(m, fmt.Sprintf("%s%dx%c", acctNames[i], s.N, "pfd"[s.Mode]))
		}
	}
	s := fmt.Sprintf("d%db%d[%s]", h.Depth, h.Blocks, strings.Join(m, ","))
	if h.Low {
		s += "low"
	}
	if h.Fund >= 0 {
		s += "fund" + acctNames[h.Fund]
	}
	if h.Qi != 0 {
		s += fmt.Sprintf("qi%b", h.Qi)
	}
	return s
}

type op struct {
	K      string // addRemote addRemoteSync addLocal addBatch addBatchSync setPrice head qiRemove qiRemoveAsync read
	Txs    []txRef
	Preset bool
	Price  int64
	Head   *headSpec
	Qi     int // index into the Qi transaction universe
	Read   int
}

func (o op) String() string {
	switch o.K {
	case "setPrice":
		return fmt.Sprintf("setPrice(%d)", o.Price)
	case "head":
		return "head(" + o.Head.String() + ")"
	case "qiRemove", "qiRemoveAsync":
		return fmt.Sprintf("%s(%d)", o.K, o.Qi)
	case "read":
		return fmt.Sprintf("read(%d)", o.Read)
	case "restart":
		return "restart"
	}
	var s []string
	for _, r := range o.Txs {
		s = append(s, r.String())
	}
	p := ""
	if o.Preset {
		p = "*"
	}
	return fmt.Sprintf("%s%s(%s)", o.K, p, strings.Join(s, ","))
}

// opResult is what the harness observed from one operation.
type opResult struct {
	errs  []error // per transaction for adds
	txs   []*types.Transaction
	block *block // new head for head ops
	old   *block
	cr    callResult
}

// apply executes one operation against the pool. It never touches testing.T: problems come back
// in opResult.cr so that worker goroutines can use it too.
func (e *env) apply(o op) opResult {
	var r opResult
	switch o.K {
	case "addRemote", "addRemoteSync", "addLocal", "addBatch", "addBatchSync":
		for _, ref := range o.Txs {
			if ref.Qi > 0 {
				r.txs = append(r.txs, e.chain.qi.fresh(ref.Qi-1))
			} else {
				r.txs = append(r.txs, e.u.fresh(ref, o.Preset))
			}
		}
		r.cr = e.call(func() {
			switch o.K {
			case "addLocal":
				r.errs = []error{e.pool.AddLocal(r.txs[0])}
			case "addRemoteSync", "addBatchSync":
				r.errs = e.pool.AddRemotesSync(r.txs)
			default:
				r.errs = e.pool.AddRemotes(r.txs)
			}
		})
	case "setPrice":
		r.cr = e.call(func() { e.pool.SetGasPrice(big.NewInt(o.Price)) })
	case "head":
		r.cr = e.call(func() { r.old, r.block = e.moveHead(o.Head) })
	case "qiRemove":
		h := e.chain.qi.txs[o.Qi].Hash()
		r.cr = e.call(func() { e.pool.RemoveQiTxs([]*common.Hash{&h}) })
	case "qiRemoveAsync":
		h := e.chain.qi.txs[o.Qi].Hash()
		r.cr = e.call(func() { e.pool.AsyncRemoveQiTxs([]*common.Hash{&h}) })
	case "read":
		r.cr = e.call(func() { e.read(o.Read) })
	case "restart":
		r.cr = e.call(func() { e.restart() })
	default:
		panic("HARNESS: unknown op " + o.K)
	}
	return r
}

// read exercises the pool's read-side API the way RPC and the worker do.
func (e *env) read(which int) {
	switch which % 8 {
	case 0:
		e.pool.TxPoolPending()
	case 1:
		e.pool.Content()
	case 2:
		e.pool.Stats()
	case 3:
		for i := 0; i < nAccts; i++ {
			e.pool.Nonce(e.u.addrs[i])
			e.pool.ContentFrom(e.u.addrs[i])
		}
	case 4:
		var hs []common.Hash
		for a := 0; a < nAccts; a++ {
			for n := 0; n < 3; n++ {
				hs = append(hs, e.u.canon[ref(a, n, 0, 0)].Hash())
			}
		}
		e.pool.Status(hs)
	case 5:
		e.pool.QiPoolPending()
		e.pool.GasPrice()
	case 6:
		for a := 0; a < nAccts; a++ {
			h := e.u.canon[ref(a, 0, 0, 0)].Hash()
			e.pool.Get(h)
			e.pool.Has(h)
		}
	case 7:
		e.pool.Locals()
	}
}

// blockPlan is a block that has been decided but not yet registered with the stub chain.
type blockPlan struct {
	txs []*types.Transaction
	st  [nAccts]acctState
	low bool
}

func commonAncestor(a, b *block) *block {
	for a != b {
		if a.num >= b.num && a.parent != nil {
			a = a.parent
		} else if b.parent != nil {
			b = b.parent
		} else {
			return nil
		}
	}
	return a
}

// FPReorgGap is the fingerprint of the confirmed finding "a reorg that lowers an account's nonce
// leaves a hole in its pending list when a re-injected transaction is rejected".
const FPReorgGap = "C19/pending-gap-after-reorg"

// FPTrackerLow is the fingerprint of the confirmed finding "a reset run that re-injects into a full
// pool evicts a not-yet-demoted pending transaction and removeTx lowers the account's virtual
// nonce below its state nonce" (pool.Nonce is wrong until the next reset run rebuilds the tracker).
const FPTrackerLow = "C19/nonce-tracker-below-state-nonce"

// reorgGapHazard reports whether switching the head from cur to a branch that forks at anc, carries
// the transactions `included` and ends in state st / gas limit gl can run into FPReorgGap: some
// account's nonce goes down while the pool holds pending transactions of it, and it is not certain
// that every nonce in between is re-injected and accepted (present on the abandoned branch only,
// not below the pool's price floor, payable in the new state, within the new gas limit, and the
// pool has room for everything that comes back).
func (e *env) reorgGapHazard(cur, anc *block, included []*types.Transaction, st [nAccts]acctState, gl uint64,
	pend, queued map[common.InternalAddress]types.Transactions, floor *big.Int) bool {
	inc := map[common.Hash]bool{}
	for _, tx := range included {
		inc[tx.Hash()] = true
	}
	type key struct {
		a int
		n uint64
	}
	back := map[key]*types.Transaction{}
	nback := 0
	for b := cur; b != nil && b != anc; b = b.parent {
		for _, tx := range b.txs {
			if tx.Type() != types.QuaiTxType || inc[tx.Hash()] {
				continue
			}
			nback++
			back[key{e.u.senderIdx(tx), tx.Nonce()}] = tx
		}
	}
	held := 0
	for _, l := range pend {
		held += len(l)
	}
	for _, l := range queued {
		held += len(l)
	}
	room := uint64(held+nback) <= poolCfg.GlobalSlots+poolCfg.GlobalQueue
	for a := 0; a < nAccts; a++ {
		if st[a].Nonce >= cur.st[a].Nonce || len(pend[e.u.addrs[a]]) == 0 {
			continue
		}
		// The finding needs the transaction at the new state nonce to come back (it is promoted in
		// front of the higher nonces that stayed pending) and a later one not to. When the front
		// transaction is certainly refused on the new branch (unaffordable there, or above its gas
		// limit) nothing is promoted, the pool sees a gap in front and postpones the whole list: that
		// path is not the finding and stays in the search.
		front := back[key{a, st[a].Nonce}]
		frontRefused := front != nil && (front.Cost().Cmp(st[a].Bal) > 0 || front.Gas() > gl)
		if frontRefused {
			stats.Label("random", "reorg_front_tx_refused_on_new_branch")
			continue
		}
		for n := st[a].Nonce + 1; n < cur.st[a].Nonce; n++ {
			tx := back[key{a, n}]
			if tx == nil || !room || tx.GasPrice().Cmp(floor) < 0 || tx.Cost().Cmp(st[a].Bal) > 0 || tx.Gas() > gl {
				return true
			}
		}
		// only the front transaction can fail: either everything comes back, or the front is missing
		// and the list is postponed
	}
	return false
}

// moveHead builds the blocks described by h on the model chain, makes the last one the chain head
// and tells the pool (feed or direct reset request).
func (e *env) moveHead(h *headSpec) (old, nb *block) {
	// what the pool currently holds decides what "mine the pool's transaction" means; fetched
	// before any chain lock is taken (the pool calls back into the chain under its own lock)
	pend, queued := e.pool.Content()
	floor := e.pool.GasPrice()
	e.chain.headMu.Lock()
	defer e.chain.headMu.Unlock()
	cur := e.chain.Head()
	old = cur
	if h.Back {
		nb = e.chain.prev
		if nb == nil || nb == cur {
			return old, nil
		}
		if e.excludeGap {
			anc := commonAncestor(cur, nb)
			var inc []*types.Transaction
			for b := nb; b != nil && b != anc; b = b.parent {
				inc = append(inc, b.txs...)
			}
			if anc == nil || e.reorgGapHazard(cur, anc, inc, nb.st, nb.gasLimit, pend, queued, floor) {
				stats.Excluded(FPReorgGap)
				return old, nil
			}
		}
	} else {
		base := cur
		for i := 0; i < h.Depth && base.parent != nil; i++ {
			base = base.parent
		}
		nblocks := h.Blocks
		if nblocks < 1 {
			nblocks = 1
		}
		var plan []blockPlan
		st := base.st
		for bi := 0; bi < nblocks; bi++ {
			last := bi == nblocks-1
			for i := range st {
				st[i].Bal = new(big.Int).Set(st[i].Bal)
			}
			low := last && h.Low
			limit := uint64(baseGas)
			if low {
				limit = lowGas
			}
			var txs []*types.Transaction
			if last { // the described content goes into the last block; earlier ones are empty
				for a := 0; a < nAccts; a++ {
					sel := h.Mine[a]
					for k := 0; k < sel.N; k++ {
						tx := e.pickMined(a, st[a], sel.Mode, pend, queued)
						if tx == nil || tx.Gas() > limit || tx.Cost().Cmp(st[a].Bal) > 0 {
							break
						}
						st[a].Nonce++
						st[a].Bal.Sub(st[a].Bal, tx.Cost())
						txs = append(txs, e.u.copyOf(tx, a, false))
					}
				}
				for qi := 0; qi < nQiValid; qi++ {
					if h.Qi&(1<<qi) != 0 {
						txs = append(txs, e.chain.qi.fresh(qi))
					}
				}
				if h.Fund >= 0 {
					st[h.Fund].Bal.Add(st[h.Fund].Bal, big.NewInt(1_000_000_000_000))
				}
			}
			plan = append(plan, blockPlan{txs, st, low})
		}
		if e.excludeGap && base != cur {
			lastp := plan[len(plan)-1]
			gl := uint64(baseGas)
			if lastp.low {
				gl = lowGas
			}
			var inc []*types.Transaction
			for _, p := range plan {
				inc = append(inc, p.txs...)
			}
			if e.reorgGapHazard(cur, base, inc, lastp.st, gl, pend, queued, floor) {
				stats.Excluded(FPReorgGap)
				return old, nil
			}
		}
		nb = base
		for _, p := range plan {
			nb = e.chain.newBlock(nb, p.txs, p.st, p.low)
		}
	}
	e.chain.mu.Lock()
	e.chain.prev = cur
	e.chain.head = nb
	e.chain.mu.Unlock()
	if e.feedMode {
		e.chain.feed.Send(core.ChainHeadEvent{Block: nb.wo})
	} else {
		e.pool.VerifSyncReset(old.wo, nb.wo)
	}
	return old, nb
}

// maxNonce is the highest state nonce the account has had on any block of this case.
func (c *stubChain) maxNonce(a int) uint64 {
	c.mu.RLock()
	defer c.mu.RUnlock()
	var m uint64
	for _, b := range c.byHash {
		if b.st[a].Nonce > m {
			m = b.st[a].Nonce
		}
	}
	return m
}

func (e *env) pickMined(a int, st acctState, mode int, pend, queued map[common.InternalAddress]types.Transactions) *types.Transaction {
	if st.Nonce >= nNonces {
		return nil
	}
	n := int(st.Nonce)
	var own *types.Transaction
	for _, tx := range pend[e.u.addrs[a]] {
		if tx.Nonce() == st.Nonce {
			own = tx
		}
	}
	if own == nil {
		for _, tx := range queued[e.u.addrs[a]] {
			if tx.Nonce() == st.Nonce {
				own = tx
			}
		}
	}
	switch mode {
	case 0:
		if own != nil {
			return own
		}
		return e.u.canon[ref(a, n, 0, 0)]
	case 1:
		c := e.u.canon[ref(a, n, 1, 0)]
		if own != nil && own.Hash() == c.Hash() {
			c = e.u.canon[ref(a, n, 2, 0)]
		}
		return c
	default:
		fee := new(big.Int).SetUint64(uint64(priceLevels[0]) * gasLevels[0])
		keep := big.NewInt(2_200_000) // leaves enough for one more cheap 21 000-gas tx but no big one
		v := new(big.Int).Sub(st.Bal, fee)
		v.Sub(v, keep)
		if v.Sign() <= 0 {
			return e.u.canon[ref(a, n, 0, 0)]
		}
		return e.u.drain(a, st.Nonce, v)
	}
}

// ---------------------------------------------------------------------------------------------
// quiescence

// quiesce brings the pool to the quiescent point the oracle is defined on: every head event
// handed over by pool.loop (feed mode), then two synchronous reset runs on the current head (the first one
// applies reset/promote/demote/truncate; the second one runs on an already consistent pending set,
// so the per-account queue cap applied in promoteExecutables is final). Returns the snapshot and
// the model block the pool says it is at.
func (e *env) quiesce() (*core.VerifPoolSnapshot, *block, callResult, error) {
	var snap *core.VerifPoolSnapshot
	var at *block
	var herr error
	cr := e.call(func() {
		for attempt := 0; attempt < 200; attempt++ {
			if e.feedMode {
				// pool.loop handles chain-head events one at a time and ignores events without a
				// block; once it has taken this sentinel from its channel it has finished handing
				// every earlier head event to the reorg loop (requestReset returns only after the
				// request was registered), so the reset requests below are ordered after them.
				e.chain.headMu.Lock()
				e.chain.feed.Send(core.ChainHeadEvent{})
				e.chain.headMu.Unlock()
				for i := 0; len(e.chain.headCh) > 0; i++ {
					if i > 200000 {
						herr = fmt.Errorf("pool.loop does not drain the chain-head channel")
						return
					}
					time.Sleep(50 * time.Microsecond)
				}
			}
			cur := e.chain.Head()
			e.pool.VerifSyncReset(cur.wo, cur.wo)
			e.pool.VerifSyncReset(cur.wo, cur.wo)
			snap = e.pool.VerifSnapshot()
			e.chain.mu.RLock()
			at = e.chain.byGas[snap.CurrentMaxGas]
			e.chain.mu.RUnlock()
			if at == e.chain.Head() {
				herr = nil
				return
			}
			herr = fmt.Errorf("pool is at %v after a synchronous reset to %v", at, cur)
			if !e.feedMode {
				return
			}
			time.Sleep(time.Millisecond) // a head event was still in flight inside pool.loop
		}
	})
	return snap, at, cr, herr
}
