package c19

import (
	"crypto/ecdsa"
	"crypto/sha256"
	"fmt"
	"sync"

	"github.com/btcsuite/btcd/btcec/v2"
	"github.com/btcsuite/btcd/btcec/v2/schnorr"
	"github.com/dominant-strategies/go-quai/common"
	"github.com/dominant-strategies/go-quai/core/rawdb"
	"github.com/dominant-strategies/go-quai/core/types"
	"github.com/dominant-strategies/go-quai/crypto"
	"github.com/dominant-strategies/go-quai/ethdb"
)

// A tiny Qi universe. q0..q3 are signature-valid single-input Qi transactions: q0..q2 spend three
// different outputs owned by key 0; q3 spends the same output as q0 (a conflicting spend) and pays
// a different fee. The spent outputs exist in the database handed to the pool, so the pool's real
// ValidateQiTxInputs / ValidateQiTxOutputsAndSignature accept them. q4..q6 must be rejected:
// q4 pays to an inactive zone (0-1) AND spends an unknown output, q5 only spends an unknown output,
// q6 only pays to the inactive zone.
const (
	nQiValid = 4
	nQi      = 7
)

type qiStatic struct {
	keys   [2]*ecdsa.PrivateKey
	bkeys  [2]*btcec.PrivateKey
	addrs  [2]common.Address
	outs   [4]types.OutPoint // outs[3] is not in the database
	txs    [nQi]*types.Transaction
	hashes map[common.Hash]int
}

var (
	qiOnce sync.Once
	qiS    *qiStatic
)

func getQi() *qiStatic {
	qiOnce.Do(func() {
		q := &qiStatic{hashes: map[common.Hash]int{}}
		n := 0
		for ctr := 0; n < 2; ctr++ {
			if ctr > 100000 {
				panic("HARNESS: no qi-scope key found")
			}
			seed := sha256.Sum256([]byte(fmt.Sprintf("c19-qi-key-%d", ctr)))
			k, err := crypto.ToECDSA(seed[:])
			if err != nil {
				continue
			}
			a := crypto.PubkeyToAddress(k.PublicKey, loc)
			if !a.IsInQiLedgerScope() || !common.IsInChainScope(a.Bytes(), loc) {
				continue
			}
			q.keys[n], q.addrs[n] = k, a
			q.bkeys[n], _ = btcec.PrivKeyFromBytes(seed[:])
			n++
		}
		for i := range q.outs {
			h := sha256.Sum256([]byte(fmt.Sprintf("c19-qi-outpoint-%d", i)))
			h[0], h[2] = 0, 0 // origin zone 0-0
			hash := common.BytesToHash(h[:])
			q.outs[i] = *types.NewOutPoint(&hash, 0)
		}
		inactive := append([]byte(nil), q.addrs[1].Bytes()...)
		inactive[0] = 0x01 // zone 0-1, which is not live at expansion number 0
		inactive[1] |= 0x80
		mk := func(out int, denom uint8, to []byte) *types.Transaction {
			in := types.TxIn{PreviousOutPoint: q.outs[out], PubKey: crypto.FromECDSAPub(&q.keys[0].PublicKey)}
			o := types.TxOut{Denomination: denom, Address: to}
			inner := &types.QiTx{ChainID: chainID, TxIn: types.TxIns{in}, TxOut: types.TxOuts{o}}
			digest := signer.Hash(types.NewTx(inner))
			sig, err := schnorr.Sign(q.bkeys[0], digest[:])
			if err != nil {
				panic("HARNESS: schnorr sign: " + err.Error())
			}
			inner.Signature = sig
			return types.NewTx(inner)
		}
		good := q.addrs[1].Bytes()
		q.txs[0] = mk(0, 4, good)
		q.txs[1] = mk(1, 4, good)
		q.txs[2] = mk(2, 3, good)
		q.txs[3] = mk(0, 2, good)
		q.txs[4] = mk(3, 4, inactive)
		q.txs[5] = mk(3, 3, good)
		q.txs[6] = mk(1, 2, inactive)
		for i, tx := range q.txs {
			q.hashes[tx.Hash()] = i
		}
		qiS = q
	})
	return qiS
}

type qiWorld struct {
	*qiStatic
}

func newQiWorld(db ethdb.Database, genesis *block) *qiWorld {
	q := getQi()
	for i := range q.outs[:3] {
		entry := types.NewUtxoEntry(types.NewTxOut(5, q.addrs[0].Bytes(), nil))
		if err := rawdb.CreateUTXO(db, q.outs[i].TxHash, q.outs[i].Index, entry); err != nil {
			panic("HARNESS: CreateUTXO: " + err.Error())
		}
	}
	return &qiWorld{q}
}

func (q *qiWorld) fresh(i int) *types.Transaction { return types.NewTx(q.txs[i].Inner()) }
