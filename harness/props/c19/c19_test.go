package c19

import (
	"fmt"
	"os"
	"path/filepath"
	"regexp"
	"runtime"
	"sort"
	"strings"
	"sync"
	"testing"
	"time"

	"github.com/dominant-strategies/go-quai/common"
	"github.com/dominant-strategies/go-quai/core"
	"github.com/dominant-strategies/go-quai/core/types"
	"pgregory.net/rapid"

	"verifharness/stats"
)

// ---------------------------------------------------------------------------------------------
// one sequential case

type stepLog struct {
	Op      string   `json:"op"`
	Outcome []string `json:"outcome,omitempty"`
}

type caseDump struct {
	Mode  string    `json:"mode"`
	Steps []stepLog `json:"steps"`
	Pool  *view     `json:"pool,omitempty"`
	Logs  any       `json:"pool_error_logs,omitempty"`
	Extra string    `json:"extra,omitempty"`
}

type seqCase struct {
	t      stats.TB
	part   string
	e      *env
	pre    *core.VerifPoolSnapshot
	at     *block
	steps  []stepLog
	labels map[string]bool
	sig    []string
	// accounts whose pending list was hit by the listed known finding FPReorgGap in this case: the
	// follow-on symptoms (hole, nonce tracker) are not reported again for them
	tainted      [nAccts]bool
	asyncRemoved map[common.Hash]bool // Qi hashes handed to AsyncRemoveQiTxs (removal time unknown)
}

func newSeqCase(t stats.TB, part string, feedMode bool) *seqCase {
	return newSeqCaseJ(t, part, feedMode, false)
}

func newSeqCaseJ(t stats.TB, part string, feedMode, journal bool) *seqCase {
	c := &seqCase{t: t, part: part, e: newEnvJ(feedMode, journal), labels: map[string]bool{}, asyncRemoved: map[common.Hash]bool{}}
	c.settle("init")
	return c
}

func (c *seqCase) dump(extra string) caseDump {
	d := caseDump{Mode: "direct", Steps: c.steps, Logs: c.e.hook.errCounts(), Extra: extra}
	if c.e.feedMode {
		d.Mode = "feed"
	}
	if c.pre != nil && c.at != nil {
		v := makeView(c.e.u, c.pre, c.at)
		d.Pool = &v
	}
	return d
}

func (c *seqCase) violation(fp, msg string) {
	c.t.Helper()
	announce(fp, msg)
	stats.Violation(c.t, c.part, fp, msg, c.dump(""))
}

// announce makes sure the driver's marker is in the output even when rapid rewrites the failure.
func announce(fp, msg string) {
	if !stats.IsKnown(fp) {
		fmt.Printf("VERIF-VIOLATION fingerprint=%s: %s\n", fp, msg)
	}
}

var poolFrame = regexp.MustCompile(`core\.\(\*(TxPool|txList|txSortedMap|txPricedList|txLookup|txNoncer|accountSet)\)\.([A-Za-z0-9_]+)`)

func topPoolFrame(stack string) string {
	if m := poolFrame.FindStringSubmatch(stack); m != nil {
		return m[1] + "." + m[2]
	}
	return "unknown"
}

// checkCall turns what happened around a pool call into a verdict.
func (c *seqCase) checkCall(cr callResult, what string) {
	c.t.Helper()
	for _, p := range c.e.hook.takePanics() {
		c.violation("C19/panic/"+topPoolFrame(p), "a pool goroutine panicked (recovered and logged by the pool) during "+what+": "+firstLines(p, 12))
	}
	if cr.panicVal != nil {
		c.violation("C19/panic/"+topPoolFrame(cr.stack), fmt.Sprintf("%s panicked: %v\n%s", what, cr.panicVal, firstLines(cr.stack, 30)))
	}
	if cr.hang {
		if isPool, why := classifyHang(cr.dump, "c19.(*env).call.func1"); isPool {
			c.violation("C19/deadlock", what+" never returned: "+why)
		} else {
			c.t.Fatalf("HARNESS: %s did not return within %v and the goroutine dump does not show the pool blocking it (%s)", what, c.e.deadline, why)
		}
	}
}

func firstLines(s string, n int) string {
	l := strings.Split(s, "\n")
	if len(l) > n {
		l = l[:n]
	}
	return strings.Join(l, "\n")
}

// settle brings the pool to quiescence, evaluates every structural invariant and stores the
// snapshot as the pre-state of the next step.
func (c *seqCase) settle(what string) *core.VerifPoolSnapshot {
	c.t.Helper()
	snap, at, cr, herr := c.e.quiesce()
	c.checkCall(cr, "quiesce after "+what)
	if herr != nil {
		c.t.Fatalf("HARNESS: %v", herr)
	}
	c.pre, c.at = snap, at
	c.judge(snap, at, true, "after "+what)
	return snap
}

// glance takes a snapshot right now, without waiting for any reorg run (the pool lock makes it
// atomic), and evaluates the invariants every critical section of the pool maintains.
func (c *seqCase) glance(what string) {
	c.t.Helper()
	var snap *core.VerifPoolSnapshot
	var at *block
	cr := c.e.call(func() {
		snap = c.e.pool.VerifSnapshot()
		c.e.chain.mu.RLock()
		at = c.e.chain.byGas[snap.CurrentMaxGas]
		c.e.chain.mu.RUnlock()
	})
	c.checkCall(cr, "snapshot "+what)
	if at == nil {
		c.t.Fatalf("HARNESS: pool reports gas limit %d which is no block of this case", snap.CurrentMaxGas)
	}
	save, saveAt := c.pre, c.at
	c.pre, c.at = snap, at // for the dump
	c.judge(snap, at, false, what+", before any reorg run")
	c.pre, c.at = save, saveAt
}

// judge evaluates a snapshot and reports what it finds; it applies the known-finding protocol.
func (c *seqCase) judge(snap *core.VerifPoolSnapshot, at *block, quiescent bool, what string) {
	c.t.Helper()
	fs := checkSnapshot(c.e.u, snap, at, quiescent)
	// a hole at a nonce that had already been mined on an earlier head is the reorg re-injection
	// finding; any other hole keeps the generic fingerprint
	for i := range fs {
		// (a hole in the MIDDLE of the list only: a list that starts above the state nonce is the
		// gap-in-front case the pool repairs by postponing the list, never the finding)
		if fs[i].FP == "C19/pending-noncontiguous" && fs[i].Acct >= 0 && fs[i].Gap < c.e.chain.maxNonce(fs[i].Acct) && fs[i].Gap > at.st[fs[i].Acct].Nonce {
			fs[i].FP = FPReorgGap
			fs[i].Msg += fmt.Sprintf(" — nonce %d had been mined on an earlier head, a reorg lowered the account nonce and the re-injection left the hole", fs[i].Gap)
		}
	}
	sort.SliceStable(fs, func(i, j int) bool { return fs[i].FP == FPReorgGap && fs[j].FP != FPReorgGap })
	var live []finding
	for _, f := range fs {
		if f.Acct >= 0 && c.tainted[f.Acct] && (f.FP == FPReorgGap || f.FP == "C19/pending-nonce-tracker") {
			continue
		}
		if f.FP == FPTrackerLow && stats.IsKnown(FPTrackerLow) {
			// transient (the next reset run rebuilds the tracker): count and go on
			c.labels["known_tracker_low_hit"] = true
			stats.Violation(c.t, c.part, f.FP, f.Msg+" ("+what+")", c.dump(""))
			continue
		}
		if f.FP == FPReorgGap && stats.IsKnown(FPReorgGap) {
			c.tainted[f.Acct] = true
			c.labels["known_reorg_gap_hit"] = true
			stats.Violation(c.t, c.part, f.FP, f.Msg, c.dump("")) // counted as a known hit
			continue
		}
		live = append(live, f)
	}
	if len(live) > 0 {
		var rest []string
		for _, f := range live[1:] {
			rest = append(rest, f.FP)
		}
		msg := live[0].Msg + " (" + what + ")"
		if len(rest) > 0 {
			msg += fmt.Sprintf("; also: %v", rest)
		}
		c.violation(live[0].FP, msg)
	}
}

func errClass(err error) string {
	if err == nil {
		return "ok"
	}
	s := err.Error()
	for _, k := range []string{"already known", "replacement transaction underpriced", "transaction underpriced", "txpool is full", "nonce too low",
		"insufficient funds", "exceeds block gas limit", "incorrect or low gas price", "intrinsic gas", "non-existent UTXO", "inactive chain", "invalid sender"} {
		if strings.Contains(s, k) {
			return strings.ReplaceAll(k, " ", "_")
		}
	}
	return "other"
}

// step applies one operation, settles and runs the checks that compare the pool before and
// after the operation.
func (c *seqCase) step(o op) {
	c.t.Helper()
	pre := c.pre
	preAt := c.at
	r := c.e.apply(o)
	sl := stepLog{Op: o.String()}
	for _, err := range r.errs {
		sl.Outcome = append(sl.Outcome, errClass(err))
	}
	if r.block != nil {
		sl.Outcome = append(sl.Outcome, r.block.String())
	}
	c.steps = append(c.steps, sl)
	c.sig = append(c.sig, o.String())
	c.checkCall(r.cr, o.String())
	c.glance("right after " + o.String())
	post := c.settle(o.String())
	cfg := pre.Config
	u := c.e.u

	switch o.K {
	case "addRemote", "addRemoteSync", "addLocal", "addBatch", "addBatchSync":
		c.checkAdd(o, r, pre, post)
	case "head":
		if r.block != nil {
			c.labels["head_event"] = true
			if r.block.parent != r.old {
				c.labels["head_reorg"] = true
			}
			if r.block.gasLimit < baseGas {
				c.labels["head_low_gaslimit"] = true
			}
			moved := false
			for addr, ql := range pre.Queue {
				for n, tx := range ql.Items {
					if pl := post.Pending[addr]; pl != nil && pl.Items[n] != nil && pl.Items[n].Hash() == tx.Hash() {
						c.labels["promotion_by_head"] = true
						moved = true
					}
				}
			}
			for addr, pl := range pre.Pending {
				for n, tx := range pl.Items {
					if ql := post.Queue[addr]; ql != nil && ql.Items[n] != nil && ql.Items[n].Hash() == tx.Hash() {
						c.labels["demotion_by_head"] = true
						moved = true
					}
					if !inAll(post, tx.Hash()) {
						if n < c.at.st[u.idx[addr]].Nonce {
							c.labels["pending_dropped_mined_or_stale"] = true
						} else {
							c.labels["pending_dropped_unpayable_or_truncated"] = true
						}
					}
				}
			}
			for h := range post.AllRemotes {
				if !inAll(pre, h) {
					c.labels["resurrected_by_reorg"] = true
				}
			}
			for h := range post.AllLocals {
				if !inAll(pre, h) {
					c.labels["resurrected_by_reorg"] = true
				}
			}
			if moved {
				c.labels["nontrivial"] = true
			}
			// a linear head advance removes the Qi transactions the new block contains
			linear := r.block.parent == r.old
			if linear {
				for _, tx := range r.block.txs {
					if tx.Type() != types.QiTxType {
						continue
					}
					for _, h := range post.QiPool {
						if h == tx.Hash() {
							c.violation("C19/qi-mined-not-removed", fmt.Sprintf("Qi transaction %d was included in the new head %v but is still in the Qi pool", getQi().hashes[h], r.block))
						}
					}
					for _, h := range pre.QiPool {
						if h == tx.Hash() {
							c.labels["qi_removed_by_head"] = true
						}
					}
				}
			}
		}
	case "restart":
		c.labels["restart"] = true
		for h := range pre.AllLocals {
			if inAll(post, h) {
				c.labels["local_tx_survived_restart"] = true
			}
		}
	case "setPrice":
		if len(post.AllRemotes)+len(post.AllLocals) < len(pre.AllRemotes)+len(pre.AllLocals) {
			c.labels["dropped_by_setprice"] = true
		}
	case "qiRemoveAsync":
		c.asyncRemoved[c.e.chain.qi.txs[o.Qi].Hash()] = true
	case "qiRemove":
		h := c.e.chain.qi.txs[o.Qi].Hash()
		for _, ph := range pre.QiPool {
			if ph == h {
				c.labels["qi_removed"] = true
			}
		}
		for _, ph := range post.QiPool {
			if ph == h {
				c.violation("C19/qi-remove-ignored", fmt.Sprintf("RemoveQiTxs(%d) returned but the transaction is still in the Qi pool", o.Qi))
			}
		}
	}
	// pool-wide observations
	if len(post.AllRemotes)+len(post.AllLocals) >= int(cfg.GlobalSlots+cfg.GlobalQueue) {
		c.labels["pool_full"] = true
	}
	var pend, queued int
	for _, l := range post.Pending {
		pend += len(l.Items)
	}
	for _, l := range post.Queue {
		queued += len(l.Items)
	}
	if pend >= int(cfg.GlobalSlots) {
		c.labels["pending_at_global_limit"] = true
	}
	if queued >= int(cfg.GlobalQueue) {
		c.labels["queue_at_global_limit"] = true
	}
	if len(post.Locals) > 0 {
		c.labels["has_local_account"] = true
	}
	if len(post.QiPool) > 0 {
		c.labels["qi_pool_nonempty"] = true
	}
	_ = preAt
}

// checkAdd compares what an add call returned with what the pool holds afterwards.
func (c *seqCase) checkAdd(o op, r opResult, pre, post *core.VerifPoolSnapshot) {
	c.t.Helper()
	u, cfg := c.e.u, pre.Config
	if len(r.errs) != len(r.txs) {
		c.violation("C19/add-result-shape", fmt.Sprintf("%s returned %d results for %d transactions", o.String(), len(r.errs), len(r.txs)))
		return
	}
	inQi := func(s *core.VerifPoolSnapshot, h common.Hash) bool {
		for _, x := range s.QiPool {
			if x == h {
				return true
			}
		}
		return false
	}
	held := func(s *core.VerifPoolSnapshot, tx *types.Transaction) bool {
		if tx.Type() == types.QiTxType {
			return inQi(s, tx.Hash())
		}
		return inAll(s, tx.Hash())
	}
	nQiIn, nQuaiIn := 0, 0
	for i, tx := range r.txs {
		kind := "add_"
		if tx.Type() == types.QiTxType {
			kind = "qi_add_"
			nQiIn++
			if o.Txs[i].Qi-1 >= nQiValid {
				c.labels["qi_invalid_offered"] = true
			}
		} else {
			nQuaiIn++
		}
		c.labels[kind+errClass(r.errs[i])] = true
	}
	if nQiIn > 0 && nQuaiIn > 0 {
		c.labels["mixed_qi_quai_batch"] = true
	}
	// The per-transaction results are positional. Between the previous quiescent point and the
	// next one nothing but this call and reset runs on the unchanged head touch the pool.
	{
		okTwin := map[common.Hash]bool{}
		slot := map[string]int{} // how many batch entries compete for one (account, nonce)
		slotOf := func(i int) string { return fmt.Sprintf("%d/%d", o.Txs[i].Acct, o.Txs[i].Nonce) }
		for i, tx := range r.txs {
			if r.errs[i] == nil {
				okTwin[tx.Hash()] = true
			}
			if tx.Type() == types.QuaiTxType {
				slot[slotOf(i)]++
			}
		}
		roomy := len(pre.AllLocals)+len(pre.AllRemotes)+nQuaiIn <= int(cfg.AccountQueue) // no limit can be reached
		for i, tx := range r.txs {
			h := tx.Hash()
			switch {
			case r.errs[i] != nil && held(post, tx) && !held(pre, tx) && !okTwin[h]:
				c.violation("C19/add-error-but-pooled", fmt.Sprintf("%s: transaction #%d (%s) was answered with %q but is in the pool afterwards", o.String(), i, o.Txs[i], r.errs[i]))
			case r.errs[i] == nil && tx.Type() == types.QiTxType && !held(post, tx) && !c.asyncRemoved[h]:
				c.violation("C19/add-ok-but-absent", fmt.Sprintf("%s: Qi transaction #%d (%s) was answered with success but is not in the Qi pool afterwards", o.String(), i, o.Txs[i]))
			case r.errs[i] == nil && tx.Type() == types.QuaiTxType && roomy && slot[slotOf(i)] == 1 && !held(post, tx):
				c.violation("C19/add-ok-but-absent", fmt.Sprintf("%s: transaction #%d (%s) was answered with success, no limit was near, but it is not in the pool afterwards", o.String(), i, o.Txs[i]))
			}
			if r.errs[i] == nil && o.Txs[i].Qi-1 >= nQiValid {
				c.violation("C19/qi-invalid-accepted", fmt.Sprintf("%s: %s must be rejected (unknown input / inactive destination zone) but was accepted", o.String(), o.Txs[i]))
			}
		}
	}
	if len(r.txs) != 1 || r.txs[0].Type() != types.QuaiTxType {
		return
	}
	tx, err, ref := r.txs[0], r.errs[0], o.Txs[0]
	if inAll(pre, tx.Hash()) && err == nil {
		c.violation("C19/known-tx-accepted", fmt.Sprintf("%s was already in the pool and was accepted again", ref))
	}
	old, where := holder(pre, u.addrs[ref.Acct], uint64(ref.Nonce))
	full := uint64(len(pre.AllLocals)+len(pre.AllRemotes))+1 > cfg.GlobalSlots+cfg.GlobalQueue
	if old != nil && old.Hash() != tx.Hash() && !full {
		// same (account, nonce) as a transaction held at the previous quiescent point and no
		// room-making eviction possible: the only way in is the replacement rule
		if err == nil {
			c.labels["replacement_accepted_"+where] = true
			if !bumpOK(old, tx, cfg.PriceBump) {
				c.violation("C19/replacement-without-bump", fmt.Sprintf("%s replaced %s (%s) without the %d%% price bump", ref, u.describe(old), where, cfg.PriceBump))
			}
			if inAll(post, old.Hash()) {
				c.violation("C19/replaced-tx-still-indexed", fmt.Sprintf("%s replaced %s (%s) but the old transaction is still in the pool", ref, u.describe(old), where))
			}
		} else {
			c.labels["replacement_rejected_"+where] = true
			if bumpOK(old, tx, cfg.PriceBump) {
				c.labels["replacement_rejected_despite_bump"] = true // allowed (other validation rules), only measured
			}
		}
	}
}

func (c *seqCase) finish() {
	for msg := range c.e.hook.errCounts() {
		switch {
		case strings.Contains(msg, "Missing transaction in lookup set"):
			c.labels["log_missing_in_lookup"] = true
		case strings.Contains(msg, "No transaction found to be deleted"):
			c.labels["log_remove_unknown"] = true
		case strings.Contains(msg, "Demoting invalidated transactions"):
			c.labels["log_gapped_pending_repaired"] = true
		}
	}
	var labels []string
	for l := range c.labels {
		if l != "nontrivial" {
			labels = append(labels, l)
		}
	}
	sort.Strings(labels)
	stats.Case(c.part, strings.Join(c.sig, ";"), c.labels["nontrivial"], labels...)
	if stats.WantSample(c.part) {
		stats.Sample(c.part, c.dump(""))
	}
	c.e.close()
}

// ---------------------------------------------------------------------------------------------
// (i) exhaustive: every sequence of length <= 3 over a fixed alphabet

func noMine() (m [nAccts]mineSel) { return }

// alphabet is deterministic: every entry is a complete, parameter-free operation.
func alphabet() []op {
	mineAll := [nAccts]mineSel{{1, 0}, {1, 0}, {1, 0}, {1, 0}}
	return []op{
		{K: "addRemote", Txs: []txRef{ref(0, 0, 0, 0)}},                                                                    // A0 at 100
		{K: "addRemote", Txs: []txRef{ref(0, 1, 0, 0)}, Preset: true},                                                      // A1 at 100
		{K: "addRemote", Txs: []txRef{ref(0, 2, 2, 1)}},                                                                    // A2 at 120, big gas (gapped unless A1 is there)
		{K: "addRemote", Txs: []txRef{ref(0, 0, 1, 0)}},                                                                    // A0 at 105: below the bump
		{K: "addRemoteSync", Txs: []txRef{ref(0, 0, 2, 0)}},                                                                // A0 at 120: pays the bump
		{K: "addLocal", Txs: []txRef{ref(1, 0, 0, 0)}},                                                                     // B0 local
		{K: "addRemote", Txs: []txRef{ref(1, 1, 0, 1)}},                                                                    // B1 big gas: B cannot pay unless funded
		{K: "addBatch", Txs: []txRef{ref(2, 0, 1, 0), ref(2, 1, 1, 0), ref(2, 2, 1, 0), ref(2, 3, 1, 0), ref(2, 4, 1, 0)}}, // C0..C4: over every limit
		{K: "addBatch", Txs: []txRef{ref(3, 0, 0, 0), ref(3, 1, 0, 1), ref(3, 3, 0, 0)}, Preset: true},                     // D0, D1 (expensive), D3 (gap)
		{K: "setPrice", Price: 110},
		{K: "head", Head: &headSpec{Blocks: 1, Mine: mineAll, Fund: -1}},                                       // mine the first transaction of everybody
		{K: "head", Head: &headSpec{Blocks: 1, Mine: [nAccts]mineSel{{}, {}, {}, {1, 2}}, Fund: 1}},            // D sends its money away elsewhere, B is funded
		{K: "head", Head: &headSpec{Depth: 1, Blocks: 1, Mine: [nAccts]mineSel{{1, 1}, {}, {}, {}}, Fund: -1}}, // sibling of the head: a competing A tx, everything else comes back
		{K: "head", Head: &headSpec{Blocks: 1, Mine: noMine(), Low: true, Fund: -1}},                           // gas limit drops below the big-gas txs
		{K: "addBatch", Txs: []txRef{qiRef(0), ref(2, 0, 0, 0), qiRef(4), qiRef(1)}},                           // Qi ok, Quai ok, Qi to an inactive zone with an unknown input, Qi ok
		{K: "addRemote", Txs: []txRef{qiRef(4)}},                                                               // the rejected Qi transaction alone
		{K: "head", Head: &headSpec{Blocks: 1, Mine: noMine(), Fund: -1, Qi: 1}},                               // block containing Qi tx 0
	}
}

func TestC19_Exhaustive(t *testing.T) {
	const part = "exhaustive"
	alpha := alphabet()
	n := len(alpha)
	maxLen := 3
	idx := 0
	var walk func(seq []int)
	run := func(seq []int) {
		c := newSeqCase(t, part, false)
		for _, i := range seq {
			c.step(alpha[i])
		}
		c.finish()
	}
	walk = func(seq []int) {
		mine := idx%stats.NShards() == stats.Shard()
		idx++
		if mine {
			run(seq)
		}
		if len(seq) == maxLen {
			return
		}
		for i := 0; i < n; i++ {
			walk(append(append([]int(nil), seq...), i))
		}
	}
	walk(nil)
	stats.Exhaustive(part)
	t.Logf("alphabet %d, sequences of length <= %d: %d in total, this shard ran 1/%d of them", n, maxLen, idx, stats.NShards())
}

// ---------------------------------------------------------------------------------------------
// (ii) random long sequences

func genTxRef(rt *rapid.T, head *block) txRef {
	if rapid.IntRange(0, 7).Draw(rt, "qi?") == 0 {
		return qiRef(rapid.SampledFrom([]int{0, 0, 1, 1, 2, 3, 4, 5, 6}).Draw(rt, "qi"))
	}
	a := rapid.IntRange(0, nAccts-1).Draw(rt, "acct")
	base := int(head.st[a].Nonce)
	n := base + rapid.SampledFrom([]int{-1, 0, 0, 0, 1, 1, 1, 2, 2, 3, 4}).Draw(rt, "nonceOff")
	if n < 0 {
		n = 0
	}
	if n >= nNonces {
		n = nNonces - 1
	}
	p := rapid.SampledFrom([]int{0, 0, 0, 1, 1, 2, 2}).Draw(rt, "price")
	g := rapid.SampledFrom([]int{0, 0, 1}).Draw(rt, "gas")
	return ref(a, n, p, g)
}

func genHead(rt *rapid.T) *headSpec {
	h := &headSpec{Fund: -1, Blocks: 1}
	switch rapid.SampledFrom([]string{"adv", "adv", "adv", "adv", "adv", "reorg", "reorg", "reorg", "back"}).Draw(rt, "headKind") {
	case "back":
		h.Back = true
		return h
	case "reorg":
		h.Depth = rapid.IntRange(1, 3).Draw(rt, "depth")
		h.Blocks = rapid.IntRange(1, 2).Draw(rt, "blocks")
	}
	for a := 0; a < nAccts; a++ {
		h.Mine[a].N = rapid.SampledFrom([]int{0, 0, 0, 1, 1, 2, 3}).Draw(rt, "mineN")
		h.Mine[a].Mode = rapid.SampledFrom([]int{0, 0, 0, 0, 1, 2}).Draw(rt, "mineMode")
	}
	h.Low = rapid.IntRange(0, 4).Draw(rt, "low") == 0
	if rapid.IntRange(0, 5).Draw(rt, "fund?") == 0 {
		h.Fund = rapid.SampledFrom([]int{1, 3, 3}).Draw(rt, "fund")
	}
	if rapid.IntRange(0, 4).Draw(rt, "qi?") == 0 {
		h.Qi = rapid.IntRange(1, 1<<nQiValid-1).Draw(rt, "qiMask")
	}
	return h
}

var opKinds = func() []string {
	w := map[string]int{"addRemote": 28, "addRemoteSync": 8, "addLocal": 10, "addBatch": 10, "addBatchSync": 3, "setPrice": 5, "head": 26,
		"qiRemove": 3, "qiRemoveAsync": 1, "read": 3}
	var ks []string
	for k := range w {
		ks = append(ks, k)
	}
	sort.Strings(ks)
	var out []string
	for _, k := range ks {
		for i := 0; i < w[k]; i++ {
			out = append(out, k)
		}
	}
	return out
}()

func genOp(rt *rapid.T, head *block) op {
	o := op{K: rapid.SampledFrom(opKinds).Draw(rt, "op")}
	switch o.K {
	case "addRemote", "addRemoteSync", "addLocal":
		o.Txs = []txRef{genTxRef(rt, head)}
		o.Preset = rapid.Bool().Draw(rt, "preset")
	case "addBatch", "addBatchSync":
		n := rapid.IntRange(2, 6).Draw(rt, "batch")
		first := genTxRef(rt, head)
		if first.Qi == 0 && rapid.Bool().Draw(rt, "run") { // a run of consecutive nonces of one account
			for i := 0; i < n && first.Nonce+i < nNonces; i++ {
				pr := rapid.SampledFrom([]int{0, 0, 1, 2}).Draw(rt, "runPrice")
				gs := rapid.SampledFrom([]int{0, 0, 1}).Draw(rt, "runGas")
				o.Txs = append(o.Txs, ref(first.Acct, first.Nonce+i, pr, gs))
			}
		} else {
			o.Txs = append(o.Txs, first)
			for i := 1; i < n; i++ {
				o.Txs = append(o.Txs, genTxRef(rt, head))
			}
		}
		o.Preset = rapid.Bool().Draw(rt, "preset")
	case "setPrice":
		o.Price = rapid.SampledFrom([]int64{1, 1, 101, 110, 121}).Draw(rt, "minPrice")
	case "head":
		o.Head = genHead(rt)
	case "qiRemove", "qiRemoveAsync":
		o.Qi = rapid.IntRange(0, nQiValid-1).Draw(rt, "qi")
	case "read":
		o.Read = rapid.IntRange(0, 7).Draw(rt, "read")
	}
	return o
}

func TestC19_Random(t *testing.T) {
	const part = "random"
	rapid.Check(t, func(rt *rapid.T) {
		feed := rapid.IntRange(0, 3).Draw(rt, "feedMode") == 0
		journal := rapid.IntRange(0, 2).Draw(rt, "journal") == 0
		c := newSeqCaseJ(rt, part, feed, journal)
		n := rapid.SampledFrom([]int{6, 10, 15, 20, 25, 30, 35, 40, stats.Scale(40, 50), stats.Scale(40, 60)}).Draw(rt, "len")
		for i := 0; i < n; i++ {
			if journal && rapid.IntRange(0, 24).Draw(rt, "restart?") == 0 {
				c.step(op{K: "restart"})
				continue
			}
			c.step(genOp(rt, c.e.chain.Head()))
		}
		if feed {
			c.labels["mode_feed"] = true
		}
		if journal {
			c.labels["mode_journal"] = true
		}
		// distinct by op-kind sequence rather than by every parameter
		var kinds []string
		for _, s := range c.steps {
			kinds = append(kinds, s.Op)
		}
		c.finish()
	})
}

// ---------------------------------------------------------------------------------------------
// (iii) the same operations from 2-8 goroutines, race detector on

type raceLog struct {
	mu   sync.Mutex
	offs map[string]int64
}

var races = &raceLog{offs: map[string]int64{}}

func raceLogPath() string {
	for _, f := range strings.Fields(os.Getenv("GORACE")) {
		if strings.HasPrefix(f, "log_path=") {
			return strings.TrimPrefix(f, "log_path=")
		}
	}
	return ""
}

// newReports returns the race reports written since the previous call.
func (r *raceLog) newReports() []string {
	p := raceLogPath()
	if p == "" {
		return nil
	}
	r.mu.Lock()
	defer r.mu.Unlock()
	files, _ := filepath.Glob(p + ".*")
	sort.Strings(files)
	var out []string
	for _, f := range files {
		b, err := os.ReadFile(f)
		if err != nil {
			continue
		}
		off := r.offs[f]
		if int64(len(b)) <= off {
			continue
		}
		chunk := string(b[off:])
		// only consume complete reports (they end with a separator line)
		end := strings.LastIndex(chunk, "==================\n")
		if end < 0 {
			continue
		}
		end += len("==================\n")
		r.offs[f] = off + int64(end)
		for _, rep := range strings.Split(chunk[:end], "WARNING: DATA RACE")[1:] {
			out = append(out, "WARNING: DATA RACE"+rep)
		}
	}
	return out
}

var (
	accessLine = regexp.MustCompile(`^(Write|Read|Previous write|Previous read|Atomic write|Atomic read|Previous atomic write|Previous atomic read) at `)
	frameFunc  = regexp.MustCompile(`^  (\S+)\(`)
)

// raceFingerprint names a report by the innermost go-quai function of each of the two accesses.
func raceFingerprint(rep string) (fp string, inRepo bool, where string) {
	lines := strings.Split(rep, "\n")
	var tops []string
	var locs []string
	for i := 0; i < len(lines); i++ {
		if !accessLine.MatchString(lines[i]) {
			continue
		}
		top := ""
		loc := ""
		first := ""
		for j := i + 1; j < len(lines) && strings.TrimSpace(lines[j]) != ""; j++ {
			m := frameFunc.FindStringSubmatch(lines[j])
			if m == nil {
				continue
			}
			if first == "" {
				first = m[1]
			}
			if strings.Contains(m[1], "dominant-strategies/go-quai/") {
				top = m[1][strings.LastIndex(m[1], "/")+1:]
				top = strings.TrimPrefix(top, "core.")
				top = strings.NewReplacer("(*", "", ")", "").Replace(top)
				if j+1 < len(lines) {
					loc = strings.TrimSpace(lines[j+1])
				}
				break
			}
		}
		if top == "" {
			top = "outside:" + first
		} else {
			inRepo = true
		}
		tops = append(tops, top)
		locs = append(locs, loc)
	}
	sort.Strings(tops)
	return "C19/race/" + strings.Join(tops, "|"), inRepo, strings.Join(locs, " <-> ")
}

type workerResult struct {
	ops  []string
	errs []string
	cr   *callResult
	what string
}

func TestC19_Concurrent(t *testing.T) {
	const part = "concurrent"
	if raceEnabled && raceLogPath() == "" {
		t.Logf("note: GORACE log_path is not set; a data race will fail this test through the testing package instead of being reported as a violation")
	}
	genesis := newEnv(false)
	g0 := genesis.chain.Head()
	genesis.close()
	rapid.Check(t, func(rt *rapid.T) {
		workers := rapid.IntRange(2, 8).Draw(rt, "workers")
		n := rapid.IntRange(workers, stats.Scale(40, 60)).Draw(rt, "ops")
		procs := rapid.SampledFrom([]int{1, 2, 4, 8}).Draw(rt, "gomaxprocs")
		plan := make([][]op, workers)
		yields := make([][]int, workers)
		kinds := map[string]int{}
		for i := 0; i < n; i++ {
			o := genOp(rt, g0)
			w := rapid.IntRange(0, workers-1).Draw(rt, "worker")
			plan[w] = append(plan[w], o)
			yields[w] = append(yields[w], rapid.IntRange(0, 3).Draw(rt, "yield"))
			kinds[o.K]++
		}
		// pure readers beside the workers: two or three goroutines that only take the pool's read
		// lock (what RPC clients and the block producer do all the time), so that reader/reader
		// interleavings occur, not only reader/writer ones
		readers := rapid.SampledFrom([]int{0, 2, 2, 3}).Draw(rt, "readers")
		for r := 0; r < readers; r++ {
			var rp []op
			var ry []int
			for i, k := 0, rapid.IntRange(3, 10).Draw(rt, "reads"); i < k; i++ {
				rp = append(rp, op{K: "read", Read: rapid.SampledFrom([]int{0, 1, 3, 3, 0, 1, 2, 4, 5, 6, 7}).Draw(rt, "read")})
				ry = append(ry, rapid.IntRange(0, 3).Draw(rt, "yield"))
				kinds["read"]++
			}
			plan, yields = append(plan, rp), append(yields, ry)
		}
		workers += readers
		journal := rapid.IntRange(0, 2).Draw(rt, "journal") == 0
		e := newEnvJ(true, journal)
		labels := map[string]bool{}
		if readers > 0 {
			labels["pure_readers"] = true
		}
		if journal {
			labels["mode_journal"] = true
		}
		old := runtime.GOMAXPROCS(procs)
		results := make([]workerResult, workers)
		var wg sync.WaitGroup
		start := make(chan struct{})
		for w := 0; w < workers; w++ {
			wg.Add(1)
			go func(w int) {
				defer wg.Done()
				<-start
				res := &results[w]
				for i, o := range plan[w] {
					for y := 0; y < yields[w][i]; y++ {
						runtime.Gosched()
					}
					r := e.apply(o)
					res.ops = append(res.ops, o.String())
					for _, err := range r.errs {
						res.errs = append(res.errs, errClass(err))
					}
					if r.cr.panicVal != nil || r.cr.hang {
						cr := r.cr
						res.cr, res.what = &cr, o.String()
						return
					}
				}
			}(w)
		}
		// a reader that keeps taking locked snapshots while the workers run (what the block producer
		// or an RPC client could observe at any lock boundary)
		type shot struct {
			s  *core.VerifPoolSnapshot
			at *block
		}
		var shots []shot
		var shotCR *callResult
		stop := make(chan struct{})
		var swg sync.WaitGroup
		swg.Add(1)
		go func() {
			defer swg.Done()
			<-start
			for len(shots) < 24 {
				select {
				case <-stop:
					return
				default:
				}
				var sh shot
				cr := e.call(func() {
					sh.s = e.pool.VerifSnapshot()
					e.chain.mu.RLock()
					sh.at = e.chain.byGas[sh.s.CurrentMaxGas]
					e.chain.mu.RUnlock()
				})
				if cr.panicVal != nil || cr.hang {
					shotCR = &cr
					return
				}
				shots = append(shots, sh)
				time.Sleep(time.Duration(200+100*len(shots)) * time.Microsecond)
			}
		}()
		close(start)
		wg.Wait()
		close(stop)
		swg.Wait()
		runtime.GOMAXPROCS(old)

		c := &seqCase{t: rt, part: part, e: e, labels: labels, asyncRemoved: map[common.Hash]bool{}}
		for w := range results {
			c.steps = append(c.steps, stepLog{Op: fmt.Sprintf("worker %d: %s", w, strings.Join(results[w].ops, " ; ")), Outcome: results[w].errs})
		}
		accepted := 0
		for w := range results {
			for _, s := range results[w].errs {
				if s == "ok" {
					accepted++
				}
				labels["add_"+s] = true
			}
		}
		for w := range results {
			if results[w].cr != nil {
				c.checkCall(*results[w].cr, fmt.Sprintf("worker %d: %s", w, results[w].what))
			}
		}
		if shotCR != nil {
			c.checkCall(*shotCR, "snapshot while the workers were running")
		}
		for i, sh := range shots {
			if sh.at == nil {
				rt.Fatalf("HARNESS: pool reports gas limit %d which is no block of this case", sh.s.CurrentMaxGas)
			}
			c.pre, c.at = sh.s, sh.at
			c.judge(sh.s, sh.at, false, fmt.Sprintf("snapshot %d taken while the workers were running", i))
		}
		if len(shots) > 0 {
			labels["midflight_snapshots"] = true
		}
		c.glance("all workers finished")
		c.settle("all workers finished")
		// race reports written while this case ran
		for _, rep := range races.newReports() {
			fp, inRepo, where := raceFingerprint(rep)
			if !inRepo {
				rt.Fatalf("HARNESS: data race outside the repository code:\n%s", firstLines(rep, 40))
			}
			msg := "data race between pool operations at " + where + "\n" + firstLines(rep, 45)
			announce(fp, "data race at "+where)
			stats.Violation(rt, part, fp, msg, c.dump(firstLines(rep, 80)))
		}
		var ks []string
		for k, v := range kinds {
			ks = append(ks, fmt.Sprintf("%s:%d", k, v))
			labels["has_"+k] = true
		}
		sort.Strings(ks)
		nontrivial := kinds["head"] > 0 && accepted > 0 && workers >= 2
		var ls []string
		for l := range labels {
			ls = append(ls, l)
		}
		ls = append(ls, fmt.Sprintf("workers_%d", workers), fmt.Sprintf("gomaxprocs_%d", procs))
		if nontrivial {
			ls = append(ls, "head_event_with_concurrent_adds")
		}
		sort.Strings(ls)
		sig := fmt.Sprintf("w%d %s", workers, strings.Join(ks, ","))
		stats.Case(part, sig, nontrivial, ls...)
		if stats.WantSample(part) {
			stats.Sample(part, c.dump(""))
		}
		e.close()
	})
}
