package c19

import (
	"testing"

	"verifharness/stats"
)

// reorgGapHistory is the hand-minimised history of the confirmed finding FPReorgGap:
//
//	A0, A1 (cheap), A2 pending; A0 and A1 are mined; the node raises its minimum price; a one-block
//	reorg to a sibling that contains none of them lowers A's state nonce back to 0. The pool
//	re-injects A0 (accepted) and A1 (rejected: below the new minimum price) and promotes A0 into
//	the pending list that still holds A2: pending = [A0, A2], pool.Nonce(A) = 3, and
//	TxPoolPending hands [A0, A2] to the block producer.
func reorgGapHistory() []op {
	return []op{
		{K: "addBatch", Txs: []txRef{ref(0, 0, 2, 0), ref(0, 1, 0, 0), ref(0, 2, 2, 0)}},
		{K: "head", Head: &headSpec{Blocks: 1, Mine: [nAccts]mineSel{{2, 0}, {}, {}, {}}, Fund: -1}},
		{K: "setPrice", Price: 110},
		{K: "head", Head: &headSpec{Depth: 1, Blocks: 1, Fund: -1}},
	}
}

// trackerLowHistory is the hand-minimised history of the confirmed finding FPTrackerLow:
//
//	A0 is mined in b1. The pool then fills up completely (4 pending: A1 B0 C0 D0, 4 queued: A3 B2
//	C2 D2) with C0 the cheapest remote transaction. A one-block reorg to a sibling b1' that contains
//	C0 but not A0: reset() rebuilds the nonce tracker from the new state (C: 1), re-injects A0 into
//	the full pool, add() evicts the cheapest remote transaction, which is C0 — still sitting in
//	pending because demoteUnexecutables has not run yet — and removeTx lowers C's virtual nonce to
//	0, below the state nonce 1. Nothing corrects it in this run (C has no pending list any more):
//	pool.Nonce(C) = 0 until the next reset run.
func trackerLowHistory() []op {
	return []op{
		{K: "addRemote", Txs: []txRef{ref(0, 0, 2, 0)}},
		{K: "head", Head: &headSpec{Blocks: 1, Mine: [nAccts]mineSel{{1, 0}, {}, {}, {}}, Fund: -1}},
		{K: "addBatch", Txs: []txRef{ref(2, 0, 0, 0), ref(0, 1, 1, 0), ref(1, 0, 1, 0), ref(3, 0, 1, 0)}},
		{K: "addBatch", Txs: []txRef{ref(2, 2, 1, 0), ref(0, 3, 1, 0), ref(1, 2, 1, 0), ref(3, 2, 1, 0)}},
		{K: "head", Head: &headSpec{Depth: 1, Blocks: 1, Mine: [nAccts]mineSel{{}, {}, {1, 0}, {}}, Fund: -1}},
	}
}

// TestC19_Regress_KnownFindings replays the minimal history of every listed known finding once per
// run through the normal oracle, so that the driver prints its KNOWN-FINDING line (or, once the
// defect is repaired and the entry removed, simply passes).
func TestC19_Regress_KnownFindings(t *testing.T) {
	const part = "regress"
	c := newSeqCase(t, part, false)
	c.e.excludeGap = false // this history IS the excluded input class
	for _, o := range reorgGapHistory() {
		c.step(o)
	}
	if !c.labels["known_reorg_gap_hit"] {
		stats.Note("regress: the reorg re-injection history no longer leaves a hole in the pending list")
	}
	c.labels["nontrivial"] = true
	c.finish()

	c = newSeqCase(t, part, false)
	c.e.excludeGap = false
	for _, o := range trackerLowHistory() {
		c.step(o)
	}
	if !c.labels["known_tracker_low_hit"] {
		stats.Note("regress: the full-pool re-injection history no longer pushes the nonce tracker below the state nonce")
	}
	c.labels["nontrivial"] = true
	c.finish()
}
