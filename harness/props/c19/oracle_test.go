package c19

import (
	"fmt"
	"math/big"
	"sort"
	"strings"

	"github.com/dominant-strategies/go-quai/common"
	"github.com/dominant-strategies/go-quai/core"
	"github.com/dominant-strategies/go-quai/core/types"
)

// finding is one oracle failure: fingerprint names the broken invariant.
type finding struct {
	FP   string
	Msg  string
	Acct int    // account the finding is about, -1 if none
	Gap  uint64 // pending-noncontiguous: the first missing nonce
}

func sortedTxs(l *core.VerifTxList) []*types.Transaction {
	out := make([]*types.Transaction, 0, len(l.Items))
	for _, tx := range l.Items {
		out = append(out, tx)
	}
	sort.Slice(out, func(i, j int) bool { return out[i].Nonce() < out[j].Nonce() })
	return out
}

// checkSnapshot evaluates the structural invariants of the property statement on a snapshot taken
// at a quiescent point. at is the model block the pool has been reset to (its state is the
// "account's state nonce / balance" of the statement); nonceOf is pool.Nonce.
//
// Where each invariant comes from (so that it cannot fire on a correct pool):
//   - pending nonce-contiguous from the state nonce: demoteUnexecutables (Forward(state nonce),
//     strict-mode invalidation on every removal, "gap in front" self-repair);
//   - pending affordable / within the block gas limit: txList.Filter(balance, currentMaxGas) in
//     demoteUnexecutables — per transaction (cost <= balance), which is what the pool enforces and
//     documents ("too costly (low balance or out of gas)"); the sum over the list is NOT enforced
//     by this pool (nor by the go-ethereum version it derives from) and is not required here;
//   - queue: promoteExecutables drops "too old (low nonce)" and "too costly" queued transactions;
//   - nothing pending and queued at once / one transaction per (account, nonce): add() routes a
//     nonce that overlaps pending into the pending list's replacement rule, everything else into
//     the queue list's; promotion moves, never copies;
//   - all == pending ∪ queue: every list mutation is paired with all.Add / all.Remove;
//   - priced ⊇ remote(all): txPricedList doc ("all the stored **remote** transactions"), stale
//     entries are allowed (lazy removal), heap order is container/heap's invariant;
//   - nothing executable stays queued across a reset run: promoteExecutables "moves transactions
//     that have become processable from the future queue to the set of pending transactions"
//     (Ready(state nonce) for every queued account; only the nonce equal to the state nonce is
//     required — with this fork's tracker rebuild a nonce equal to the pending tail may wait);
//   - pendingNonces: runReorg "Update all accounts to the latest known pending nonce";
//   - limits: truncatePending (total <= GlobalSlots unless nobody is above AccountSlots),
//     truncateQueue (total <= GlobalQueue), promoteExecutables (AccountQueue per account),
//     add() (slots <= GlobalSlots+GlobalQueue). Local accounts are "exempt from eviction rules"
//     (TxPool.locals doc), so only non-local accounts are held to the eviction-enforced limits;
//   - price floor: SetGasPrice "drops all transactions below this threshold" (remote only) and
//     validateTx rejects cheaper newcomers.
//
// quiescent=false is used for snapshots taken under the pool lock right after a call returned (or
// while other calls are in flight): everything above is maintained inside each critical section of
// the pool, except the eviction-enforced size limits, which only hold after a reorg run.
func checkSnapshot(u *universe, s *core.VerifPoolSnapshot, at *block, quiescent bool) []finding {
	nonceOf := func(a common.InternalAddress) uint64 {
		// the nonce tracker as of the snapshot: the noncer's cached value, else its fallback (the state)
		if n, ok := s.PendingNonces[a]; ok {
			return n
		}
		return at.st[u.idx[a]].Nonce
	}
	var out []finding
	add := func(fp, format string, a ...any) {
		out = append(out, finding{FP: "C19/" + fp, Msg: fmt.Sprintf(format, a...), Acct: -1})
	}

	locals := map[common.InternalAddress]bool{}
	for _, a := range s.Locals {
		locals[a] = true
	}
	inPending := map[common.Hash]bool{}
	inQueue := map[common.Hash]bool{}

	checkList := func(kind string, addr common.InternalAddress, l *core.VerifTxList) {
		ai, known := u.idx[addr]
		name := "?"
		if known {
			name = acctNames[ai]
		} else {
			add("unknown-account", "%s list for an address outside the universe: %x", kind, addr)
		}
		if len(l.Items) == 0 {
			add("empty-list", "%s[%s] is an empty list that was not deleted", kind, name)
		}
		if l.Strict != (kind == "pending") {
			add("strict-flag", "%s[%s] has strict=%v", kind, name, l.Strict)
		}
		// txSortedMap: index holds exactly the nonces of items; a cache, if present, is the sorted items
		idx := append([]uint64(nil), l.Index...)
		sort.Slice(idx, func(i, j int) bool { return idx[i] < idx[j] })
		var keys []uint64
		for n := range l.Items {
			keys = append(keys, n)
		}
		sort.Slice(keys, func(i, j int) bool { return keys[i] < keys[j] })
		if fmt.Sprint(idx) != fmt.Sprint(keys) {
			add("txlist-index", "%s[%s]: nonce heap %v does not match stored nonces %v", kind, name, idx, keys)
		}
		txs := sortedTxs(l)
		if l.HasCache {
			ok := len(l.Cache) == len(txs)
			for i := 0; ok && i < len(txs); i++ {
				ok = l.Cache[i] != nil && l.Cache[i].Hash() == txs[i].Hash()
			}
			if !ok {
				add("txlist-cache", "%s[%s]: cached flattened list differs from the stored transactions", kind, name)
			}
		}
		for n, tx := range l.Items {
			if tx == nil {
				add("txlist-index", "%s[%s]: nil transaction stored at nonce %d", kind, name, n)
				continue
			}
			if tx.Nonce() != n {
				add("txlist-index", "%s[%s]: transaction with nonce %d stored under %d", kind, name, tx.Nonce(), n)
			}
			if tx.Type() != types.QuaiTxType {
				add("qi-separation", "%s[%s] holds a non-Quai transaction %s", kind, name, u.describe(tx))
			}
			if known && u.senderIdx(tx) != ai {
				add("wrong-account", "%s[%s] holds %s", kind, name, u.describe(tx))
			}
			if tx.Cost().Cmp(l.CostCap) > 0 || tx.Gas() > l.GasCap {
				add("txlist-caps", "%s[%s]: %s exceeds the list's costcap %s / gascap %d", kind, name, u.describe(tx), l.CostCap, l.GasCap)
			}
			if kind == "pending" {
				inPending[tx.Hash()] = true
			} else {
				inQueue[tx.Hash()] = true
			}
		}
		if !known {
			return
		}
		st := at.st[ai]
		if kind == "pending" {
			for i, tx := range txs {
				if tx.Nonce() < st.Nonce {
					add("pending-stale-nonce", "pending[%s] nonces %s start below the state nonce %d", name, nonces(txs), st.Nonce)
					break
				}
				if tx.Nonce() != st.Nonce+uint64(i) {
					add("pending-noncontiguous", "pending[%s] nonces %s are not contiguous from the state nonce %d", name, nonces(txs), st.Nonce)
					out[len(out)-1].Acct, out[len(out)-1].Gap = ai, st.Nonce+uint64(i)
					break
				}
			}
		}
		for _, tx := range txs {
			if tx.Cost().Cmp(st.Bal) > 0 {
				add(kind+"-unaffordable", "%s[%s]: %s costs %s, balance is %s", kind, name, u.describe(tx), tx.Cost(), st.Bal)
			}
			if tx.Gas() > s.CurrentMaxGas {
				add(kind+"-over-gaslimit", "%s[%s]: %s needs more gas than the block limit %d", kind, name, u.describe(tx), s.CurrentMaxGas)
			}
			if kind == "queue" && tx.Nonce() < st.Nonce {
				add("queue-stale-nonce", "queue[%s]: %s is below the state nonce %d", name, u.describe(tx), st.Nonce)
			}
			if kind == "queue" && quiescent && tx.Nonce() == st.Nonce {
				// a reset run promotes for every queued account with Ready(state nonce)
				add("executable-left-in-queue", "queue[%s]: %s has the state nonce %d and is payable but was not promoted by the reset run", name, u.describe(tx), st.Nonce)
			}
		}
	}
	for _, addr := range sortedAddrs(s.Pending) {
		checkList("pending", addr, s.Pending[addr])
	}
	for _, addr := range sortedAddrs(s.Queue) {
		checkList("queue", addr, s.Queue[addr])
	}

	// nothing is pending and queued at once; one transaction per (account, nonce)
	for h := range inPending {
		if inQueue[h] {
			add("pending-and-queued", "transaction %s is both pending and queued", describeHash(u, s, h))
		}
	}
	for addr, pl := range s.Pending {
		if ql := s.Queue[addr]; ql != nil {
			for n := range pl.Items {
				if q := ql.Items[n]; q != nil {
					add("nonce-pending-and-queued", "account %s holds nonce %d twice: pending %s, queued %s", acctName(u, addr), n, u.describe(pl.Items[n]), u.describe(q))
				}
			}
		}
	}

	// all == pending ∪ queue
	for h, tx := range s.AllLocals {
		if _, dup := s.AllRemotes[h]; dup {
			add("all-local-and-remote", "%s is in both the local and the remote lookup", u.describe(tx))
		}
	}
	all := map[common.Hash]*types.Transaction{}
	slots := 0
	for _, m := range []map[common.Hash]*types.Transaction{s.AllLocals, s.AllRemotes} {
		for h, tx := range m {
			if tx.Hash() != h {
				add("all-key", "lookup key %x holds transaction %x", h, tx.Hash())
			}
			if tx.Type() != types.QuaiTxType {
				add("qi-separation", "lookup holds a non-Quai transaction %s", u.describe(tx))
			}
			if _, seen := all[h]; !seen {
				slots += int((tx.Size() + 32*1024 - 1) / (32 * 1024))
			}
			all[h] = tx
		}
	}
	var leak, missing []string
	for h, tx := range all {
		if !inPending[h] && !inQueue[h] {
			leak = append(leak, u.describe(tx))
		}
	}
	for _, lists := range []map[common.InternalAddress]*core.VerifTxList{s.Pending, s.Queue} {
		for _, l := range lists {
			for _, tx := range l.Items {
				if tx != nil && all[tx.Hash()] == nil {
					missing = append(missing, u.describe(tx))
				}
			}
		}
	}
	sort.Strings(leak)
	sort.Strings(missing)
	if len(leak) > 0 {
		add("all-leak", "in the hash index but neither pending nor queued: %v", leak)
	}
	if len(missing) > 0 {
		add("all-missing", "pending or queued but not in the hash index: %v", missing)
	}
	if slots != s.AllSlots {
		add("all-slots", "slot counter %d, transactions occupy %d", s.AllSlots, slots)
	}

	// local / remote split follows the local account set
	for _, tx := range s.AllRemotes {
		if i := u.senderIdx(tx); i >= 0 && locals[u.addrs[i]] {
			add("local-exemption", "%s belongs to a local account but is tracked as remote (evictable)", u.describe(tx))
		}
	}

	// price index covers every remote transaction; heaps are heaps
	priced := map[common.Hash]int{}
	for _, tx := range s.PricedUrgent {
		priced[tx.Hash()]++
	}
	for _, tx := range s.PricedFloating {
		priced[tx.Hash()]++
	}
	var unpriced []string
	for h, tx := range s.AllRemotes {
		if priced[h] == 0 {
			unpriced = append(unpriced, u.describe(tx))
		}
	}
	sort.Strings(unpriced)
	if len(unpriced) > 0 {
		add("priced-missing", "remote transactions absent from the price heaps: %v", unpriced)
	}
	for name, h := range map[string][]*types.Transaction{"urgent": s.PricedUrgent, "floating": s.PricedFloating} {
		for i := 1; i < len(h); i++ {
			if p := (i - 1) / 2; h[p].GasPrice().Cmp(h[i].GasPrice()) > 0 {
				add("priced-heap-order", "%s heap: entry %d (price %s) above its parent (price %s)", name, i, h[i].GasPrice(), h[p].GasPrice())
				break
			}
		}
	}

	// price floor for remote transactions
	for _, tx := range s.AllRemotes {
		if tx.GasPrice().Cmp(s.GasPrice) < 0 {
			add("gasprice-floor", "remote %s is below the pool's minimum price %s", u.describe(tx), s.GasPrice)
		}
	}

	// pending nonce tracker
	for i := 0; i < nAccts; i++ {
		want := at.st[i].Nonce
		if l := s.Pending[u.addrs[i]]; l != nil {
			want += uint64(len(l.Items))
		}
		if got := nonceOf(u.addrs[i]); got != want {
			fp := "pending-nonce-tracker"
			if got < at.st[i].Nonce {
				fp = "nonce-tracker-below-state-nonce" // FPTrackerLow
			}
			add(fp, "pool.Nonce(%s) = %d, state nonce %d + %d pending = %d", acctNames[i], got, at.st[i].Nonce, want-at.st[i].Nonce, want)
			out[len(out)-1].Acct = i
		}
	}

	// limits (non-local accounts; locals are documented as exempt from eviction rules)
	cfg := s.Config
	var pendAll, queueAll, pendOver uint64
	for addr, l := range s.Pending {
		pendAll += uint64(len(l.Items))
		if !locals[addr] && uint64(len(l.Items)) > cfg.AccountSlots {
			pendOver++
		}
	}
	nonLocalQueued := uint64(0)
	for addr, l := range s.Queue {
		queueAll += uint64(len(l.Items))
		if !locals[addr] {
			nonLocalQueued += uint64(len(l.Items))
			if quiescent && uint64(len(l.Items)) > cfg.AccountQueue {
				add("limit-account-queue", "queue[%s] holds %d > AccountQueue %d", acctName(u, addr), len(l.Items), cfg.AccountQueue)
			}
		}
	}
	if quiescent && pendAll > cfg.GlobalSlots && pendOver > 0 {
		add("limit-global-slots", "%d pending > GlobalSlots %d while %d non-local account(s) exceed AccountSlots %d", pendAll, cfg.GlobalSlots, pendOver, cfg.AccountSlots)
	}
	if quiescent && queueAll > cfg.GlobalQueue && nonLocalQueued > 0 {
		add("limit-global-queue", "%d queued > GlobalQueue %d", queueAll, cfg.GlobalQueue)
	}
	if uint64(len(s.AllRemotes)) > cfg.GlobalSlots+cfg.GlobalQueue {
		add("limit-total-slots", "%d remote transactions > GlobalSlots+GlobalQueue %d", len(s.AllRemotes), cfg.GlobalSlots+cfg.GlobalQueue)
	}

	// Qi pool
	if uint64(len(s.QiPool)) > cfg.QiPoolSize {
		add("limit-qi-pool", "%d Qi transactions > QiPoolSize %d", len(s.QiPool), cfg.QiPoolSize)
	}
	q := getQi()
	for _, h := range s.QiPool {
		if _, ok := q.hashes[h]; !ok {
			add("qi-separation", "Qi pool holds %x which is not a Qi transaction of the universe", h)
		}
		if all[h] != nil {
			add("qi-separation", "%x is in the Qi pool and in the Quai hash index", h)
		}
	}
	// report structural findings before the nonce tracker (usually a consequence)
	late := func(fp string) bool { return strings.Contains(fp, "nonce-tracker") }
	sort.Slice(out, func(i, j int) bool {
		if late(out[i].FP) != late(out[j].FP) {
			return late(out[j].FP)
		}
		if out[i].FP != out[j].FP {
			return out[i].FP < out[j].FP
		}
		return out[i].Msg < out[j].Msg
	})
	return out
}

func nonces(txs []*types.Transaction) string {
	var s []string
	for _, tx := range txs {
		s = append(s, fmt.Sprint(tx.Nonce()))
	}
	return "[" + strings.Join(s, " ") + "]"
}

func acctName(u *universe, a common.InternalAddress) string {
	if i, ok := u.idx[a]; ok {
		return acctNames[i]
	}
	return fmt.Sprintf("%x", a)
}

func describeHash(u *universe, s *core.VerifPoolSnapshot, h common.Hash) string {
	if tx := s.AllLocals[h]; tx != nil {
		return u.describe(tx)
	}
	if tx := s.AllRemotes[h]; tx != nil {
		return u.describe(tx)
	}
	return h.Hex()
}

func sortedAddrs(m map[common.InternalAddress]*core.VerifTxList) []common.InternalAddress {
	var out []common.InternalAddress
	for a := range m {
		out = append(out, a)
	}
	sort.Slice(out, func(i, j int) bool { return string(out[i][:]) < string(out[j][:]) })
	return out
}

// view is the readable form of a snapshot used in samples and violation dumps.
type view struct {
	At       string              `json:"pool_at"`
	State    []string            `json:"state"`
	Pending  map[string][]string `json:"pending"`
	Queue    map[string][]string `json:"queue"`
	Locals   []string            `json:"locals"`
	Remotes  int                 `json:"all_remotes"`
	LocalTxs int                 `json:"all_locals"`
	Priced   int                 `json:"priced_entries"`
	Qi       []int               `json:"qi_pool"`
	GasPrice string              `json:"gas_price"`
}

func makeView(u *universe, s *core.VerifPoolSnapshot, at *block) view {
	v := view{At: at.String(), Pending: map[string][]string{}, Queue: map[string][]string{}, Remotes: len(s.AllRemotes), LocalTxs: len(s.AllLocals),
		Priced: len(s.PricedUrgent) + len(s.PricedFloating), GasPrice: s.GasPrice.String()}
	if at != nil {
		for i, st := range at.st {
			v.State = append(v.State, fmt.Sprintf("%s nonce %d balance %s", acctNames[i], st.Nonce, st.Bal))
		}
	}
	for a, l := range s.Pending {
		for _, tx := range sortedTxs(l) {
			v.Pending[acctName(u, a)] = append(v.Pending[acctName(u, a)], u.describe(tx))
		}
	}
	for a, l := range s.Queue {
		for _, tx := range sortedTxs(l) {
			v.Queue[acctName(u, a)] = append(v.Queue[acctName(u, a)], u.describe(tx))
		}
	}
	for _, a := range s.Locals {
		v.Locals = append(v.Locals, acctName(u, a))
	}
	sort.Strings(v.Locals)
	q := getQi()
	for _, h := range s.QiPool {
		if i, ok := q.hashes[h]; ok {
			v.Qi = append(v.Qi, i)
		} else {
			v.Qi = append(v.Qi, -1)
		}
	}
	sort.Ints(v.Qi)
	return v
}

// holder returns the transaction the snapshot holds for (account, nonce) and where.
func holder(s *core.VerifPoolSnapshot, addr common.InternalAddress, nonce uint64) (*types.Transaction, string) {
	if l := s.Pending[addr]; l != nil {
		if tx := l.Items[nonce]; tx != nil {
			return tx, "pending"
		}
	}
	if l := s.Queue[addr]; l != nil {
		if tx := l.Items[nonce]; tx != nil {
			return tx, "queue"
		}
	}
	return nil, ""
}

func inAll(s *core.VerifPoolSnapshot, h common.Hash) bool {
	return s.AllLocals[h] != nil || s.AllRemotes[h] != nil
}

// bumpOK is the documented replacement rule: strictly more expensive and at least
// old*(100+PriceBump)/100.
func bumpOK(old, nu *types.Transaction, bump uint64) bool {
	if nu.GasPrice().Cmp(old.GasPrice()) <= 0 {
		return false
	}
	thr := new(big.Int).Mul(old.GasPrice(), big.NewInt(100+int64(bump)))
	thr.Div(thr, big.NewInt(100))
	return nu.GasPrice().Cmp(thr) >= 0
}
