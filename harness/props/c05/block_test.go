//go:build verif

// C05 block mode: several transactions in ONE block on a shared StateDB, executed in the miner's
// configuration (worker.commitTransaction: core.ApplyTransaction, a fresh vm.EVM per transaction)
// and in the validator's configuration (StateProcessor.Process: one vm.EVM for the whole block,
// applyTransaction per transaction through the verif hook core.VerifApplyTransactionShared).
package c05

import (
	"fmt"
	"math/big"
	"strings"
	"testing"

	"github.com/dominant-strategies/go-quai/common"
	"github.com/dominant-strategies/go-quai/core/types"
	"github.com/dominant-strategies/go-quai/core/vm"
	"github.com/dominant-strategies/go-quai/params"
	"pgregory.net/rapid"

	"verifharness/evmgen"
	"verifharness/stats"
)

type blockReport struct {
	labels     []string
	nontrivial bool
	fps        []string
}

func (br *blockReport) label(l string) { br.labels = append(br.labels, l) }

// checkBlockStep: the per-receipt oracle of block mode, then the single-transaction oracle on the
// step (the world is in the state the transaction left).
func checkBlockStep(t stats.TB, part string, b *evmgen.BlockCase, r *evmgen.BlockRun, s *evmgen.TxStep, br *blockReport) {
	rcpt := s.Res.Receipt
	viol := func(fp, msg string) {
		br.fps = append(br.fps, fp)
		stats.Violation(t, part, fp, msg, map[string]any{"block": b.Dump(), "configuration": r.Config, "tx_index": s.Index, "trace": s.Tracer.Dump()})
	}
	where := fmt.Sprintf("[%s configuration] tx %d (%s)", r.Config, s.Index, s.Spec.DataNote)
	for i, e := range rcpt.OutboundEtxs {
		if e.OriginatingTxHash() != s.Tx.Hash() {
			viol("C05/block/outbound-etx-of-another-transaction", fmt.Sprintf("%s: exported ETX %d (type %d, value %v, index %d) names originating transaction %x, this transaction is %x — an ETX recorded by an earlier transaction of the block is exported by this receipt",
				where, i, e.EtxType(), e.Value(), e.ETXIndex(), e.OriginatingTxHash().Bytes()[:6], s.Tx.Hash().Bytes()[:6]))
		}
		if int(e.ETXIndex()) != i {
			viol("C05/block/outbound-index-not-contiguous", fmt.Sprintf("%s: exported ETX %d carries index %d", where, i, e.ETXIndex()))
		}
	}
	if rcpt.Status != types.ReceiptStatusSuccessful && len(rcpt.OutboundEtxs) != 0 {
		viol("C05/block/failed-tx-exports", fmt.Sprintf("%s failed but exports %d ETXs", where, len(rcpt.OutboundEtxs)))
	}
	c, o := b.PseudoCase(r, s)
	cr := checkCase(t, part, c, o)
	br.fps = append(br.fps, cr.fps...)
	if r.Config == "worker" {
		for _, l := range cr.labels {
			if strings.HasPrefix(l, "ETX:status") || strings.HasPrefix(l, "CONVERT:status") || l == "emission-rolled-back" || l == "tx-exports" || strings.HasPrefix(l, "TOP-EXT") {
				br.label("step:" + l)
			}
		}
	}
}

func etxHashes(l types.Transactions) string {
	var out []string
	for _, e := range l {
		out = append(out, fmt.Sprintf("%x", e.Hash().Bytes()[:6]))
	}
	return strings.Join(out, ",")
}

// checkBlock runs the block in both configurations and applies every block-mode oracle.
func checkBlock(t stats.TB, part string, b *evmgen.BlockCase) (*blockReport, []*evmgen.TxStep, error) {
	br := &blockReport{}
	// The differential compares the two production configurations, neither of which hashes the
	// state between transactions. (Walking the trie between transactions is observable: the
	// storage-size counter that scales SSTORE/CALL gas is only updated by IntermediateRoot, so the
	// next transaction's gas differs by a few units.)
	b.PerTxWalk = false
	extraDump = map[string]any{"block": b.Dump()}
	defer func() { extraDump = nil }()
	viol := func(fp, msg string, extra map[string]any) {
		br.fps = append(br.fps, fp)
		d := map[string]any{"block": b.Dump()}
		for k, v := range extra {
			d[k] = v
		}
		stats.Violation(t, part, fp, msg, d)
	}
	wr, err := b.RunWorker(func(r *evmgen.BlockRun, s *evmgen.TxStep) { checkBlockStep(t, part, b, r, s, br) })
	if err != nil {
		return nil, nil, err
	}
	acc := wr.Accepted()
	pr, err := b.RunProcess(acc, func(r *evmgen.BlockRun, s *evmgen.TxStep) { checkBlockStep(t, part, b, r, s, br) })
	if err != nil {
		return nil, nil, err
	}
	// ---- differential: the block the miner built must be the block the validators compute --------
	if pr.BlockErr != nil {
		viol("C05/block/process-rejects-worker-block", fmt.Sprintf("the miner's configuration accepted transaction %d (%s) but applyTransaction on the shared EVM returns: %v", pr.ErrIndex, acc[pr.ErrIndex].Spec.DataNote, pr.BlockErr), nil)
	} else {
		for i, ws := range acc {
			ps := pr.Steps[i]
			wrc, prc := ws.Res.Receipt, ps.Res.Receipt
			where := fmt.Sprintf("tx %d (%s)", i, ws.Spec.DataNote)
			if wrc.Status != prc.Status {
				viol("C05/block/worker-vs-process/status", fmt.Sprintf("%s: receipt status %d in the miner's configuration, %d in the validator's", where, wrc.Status, prc.Status), nil)
			}
			if wrc.GasUsed != prc.GasUsed || wrc.CumulativeGasUsed != prc.CumulativeGasUsed {
				viol("C05/block/worker-vs-process/gas-used", fmt.Sprintf("%s: gas used %d (cumulative %d) vs %d (cumulative %d)", where, wrc.GasUsed, wrc.CumulativeGasUsed, prc.GasUsed, prc.CumulativeGasUsed), nil)
			}
			if etxHashes(wrc.OutboundEtxs) != etxHashes(prc.OutboundEtxs) {
				viol("C05/block/worker-vs-process/outbound-etxs", fmt.Sprintf("%s: the miner's receipt exports [%s], the validator's [%s]", where, etxHashes(wrc.OutboundEtxs), etxHashes(prc.OutboundEtxs)), nil)
			}
			if len(wrc.Logs) != len(prc.Logs) || wrc.ContractAddress.Bytes20() != prc.ContractAddress.Bytes20() {
				viol("C05/block/worker-vs-process/receipt-fields", fmt.Sprintf("%s: logs %d vs %d, contract address %x vs %x", where, len(wrc.Logs), len(prc.Logs), wrc.ContractAddress.Bytes(), prc.ContractAddress.Bytes()), nil)
			}
		}
		if wr.Broken == "" && pr.Broken == "" && wr.Root != pr.Root {
			diff := []string{}
			for a, v := range wr.End.ByAddr {
				if pv := pr.End.Get(a); pv.Cmp(v) != 0 {
					diff = append(diff, fmt.Sprintf("%s: %v vs %v", a.Hex(), v, pv))
				}
			}
			viol("C05/block/worker-vs-process/state-root", fmt.Sprintf("post-state root %x in the miner's configuration, %x in the validator's; differing balances: %v", wr.Root.Bytes()[:6], pr.Root.Bytes()[:6], diff), nil)
		}
	}
	if wr.Broken != "" || pr.Broken != "" {
		fp := "C05/post-state-unhashable"
		if (wr.Broken == "" || evmgen.BrokenBySuicideSize(wr.Broken)) && (pr.Broken == "" || evmgen.BrokenBySuicideSize(pr.Broken)) {
			fp = evmgen.FpSuicideSize
		}
		viol(fp, "the post-state of the block cannot be hashed: "+wr.Broken+pr.Broken, nil)
	}

	// ---- labels ------------------------------------------------------------------------------------
	br.label(fmt.Sprintf("block:accepted=%d", len(acc)))
	br.label("regime:" + evmgen.RegimeName(b.Env.PrimeTerminusNumber))
	if len(acc) < len(wr.Steps) {
		br.label("block:has-rejected-tx")
	}
	deleted := map[common.AddressBytes]bool{}
	created := map[common.AddressBytes]bool{}
	senders := map[common.AddressBytes]bool{}
	failedOOGCreation, failedOOGEmitting := false, false
	maxCode := uint64(params.GetMaxCodeSize(b.Env.BlockNumber))
	for _, s := range acc {
		rc := s.Res.Receipt
		ok := rc.Status == types.ReceiptStatusSuccessful
		br.label("txclass:" + strings.SplitN(s.Spec.DataNote, ">", 2)[0])
		touchDel, touchNew, touchSender := false, false, false
		for _, a := range b.Touches(s) {
			k := a.Bytes20()
			touchDel = touchDel || deleted[k]
			touchNew = touchNew || created[k]
			touchSender = touchSender || senders[k]
		}
		if touchDel {
			br.label("block:later-tx-touches-deleted-address")
			br.nontrivial = true
			if ok && s.Spec.Value.Sign() > 0 {
				br.label("block:value-sent-to-deleted-address")
			}
		}
		if touchNew {
			br.label("block:later-tx-touches-created-address")
			br.nontrivial = true
		}
		if touchSender {
			br.label("block:later-tx-touches-earlier-sender")
			br.nontrivial = true
		}
		if failedOOGCreation && ok {
			br.label("block:failed-creation-then-successful-tx")
			br.nontrivial = true
			if failedOOGEmitting {
				br.label("block:emitting-failed-creation-then-successful-tx")
				if len(rc.OutboundEtxs) > 0 {
					br.label("block:emitting-failed-creation-then-exporting-tx")
				}
			}
		}
		if !ok && s.Spec.ToClass == "create" && len(s.Tracer.Frames) > 0 && !s.Tracer.Frames[0].Failed && s.Tracer.Frames[0].CreateRejected(maxCode) == "codestore-oog" {
			failedOOGCreation = true
			for _, op := range s.Tracer.Ops {
				if op.HaveAfter && op.EtxAfter == op.EtxBefore+1 {
					failedOOGEmitting = true
				}
			}
		}
		for _, a := range b.DeletedBy(s) {
			deleted[a.Bytes20()] = true
		}
		if ok && rc.ContractAddress.Bytes20() != (common.AddressBytes{}) {
			created[rc.ContractAddress.Bytes20()] = true
		}
		for _, f := range s.Tracer.Frames {
			if (f.Kind == "CREATE" || f.Kind == "CREATE2") && f.Flag != nil && !f.Flag.IsZero() {
				created[f.Self.Bytes20()] = true
			}
		}
		if s.Spec.Kind == "quai" {
			senders[evmgen.U().EOAs[s.Spec.From].Addr.Bytes20()] = true
		}
		if len(rc.OutboundEtxs) > 0 {
			br.label("block:tx-exports")
		}
	}
	return br, wr.Steps, nil
}

// TestC05_Block is the generated block-mode search.
func TestC05_Block(t *testing.T) {
	excl := exclusions()
	rapid.Check(t, func(rt *rapid.T) {
		cfg := evmgen.ExportCfg()
		cfg.Excl = excl
		b := evmgen.GenBlock(rt, cfg)
		br, steps, err := checkBlock(rt, "block", b)
		if err != nil {
			rt.Fatalf("HARNESS: %v", err)
		}
		sig := evmgen.BlockSignature(steps) + "|" + evmgen.RegimeName(b.Env.PrimeTerminusNumber)
		stats.Case("block", sig, br.nontrivial, br.labels...)
		if br.nontrivial && stats.WantSample("block") {
			stats.Sample("block", map[string]any{"txs": b.Dump()["txs"], "outcomes": evmgen.BlockSignature(steps), "labels": br.labels})
		}
	})
}

// handBlock builds a deterministic block over the role contracts of evmgen (victim, payer,
// factory) with the given transactions.
func handBlock(ptn uint64, txs ...*evmgen.TxSpec) *evmgen.BlockCase {
	u := evmgen.U()
	env := &evmgen.Env{BlockNumber: 3_500_000, PrimeTerminusNumber: ptn, BaseFee: big.NewInt(7), GasLimit: 12_000_000, Time: 1_700_000_000,
		QuaiStateSize: big.NewInt(1_000_000), Eligible: evmgen.EligibleMask(*u.ForeignQuai[0].Location()), Coinbase: u.EOAs[0].Addr}
	pre := &evmgen.PreState{}
	e24 := new(big.Int).Exp(big.NewInt(10), big.NewInt(24), nil)
	for _, e := range u.EOAs {
		pre.Accounts = append(pre.Accounts, evmgen.AccountSpec{Addr: e.Addr, Balance: e24})
	}
	// contract0 emits one ETX of 1000 and stops
	a := evmgen.NewAsm()
	a.Push(0).Push(0).Push(0).Push(0).Push(0).Push(0).Push(21000).Push(1000).PushAddr(u.ForeignQuai[0]).Push(0).Op(vm.ETX, vm.POP, vm.STOP)
	p := a.Assemble()
	pre.Accounts = append(pre.Accounts, evmgen.AccountSpec{Addr: u.Contracts[0], Balance: big.NewInt(1_000_000), Nonce: 1, Code: &p})
	for _, tx := range txs {
		tx.Price = big.NewInt(7)
		if tx.Kind == "etx" {
			tx.Price = new(big.Int)
		}
		if tx.Value == nil {
			tx.Value = new(big.Int)
		}
		tx.GasClass, tx.PriceClass, tx.ALClass = "hand", "basefee", "hand"
		if tx.To != nil {
			tx.AccessList = append(tx.AccessList, types.AccessTuple{Address: *tx.To}, types.AccessTuple{Address: u.ForeignQuai[0]})
		}
	}
	return &evmgen.BlockCase{Env: env, Pre: pre, Txs: txs, PerTxWalk: true}
}

// TestC05_BlockHandwritten: a creation transaction whose init code emits an ETX and then fails
// with code-store out of gas, followed by a successful exporting transaction, in one block. On the
// unchanged tree the first transaction raises exactly the recorded code-store finding and the
// second receipt is clean in both configurations.
func TestC05_BlockHandwritten(t *testing.T) {
	if stats.Shard() != 0 {
		t.Skip("deterministic cases run on shard 0 only")
	}
	u := evmgen.U()
	post := params.SelfDestructRefundForkBlock + 10
	init := evmgen.NewAsm()
	init.Push(0).Push(0).Push(0).Push(0).Push(0).Push(0).Push(21000).Push(1000).PushAddr(u.ForeignQuai[0]).Push(0).Op(vm.ETX, vm.POP)
	init.Push(20000).Push(0).Op(vm.RETURN)
	c0 := u.Contracts[0]
	b := handBlock(post,
		&evmgen.TxSpec{Kind: "quai", From: 1, To: nil, ToClass: "create", Gas: 600000, Value: big.NewInt(5000), Data: init.Assemble().Code, DataNote: "create:ETX:ret20000"},
		&evmgen.TxSpec{Kind: "quai", From: 2, To: &c0, ToClass: "contract", Gas: 300000, DataNote: "emit"},
		&evmgen.TxSpec{Kind: "quai", From: 1, To: &c0, ToClass: "contract", Gas: 300000, DataNote: "emit"},
	)
	reportKnown = true
	br, steps, err := checkBlock(t, "blockhand", b)
	reportKnown = false
	if err != nil {
		t.Fatalf("HARNESS: %v", err)
	}
	stats.Case("blockhand", evmgen.BlockSignature(steps), true, br.labels...)
	want := "block:emitting-failed-creation-then-exporting-tx"
	found := false
	for _, l := range br.labels {
		found = found || l == want
	}
	if !found {
		t.Fatalf("HARNESS: hand-written block did not reach %q (labels %v, outcomes %s)", want, br.labels, evmgen.BlockSignature(steps))
	}
	for _, fp := range br.fps {
		if fp != fpCreateOOG {
			t.Logf("hand-written block raised %s", fp)
		}
	}
}
