// C05 — sending value off-chain is all-or-nothing at the origin (DESIGN.md §4 C05).
//
// Generated programs reach ETX, CONVERT, value CALLs to out-of-scope addresses (evm.CreateETX) and
// the lockup contract (UnwrapQi / ClaimCoinbaseLockup); they run through core.ApplyTransaction on
// a real StateDB with the tracer of evmgen. Per operation the tracer gives the operands, the
// emitter's balance, len(ETXCache) and the stack height before and after; per transaction the
// receipt's outbound list is compared with the successful, non-rolled-back emissions.
package c05

import (
	"fmt"
	"math/big"
	"strings"
	"testing"

	"github.com/dominant-strategies/go-quai/common"
	"github.com/dominant-strategies/go-quai/core/rawdb"
	"github.com/dominant-strategies/go-quai/core/types"
	"github.com/dominant-strategies/go-quai/params"
	"github.com/dominant-strategies/go-quai/rlp"
	"github.com/holiman/uint256"
	"pgregory.net/rapid"

	"verifharness/evmgen"
	"verifharness/stats"
)

// Fingerprints of the root causes this check can name.
const (
	fpALDecode    = "C05/opETX/debit-without-etx/after=accesslist-decode"
	fpIneligDebit = "C05/opETX/debit-without-etx/after=eligibility-check"
	fpIneligPush  = "C05/opETX/no-status-push/branch=ineligible-destination"
	fpWrapETX     = "C05/opETX/debit-wrapped-mod-2^256/legacy-arith-before-SelfDestructRefundFork"
	fpWrapConvert = "C05/opConvert/debit-wrapped-mod-2^256/legacy-arith-before-SelfDestructRefundFork"
	fpCreateOOG   = "C05/tx-failed/debit-kept-etx-dropped/create-codestore-oog-not-reverted"
	fpClaimRevert = "C05/ClaimCoinbaseLockup/rolled-back-claim-record-not-restored"
)

var (
	two256  = new(big.Int).Lsh(big.NewInt(1), 256)
	maxU64  = new(big.Int).SetUint64(^uint64(0))
	bigZero = new(big.Int)
)

func exclusions() *evmgen.Exclusions {
	x := &evmgen.Exclusions{
		ETXMalformedAccessList: stats.IsKnown(fpALDecode),
		// the ineligible-destination branch has two defects; the input class is excluded only when
		// both are listed, otherwise the unlisted one must keep firing
		ETXIneligibleDest: stats.IsKnown(fpIneligDebit) && stats.IsKnown(fpIneligPush),
		LegacyWrapETX:     stats.IsKnown(fpWrapETX),
		LegacyWrapConvert: stats.IsKnown(fpWrapConvert),
	}
	x.OnExcluded = func(class string) {
		switch class {
		case "etx-malformed-accesslist":
			stats.Excluded(fpALDecode)
		case "etx-ineligible-dest":
			stats.Excluded(fpIneligDebit)
			stats.Excluded(fpIneligPush)
		case "legacy-wrap-etx":
			stats.Excluded(fpWrapETX)
		case "legacy-wrap-convert":
			stats.Excluded(fpWrapConvert)
		}
	}
	return x
}

func big256(u *uint256.Int) *big.Int { return u.ToBig() }

// etxAnalysis predicts, from the observed operands only, which branch of opETX an operation takes.
// It is used for labels and to name the root cause of an oracle failure — never for the verdict.
type opAnalysis struct {
	branch      string   // refusal reason or "ok"
	reachedBal  bool     // the operation got as far as the balance check
	total       *big.Int // value + prepaid fee in unbounded integers
	wraps       bool     // total >= 2^256 (only reachable with the legacy arithmetic)
	alMalformed bool
	ineligible  bool
}

func analyseETX(r *evmgen.OpRec, env *evmgen.Env) opAnalysis {
	a := opAnalysis{}
	dest := common.Bytes20ToAddress(r.Operands[1].Bytes20(), evmgen.Loc)
	value, limit, tip, cap_ := big256(&r.Operands[2]), big256(&r.Operands[3]), big256(&r.Operands[4]), big256(&r.Operands[5])
	alSize := &r.Operands[9]
	fee := new(big.Int).Mul(new(big.Int).Add(tip, cap_), limit)
	a.total = new(big.Int).Add(value, fee)
	a.wraps = a.total.Cmp(two256) >= 0
	if !alSize.IsZero() {
		if r.AccessListBytes == nil {
			a.alMalformed = true // blob too large for the tracer to copy: cannot be a decodable list of the generator
		} else {
			var al types.AccessList
			a.alMalformed = rlp.DecodeBytes(r.AccessListBytes, &al) != nil
		}
	}
	a.ineligible = !evmgen.IsEligible(env.Eligible, *dest.Location())
	post := evmgen.PostArithFork(env.PrimeTerminusNumber)
	txGas := new(big.Int).SetUint64(params.TxGas)
	switch {
	case common.IsInChainScope(dest.Bytes(), evmgen.Loc):
		a.branch = "inscope"
		return a
	case post && limit.Cmp(maxU64) > 0:
		a.branch = "limit>u64"
		return a
	case post && limit.Cmp(txGas) < 0:
		a.branch = "limit<txgas"
		return a
	case post && a.wraps:
		a.branch = "overflow"
		return a
	}
	eff := new(big.Int).Mod(a.total, two256)
	a.reachedBal = true
	if eff.Sign() == 0 || r.BalBefore.Cmp(eff) < 0 {
		a.branch = "balance"
		return a
	}
	if !post {
		if limit.Cmp(maxU64) > 0 {
			a.branch = "limit>u64"
			return a
		}
		if limit.Cmp(txGas) < 0 {
			a.branch = "limit<txgas"
			return a
		}
	}
	switch {
	case a.alMalformed:
		a.branch = "al-malformed"
	case a.ineligible:
		a.branch = "ineligible"
	default:
		a.branch = "ok"
	}
	return a
}

func analyseConvert(r *evmgen.OpRec, env *evmgen.Env, price *big.Int) opAnalysis {
	a := opAnalysis{}
	dest := common.Bytes20ToAddress(r.Operands[1].Bytes20(), evmgen.Loc)
	value, limit := big256(&r.Operands[2]), big256(&r.Operands[3])
	a.total = new(big.Int).Add(value, new(big.Int).Mul(price, limit))
	a.wraps = a.total.Cmp(two256) >= 0
	post := evmgen.PostArithFork(env.PrimeTerminusNumber)
	txGas := new(big.Int).SetUint64(params.TxGas)
	switch {
	case !common.IsInChainScope(dest.Bytes(), evmgen.Loc):
		a.branch = "outofscope"
	case !dest.IsInQiLedgerScope():
		a.branch = "notqi"
	case value.Cmp(params.MinQuaiConversionAmount) < 0:
		a.branch = "below-min"
	case !evmgen.ConversionOpen(env.PrimeTerminusNumber):
		a.branch = "fork-gate"
	case post && limit.Cmp(maxU64) > 0:
		a.branch = "limit>u64"
	case post && limit.Cmp(txGas) < 0:
		a.branch = "limit<txgas"
	case post && a.wraps:
		a.branch = "overflow"
	}
	if a.branch != "" {
		return a
	}
	eff := new(big.Int).Mod(a.total, two256)
	a.reachedBal = true
	switch {
	case eff.Sign() == 0 || r.BalBefore.Cmp(eff) < 0:
		a.branch = "balance"
	case !post && new(big.Int).And(limit, maxU64).Cmp(txGas) < 0:
		a.branch = "limit<txgas"
	default:
		a.branch = "ok"
	}
	return a
}

type caseReport struct {
	labels     []string
	nontrivial bool
	outcomes   []string
	fps        []string // fingerprints of every oracle failure reported for the case
}

func (cr *caseReport) label(l string) { cr.labels = append(cr.labels, l) }

// extraDump is merged into every violation dump (block mode puts the whole block there).
var extraDump map[string]any

func dump(c *evmgen.Case, o *evmgen.Outcome, extra map[string]any) map[string]any {
	m := map[string]any{"case": c.Dump()}
	for k, v := range extraDump {
		m[k] = v
	}
	if o != nil {
		if o.Tracer != nil {
			m["trace"] = o.Tracer.Dump()
		}
		if o.Res != nil {
			r := map[string]any{"err": fmt.Sprint(o.Res.Err), "used_gas": o.Res.UsedGas}
			if o.Res.Receipt != nil {
				r["status"] = o.Res.Receipt.Status
				r["outbound_etxs"] = len(o.Res.Receipt.OutboundEtxs)
			}
			m["result"] = r
		}
	}
	for k, v := range extra {
		m[k] = v
	}
	return m
}

// checkEtxFields compares the ETX appended by an operation with what the operation stated.
func checkEtxFields(etx *types.Transaction, wantValue *big.Int, wantTo common.Address, wantIndex int, wantSender common.Address, wantType uint64, origin common.Hash) string {
	var bad []string
	if etx.Type() != types.ExternalTxType {
		return "not an external transaction"
	}
	if etx.Value().Cmp(wantValue) != 0 {
		bad = append(bad, fmt.Sprintf("value %v want %v", etx.Value(), wantValue))
	}
	if etx.To() == nil || etx.To().Bytes20() != wantTo.Bytes20() {
		bad = append(bad, fmt.Sprintf("to %v want %v", etx.To(), wantTo.Hex()))
	}
	if int(etx.ETXIndex()) != wantIndex {
		bad = append(bad, fmt.Sprintf("index %d want %d", etx.ETXIndex(), wantIndex))
	}
	if etx.ETXSender().Bytes20() != wantSender.Bytes20() {
		bad = append(bad, fmt.Sprintf("sender %v want %v", etx.ETXSender().Hex(), wantSender.Hex()))
	}
	if etx.EtxType() != wantType {
		bad = append(bad, fmt.Sprintf("type %d want %d", etx.EtxType(), wantType))
	}
	if etx.OriginatingTxHash() != origin {
		bad = append(bad, "originating tx hash differs")
	}
	return strings.Join(bad, "; ")
}

// reportKnown makes dynamically classified known findings go through stats.Violation instead of
// being counted as excluded (set by the hand-written regression inputs).
var reportKnown = false

// checkCase applies the per-operation and per-transaction oracles.
func checkCase(t stats.TB, part string, c *evmgen.Case, o *evmgen.Outcome) *caseReport {
	cr := &caseReport{}
	tr := o.Tracer
	env := c.Env
	res := o.Res
	cr.label("regime:" + evmgen.RegimeName(env.PrimeTerminusNumber))
	cr.label("mode:" + c.Mode)
	cr.label("tx:" + c.Tx.Kind)
	if o.Broken != "" {
		fp := "C05/post-state-unhashable"
		if evmgen.BrokenBySuicideSize(o.Broken) {
			fp = evmgen.FpSuicideSize // crash form of the recorded C12 finding, not a debit below zero
		}
		cr.fps = append(cr.fps, fp)
		stats.Violation(t, part, fp, "the post-state cannot be hashed: "+o.Broken, dump(c, o, nil))
		return cr
	}
	if res.Err != nil {
		cr.label("tx-rejected")
		cr.label("rejected:" + errClass(res.Err))
		cr.outcomes = append(cr.outcomes, "rejected")
		return cr // not includable: callers discard the state
	}
	txFailed := res.Receipt.Status != types.ReceiptStatusSuccessful
	if txFailed {
		cr.label("tx-failed")
	} else {
		cr.label("tx-ok")
	}
	origin := c.Tx.Tx.Hash()
	maxCode := uint64(params.GetMaxCodeSize(env.BlockNumber))
	viol := func(fp, msg string, r *evmgen.OpRec) {
		extra := map[string]any{}
		if r != nil {
			extra["operation_pc"] = r.PC
			extra["operation_frame"] = r.Frame
		}
		cr.fps = append(cr.fps, fp)
		stats.Violation(t, part, fp, msg, dump(c, o, extra))
	}

	type emission struct {
		op  *evmgen.OpRec
		etx *types.Transaction
	}
	var emitted []emission

	for i, r := range tr.Ops {
		if !r.HaveAfter {
			cr.label("op-without-after")
			continue
		}
		debit := new(big.Int).Sub(r.BalBefore, r.BalAfter)
		grew := r.EtxAfter - r.EtxBefore
		opName := map[string]string{"ETX": "opETX", "CONVERT": "opConvert", "CALL-EXT": "CreateETX", "CALL-LOCKUP": "lockup"}[r.Kind]
		pops := len(r.Operands)
		where := fmt.Sprintf("op#%d %s pc=%d frame=%d emitter=%s", i, r.Kind, r.PC, r.Frame, evmgen.U().Name(r.Emitter))

		// ---- stack height: pops operands, pushes exactly one status word, in every branch --------
		noPush := false
		if r.Faulted {
			// the operation itself raised an exceptional halt (e.g. write protection): the frame is
			// rolled back, there is no status word
			cr.label(r.Kind + ":fault")
			cr.outcomes = append(cr.outcomes, r.Kind+":fault")
			continue
		}
		if r.StkAfter != r.StkBefore-pops+1 {
			noPush = true
			fp := fmt.Sprintf("C05/%s/stack-height/delta=%d", opName, r.StkAfter-r.StkBefore)
			msg := fmt.Sprintf("%s: stack height %d -> %d, expected %d (pops %d, pushes 1 status word)", where, r.StkBefore, r.StkAfter, r.StkBefore-pops+1, pops)
			if r.Kind == "ETX" && r.StkAfter == r.StkBefore-pops {
				an := analyseETX(r, env)
				if an.branch == "ineligible" {
					fp = fpIneligPush
					msg += "; destination slice is not eligible: opETX returns without pushing a status word"
				}
			}
			viol(fp, msg, r)
		}
		status := r.Top
		ok := !noPush && status != nil && status.Eq(uint256.NewInt(1))
		if !noPush && status != nil && !status.IsZero() && !ok && r.Kind != "CALL-LOCKUP" && r.Kind != "CALL-EXT" {
			viol(fmt.Sprintf("C05/%s/status-word-not-0-or-1", opName), fmt.Sprintf("%s: status word %s", where, status.Hex()), r)
		}

		switch r.Kind {
		case "ETX", "CONVERT":
			var an opAnalysis
			var wantType uint64
			if r.Kind == "ETX" {
				an = analyseETX(r, env)
				wantType = types.DefaultType
			} else {
				an = analyseConvert(r, env, c.Tx.Price)
				wantType = types.ConversionType
			}
			if an.reachedBal {
				cr.nontrivial = true
				cr.label(r.Kind + ":reached-balance-check")
			}
			cr.label(r.Kind + ":" + an.branch)
			dest := common.Bytes20ToAddress(r.Operands[1].Bytes20(), evmgen.Loc)
			value := big256(&r.Operands[2])
			if ok {
				cr.outcomes = append(cr.outcomes, r.Kind+":ok")
				cr.label(r.Kind + ":status1")
				if debit.Cmp(an.total) != 0 {
					fp := fmt.Sprintf("C05/%s/status1-wrong-debit", opName)
					msg := fmt.Sprintf("%s: status 1 but emitter debited %v, stated value+prepaid fee = %v", where, debit, an.total)
					if !evmgen.PostArithFork(env.PrimeTerminusNumber) && an.wraps && debit.Cmp(new(big.Int).Mod(an.total, two256)) == 0 {
						fp = fpWrapETX
						if r.Kind == "CONVERT" {
							fp = fpWrapConvert
						}
						msg += " (debit = total mod 2^256: unchecked legacy arithmetic; the ETX carries the full value)"
					}
					viol(fp, msg, r)
				}
				if grew != 1 {
					viol(fmt.Sprintf("C05/%s/status1-cache-delta=%d", opName, grew), fmt.Sprintf("%s: status 1 but len(ETXCache) %d -> %d", where, r.EtxBefore, r.EtxAfter), r)
				} else {
					if bad := checkEtxFields(r.NewEtxs[0], value, dest, r.EtxBefore, r.Emitter, wantType, origin); bad != "" {
						viol(fmt.Sprintf("C05/%s/status1-etx-fields", opName), where+": "+bad, r)
					}
					emitted = append(emitted, emission{r, r.NewEtxs[0]})
				}
			} else {
				cr.outcomes = append(cr.outcomes, r.Kind+":refused:"+an.branch)
				if grew != 0 {
					viol(fmt.Sprintf("C05/%s/status0-cache-delta=%d", opName, grew), fmt.Sprintf("%s: no success status but len(ETXCache) %d -> %d", where, r.EtxBefore, r.EtxAfter), r)
				}
				if debit.Sign() != 0 {
					after := "unknown"
					fp := ""
					switch {
					case r.Kind == "ETX" && an.branch == "al-malformed":
						after, fp = "accesslist-decode", fpALDecode
					case r.Kind == "ETX" && an.branch == "ineligible":
						after, fp = "eligibility-check", fpIneligDebit
					default:
						fp = fmt.Sprintf("C05/%s/debit-without-etx/after=%s(%s)", opName, after, an.branch)
					}
					viol(fp, fmt.Sprintf("%s: no success status and no ETX recorded, but the emitter was debited %v (balance %v -> %v); failing check after the debit: %s", where, debit, r.BalBefore, r.BalAfter, after), r)
				}
			}
		case "CALL-EXT":
			dest := common.Bytes20ToAddress(r.Operands[1].Bytes20(), evmgen.Loc)
			value := big256(&r.Operands[2])
			wantType := uint64(types.DefaultType)
			if dest.IsInQiLedgerScope() && common.IsInChainScope(dest.Bytes(), evmgen.Loc) {
				wantType = types.ConversionType
			}
			if ok {
				cr.nontrivial = true
				cr.label("CALL-EXT:status1")
				cr.outcomes = append(cr.outcomes, "CALL-EXT:ok")
				if debit.Cmp(value) != 0 {
					viol("C05/CreateETX/status1-wrong-debit", fmt.Sprintf("%s: success but caller debited %v, value %v", where, debit, value), r)
				}
				if grew != 1 {
					viol(fmt.Sprintf("C05/CreateETX/status1-cache-delta=%d", grew), fmt.Sprintf("%s: success but len(ETXCache) %d -> %d", where, r.EtxBefore, r.EtxAfter), r)
				} else {
					if bad := checkEtxFields(r.NewEtxs[0], value, dest, r.EtxBefore, r.Emitter, wantType, origin); bad != "" {
						viol("C05/CreateETX/status1-etx-fields", where+": "+bad, r)
					}
					emitted = append(emitted, emission{r, r.NewEtxs[0]})
				}
			} else {
				cr.label("CALL-EXT:status0")
				cr.outcomes = append(cr.outcomes, "CALL-EXT:refused")
				if value.Sign() > 0 && r.BalBefore.Cmp(value) < 0 {
					cr.label("CALL-EXT:insufficient-balance")
				}
				if grew != 0 {
					viol(fmt.Sprintf("C05/CreateETX/status0-cache-delta=%d", grew), fmt.Sprintf("%s: failure but len(ETXCache) %d -> %d", where, r.EtxBefore, r.EtxAfter), r)
				}
				if debit.Sign() != 0 {
					viol("C05/CreateETX/debit-without-etx", fmt.Sprintf("%s: failure but caller debited %v", where, debit), r)
				}
			}
		case "CALL-LOCKUP":
			in := r.Input
			kind := map[int]string{60: "unwrap", 53: "claim", 20: "claimdeposit", 21: "getlatest", 25: "getdata"}[len(in)]
			if kind == "" {
				kind = "badlen"
			}
			cr.label("LOCKUP:" + kind)
			slotDelta := new(big.Int).Sub(r.SlotBefore.Big(), r.SlotAfter.Big())
			switch kind {
			case "unwrap":
				value := new(big.Int).SetBytes(in[20:52])
				ben := common.BytesToAddress(in[:20], evmgen.Loc)
				if r.SlotBefore.Big().Cmp(value) >= 0 && r.SlotBefore != (common.Hash{}) {
					cr.nontrivial = true
				}
				if ok {
					cr.nontrivial = true
					cr.label("LOCKUP:unwrap:status1")
					cr.outcomes = append(cr.outcomes, "unwrap:ok")
					if slotDelta.Cmp(value) != 0 {
						viol("C05/UnwrapQi/status1-wrong-debit", fmt.Sprintf("%s: success but wrapped-Qi slot %v -> %v, value %v", where, r.SlotBefore.Big(), r.SlotAfter.Big(), value), r)
					}
					if grew != 1 {
						viol(fmt.Sprintf("C05/UnwrapQi/status1-cache-delta=%d", grew), fmt.Sprintf("%s: success but len(ETXCache) %d -> %d", where, r.EtxBefore, r.EtxAfter), r)
					} else {
						if bad := checkEtxFields(r.NewEtxs[0], value, ben, r.EtxBefore, r.Emitter, types.UnwrapQiType, origin); bad != "" {
							viol("C05/UnwrapQi/status1-etx-fields", where+": "+bad, r)
						}
						emitted = append(emitted, emission{r, r.NewEtxs[0]})
					}
				} else {
					cr.label("LOCKUP:unwrap:status0")
					cr.outcomes = append(cr.outcomes, "unwrap:refused")
					if grew != 0 {
						viol(fmt.Sprintf("C05/UnwrapQi/status0-cache-delta=%d", grew), fmt.Sprintf("%s: failure but len(ETXCache) %d -> %d", where, r.EtxBefore, r.EtxAfter), r)
					}
					if slotDelta.Sign() != 0 {
						viol("C05/UnwrapQi/debit-without-etx", fmt.Sprintf("%s: failure but wrapped-Qi slot %v -> %v", where, r.SlotBefore.Big(), r.SlotAfter.Big()), r)
					}
				}
			case "claim":
				to := common.BytesToAddress(in[20:40], evmgen.Loc)
				had := r.RecBefore != nil && r.RecUnlock != 0
				if had {
					cr.nontrivial = true
				}
				if ok {
					cr.nontrivial = true
					cr.label("LOCKUP:claim:status1")
					cr.outcomes = append(cr.outcomes, "claim:ok")
					if r.RecAfter == nil || r.RecAfter.Sign() != 0 {
						viol("C05/ClaimCoinbaseLockup/status1-record-kept", fmt.Sprintf("%s: success but the lockup record still reads balance %v", where, r.RecAfter), r)
					}
					if grew != 1 {
						viol(fmt.Sprintf("C05/ClaimCoinbaseLockup/status1-cache-delta=%d", grew), fmt.Sprintf("%s: success but len(ETXCache) %d -> %d", where, r.EtxBefore, r.EtxAfter), r)
					} else {
						if bad := checkEtxFields(r.NewEtxs[0], r.RecBefore, to, r.EtxBefore, r.Emitter, types.CoinbaseLockupType, origin); bad != "" {
							viol("C05/ClaimCoinbaseLockup/status1-etx-fields", where+": "+bad, r)
						}
						emitted = append(emitted, emission{r, r.NewEtxs[0]})
					}
				} else {
					cr.label("LOCKUP:claim:status0")
					cr.label("LOCKUP:claim:refused:" + claimRefusal(r, env))
					cr.outcomes = append(cr.outcomes, "claim:refused")
					if grew != 0 {
						viol(fmt.Sprintf("C05/ClaimCoinbaseLockup/status0-cache-delta=%d", grew), fmt.Sprintf("%s: failure but len(ETXCache) %d -> %d", where, r.EtxBefore, r.EtxAfter), r)
					}
					if had && (r.RecAfter == nil || r.RecAfter.Cmp(r.RecBefore) != 0) {
						viol("C05/ClaimCoinbaseLockup/debit-without-etx", fmt.Sprintf("%s: failure but the lockup record balance %v -> %v", where, r.RecBefore, r.RecAfter), r)
					}
				}
			default:
				cr.outcomes = append(cr.outcomes, "lockup-"+kind)
				// no value leaves through these entry points
				if grew != 0 {
					viol(fmt.Sprintf("C05/lockup-%s/cache-delta=%d", kind, grew), fmt.Sprintf("%s: len(ETXCache) %d -> %d for a non-exporting lockup call", where, r.EtxBefore, r.EtxAfter), r)
				}
				if slotDelta.Sign() > 0 {
					viol("C05/lockup-"+kind+"/wrapped-balance-decreased", fmt.Sprintf("%s: wrapped-Qi slot %v -> %v for a non-exporting lockup call", where, r.SlotBefore.Big(), r.SlotAfter.Big()), r)
				}
			}
			if debit.Sign() != 0 {
				viol("C05/lockup/quai-balance-changed", fmt.Sprintf("%s: Quai balance of the caller changed by %v across a lockup call", where, new(big.Int).Neg(debit)), r)
			}
		}
	}

	// ---- a plain transaction to an out-of-scope address is itself a cross-chain send -------------
	var want []*types.Transaction
	topExt := false
	if c.Tx.Kind == "quai" && c.Tx.To != nil {
		if _, e := c.Tx.To.InternalAndQuaiAddress(); e != nil {
			topExt = true
		}
	}
	if topExt {
		cr.nontrivial = true
		from := evmgen.U().EOAs[c.Tx.From].Addr
		charge := new(big.Int).Mul(new(big.Int).SetUint64(res.Receipt.GasUsed), c.Tx.Price)
		paid := new(big.Int).Sub(o.Before.Get(*o.Payer), o.After.Get(*o.Payer))
		debit := new(big.Int).Sub(paid, charge)
		got := res.Receipt.OutboundEtxs
		wantType := uint64(types.DefaultType)
		if c.Tx.To.IsInQiLedgerScope() && common.IsInChainScope(c.Tx.To.Bytes(), evmgen.Loc) {
			wantType = types.ConversionType
		}
		if !txFailed {
			cr.label("TOP-EXT:ok")
			cr.outcomes = append(cr.outcomes, "TOP-EXT:ok")
			if debit.Cmp(c.Tx.Value) != 0 {
				viol("C05/tx-CreateETX/success-wrong-debit", fmt.Sprintf("cross-chain transaction succeeded, sender paid %v = gas %v + %v, value is %v", paid, charge, debit, c.Tx.Value), nil)
			}
			if len(got) != 1 {
				viol(fmt.Sprintf("C05/tx-CreateETX/success-exports=%d", len(got)), fmt.Sprintf("cross-chain transaction succeeded but exports %d ETXs", len(got)), nil)
			} else {
				if bad := checkEtxFields(got[0], c.Tx.Value, *c.Tx.To, 0, from, wantType, origin); bad != "" {
					viol("C05/tx-CreateETX/success-etx-fields", bad, nil)
				}
				want = append(want, got[0])
			}
		} else {
			cr.label("TOP-EXT:refused")
			cr.outcomes = append(cr.outcomes, "TOP-EXT:refused")
			if debit.Sign() != 0 {
				viol("C05/tx-CreateETX/debit-without-etx", fmt.Sprintf("cross-chain transaction failed but the sender paid %v beyond the gas charge %v", debit, charge), nil)
			}
		}
	}

	// ---- per transaction: the receipt's outbound list = successful, non-rolled-back emissions ----
	var keptInFailedTx []emission
	for _, em := range emitted {
		rolled, _ := tr.RolledBack(em.op.Frame, maxCode, txFailed)
		if rolled {
			cr.label("emission-rolled-back")
			continue
		}
		if txFailed {
			keptInFailedTx = append(keptInFailedTx, em)
			continue
		}
		want = append(want, em.etx)
	}
	// ---- a successful lockup claim that is rolled back must give the record back -------------------
	// (the outbound ETX is dropped with the frame; all-or-nothing demands that the debit is too)
	for i, em := range emitted {
		if em.op.Kind != "CALL-LOCKUP" || len(em.op.Input) != 53 {
			continue
		}
		rolled, _ := tr.RolledBack(em.op.Frame, maxCode, txFailed)
		if !rolled && !txFailed {
			continue
		}
		cr.label("claim-rolled-back")
		// a later claim of the same record that survives legitimately removes it
		superseded := false
		for _, later := range emitted[i+1:] {
			if later.op.Kind == "CALL-LOCKUP" && len(later.op.Input) == 53 && later.op.Emitter.Equal(em.op.Emitter) && string(later.op.Input[:20]) == string(em.op.Input[:20]) && string(later.op.Input[40:45]) == string(em.op.Input[40:45]) {
				if lr, _ := tr.RolledBack(later.op.Frame, maxCode, txFailed); !lr && !txFailed {
					superseded = true
				}
			}
		}
		if superseded {
			continue
		}
		in := em.op.Input
		miner := common.BytesToAddress(in[:20], evmgen.Loc)
		epoch := uint32(in[41])<<24 | uint32(in[42])<<16 | uint32(in[43])<<8 | uint32(in[44])
		bal, unlock, _, _ := rawdb.ReadCoinbaseLockup(o.World.KV, o.World.Batch, em.op.Emitter, miner, in[40], epoch)
		if unlock == 0 || bal.Cmp(em.op.RecBefore) != 0 {
			msg := fmt.Sprintf("lockup claim at pc=%d frame=%d by %s succeeded (record balance %v) and was then rolled back (frame reverted or transaction failed): no ETX is exported, but the record now reads balance %v unlock %d in the block batch — the locked reward is destroyed",
				em.op.PC, em.op.Frame, evmgen.U().Name(em.op.Emitter), em.op.RecBefore, bal, unlock)
			if stats.IsKnown(fpClaimRevert) && !reportKnown {
				stats.Excluded(fpClaimRevert)
			} else {
				viol(fpClaimRevert, msg, em.op)
			}
		}
	}

	got := res.Receipt.OutboundEtxs
	if txFailed {
		if len(got) != 0 {
			viol("C05/tx-failed/outbound-not-empty", fmt.Sprintf("failed transaction exports %d ETXs", len(got)), nil)
		}
		for _, em := range keptInFailedTx {
			// the operation succeeded, its debit was not rolled back, but the transaction failed and
			// exports nothing
			_, oog := tr.RolledBack(em.op.Frame, maxCode, txFailed)
			fp := "C05/tx-failed/debit-kept-etx-dropped/unknown"
			why := ""
			if oog != nil && oog.Kind == "TOP" {
				fp = fpCreateOOG
				why = " (top-level creation failed with code-store out of gas, which evm.create does not revert; applyTransaction drops result.Etxs of a failed transaction)"
			}
			bal := o.After.Get(mustInternal(em.op.Emitter))
			if fp == fpCreateOOG && stats.IsKnown(fp) && !reportKnown {
				stats.Excluded(fp)
				continue
			}
			viol(fp, fmt.Sprintf("%s at pc=%d frame=%d by %s succeeded and its debit persists (emitter balance now %v) but the failed transaction exports no ETX%s", em.op.Kind, em.op.PC, em.op.Frame, evmgen.U().Name(em.op.Emitter), bal, why), em.op)
		}
	} else {
		mismatch := len(got) != len(want)
		for i := 0; !mismatch && i < len(got); i++ {
			if got[i].Hash() != want[i].Hash() {
				mismatch = true
			}
		}
		if mismatch {
			viol("C05/tx/outbound-list-mismatch", fmt.Sprintf("receipt exports %d ETXs %v, successful non-rolled-back emissions are %d %v", len(got), hashes(got), len(want), hashes(want)), nil)
		}
		for i, e := range got {
			if int(e.ETXIndex()) != i {
				viol("C05/tx/outbound-index-not-position", fmt.Sprintf("exported ETX %d carries index %d", i, e.ETXIndex()), nil)
			}
		}
		if len(got) > 0 {
			cr.label("tx-exports")
		}
		if len(got) > 1 {
			cr.label("tx-exports-many")
		}
	}
	return cr
}

// claimRefusal names (for labels only) why a lockup claim was refused.
func claimRefusal(r *evmgen.OpRec, env *evmgen.Env) string {
	in := r.Input
	miner := common.BytesToAddress(in[:20], evmgen.Loc)
	to := common.BytesToAddress(in[20:40], evmgen.Loc)
	epoch := uint32(in[41])<<24 | uint32(in[42])<<16 | uint32(in[43])<<8 | uint32(in[44])
	latest := uint32(env.BlockNumber/params.CoinbaseEpochBlocks) + 1
	switch {
	case r.ReadOnly:
		return "readonly"
	case epoch >= latest:
		return "epoch"
	case miner.IsInQiLedgerScope() != to.IsInQiLedgerScope():
		return "ledger"
	case r.RecUnlock == 0:
		return "norecord"
	case uint64(r.RecUnlock) > env.BlockNumber:
		return "locked"
	case r.RecElems == 0:
		return "elements0"
	}
	return "gas-or-other"
}

func errClass(err error) string {
	m := err.Error()
	for _, k := range []string{"nonce too high", "nonce too low", "insufficient funds for gas", "insufficient funds for transfer", "intrinsic gas too low", "fee cap less than", "gas limit reached", "emits too many", "etx gas limit", "max fee per gas"} {
		if strings.Contains(m, k) {
			return strings.ReplaceAll(k, " ", "-")
		}
	}
	if len(m) > 40 {
		m = m[:40]
	}
	return m
}

func mustInternal(a common.Address) common.InternalAddress {
	in, _ := a.InternalAndQuaiAddress()
	return in
}

func hashes(l []*types.Transaction) []string {
	var out []string
	for _, e := range l {
		out = append(out, fmt.Sprintf("%x@%d", e.Hash().Bytes()[:4], e.ETXIndex()))
	}
	return out
}

// TestC05_Ops is the generated search.
func TestC05_Ops(t *testing.T) {
	excl := exclusions()
	rapid.Check(t, func(rt *rapid.T) {
		cfg := evmgen.ExportCfg()
		cfg.Excl = excl
		// access-list enforcement re-enabled from the tracer = block-processing semantics (majority);
		// the bypass mode is what vm.Config.Debug alone gives (RPC tracing) and reaches deeper nesting
		mode := []string{evmgen.ModeTracedEnforced, evmgen.ModeTracedEnforced, evmgen.ModeTracedBypass, evmgen.ModeTracedEnforced, evmgen.ModeTracedBypass}[rapid.IntRange(0, 4).Draw(rt, "c05mode")]
		c := evmgen.GenCase(rt, evmgen.CaseOpts{Cfg: cfg, AllowETX: true, ForceMode: mode, ContractPct: 72})
		o, err := c.Run()
		if err != nil {
			rt.Fatalf("HARNESS: %v", err)
		}
		cr := checkCase(rt, "ops", c, o)
		// signature: the distinct operation outcomes in order of first occurrence (recursion repeats
		// the same outcomes many times), the transaction outcome and the fork regime
		var uniq []string
		seen := map[string]bool{}
		for _, oc := range cr.outcomes {
			if !seen[oc] {
				seen[oc] = true
				uniq = append(uniq, oc)
			}
		}
		txo := "rejected"
		if o.Res.Err == nil {
			txo = fmt.Sprintf("status=%d,exports=%d", o.Res.Receipt.Status, len(o.Res.Receipt.OutboundEtxs))
		}
		sig := evmgen.Signature(nil, strings.Join(uniq, ","), txo, evmgen.RegimeName(c.Env.PrimeTerminusNumber))
		stats.Case("ops", sig, cr.nontrivial, cr.labels...)
		if cr.nontrivial && stats.WantSample("ops") {
			oc := cr.outcomes
			if len(oc) > 16 {
				oc = append(append([]string{}, oc[:16]...), fmt.Sprintf("… %d more", len(cr.outcomes)-16))
			}
			stats.Sample("ops", map[string]any{"tx": c.Dump()["tx"], "env": c.Dump()["env"], "outcomes": oc, "tx_outcome": txo, "kinds": strings.Join(c.Kinds, " ")})
		}
	})
}

// TestC05_Frames applies the same per-operation and per-transaction oracles to structured cases
// (evmgen.GenFrames): chains of contracts whose bodies emit ETX / CONVERT with run-time-funded
// operands inside nested CALL / DELEGATECALL / CALLCODE / STATICCALL / CREATE frames that fail or
// succeed independently of their callers - dense in emissions that are rolled back while the
// transaction succeeds, and in emissions kept by a frame kind other than CALL.
func TestC05_Frames(t *testing.T) {
	rapid.Check(t, func(rt *rapid.T) {
		c := evmgen.GenFrames(rt, evmgen.FramesOpts{Effects: []string{"convert", "etx", "transfer", "sstore", "selfdestruct"}, FailPctTop: 15,
			Modes: []string{evmgen.ModeTracedEnforced, evmgen.ModeTracedBypass}})
		o, err := c.Run()
		if err != nil {
			rt.Fatalf("HARNESS: %v", err)
		}
		cr := checkCase(rt, "frames", c, o)
		var uniq []string
		seen := map[string]bool{}
		for _, oc := range cr.outcomes {
			if !seen[oc] {
				seen[oc] = true
				uniq = append(uniq, oc)
			}
		}
		txo := "rejected"
		if o.Res.Err == nil {
			txo = fmt.Sprintf("status=%d,exports=%d", o.Res.Receipt.Status, len(o.Res.Receipt.OutboundEtxs))
		}
		stats.Case("frames", strings.Join(uniq, ",")+"|"+txo+"|"+strings.Join(c.Kinds, ","), cr.nontrivial, cr.labels...)
		if cr.nontrivial && stats.WantSample("frames") {
			stats.Sample("frames", map[string]any{"regime": evmgen.RegimeName(c.Env.PrimeTerminusNumber), "mode": c.Mode, "program": strings.Join(c.Kinds, " "), "outcomes": uniq, "tx_outcome": txo})
		}
	})
}
