package c05

import (
	"testing"

	"verifharness/evmgen"
	"verifharness/stats"
)

// Every fourth pre-state of this package is built on a pebble store (the node's production
// backend) instead of the in-memory one: the lockup and ETX paths read their own uncommitted
// writes through the block batch, and that view is implemented per backend.
func TestMain(m *testing.M) {
	evmgen.DiskEvery = 4
	stats.AtExit(evmgen.CloseDiskKVs)
	stats.Main(m)
}
