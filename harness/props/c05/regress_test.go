package c05

import (
	"encoding/binary"
	"math/big"
	"testing"

	"github.com/dominant-strategies/go-quai/common"
	"github.com/dominant-strategies/go-quai/core/vm"
	"github.com/dominant-strategies/go-quai/params"

	"verifharness/evmgen"
	"verifharness/stats"
)

// handCase builds a deterministic case: EOA4 calls contract0 whose code is written by `code`.
func handCase(ptn uint64, mask common.Hash, contractBal *big.Int, code func(a *evmgen.Asm)) *evmgen.Case {
	u := evmgen.U()
	a := evmgen.NewAsm()
	code(a)
	p := a.Assemble()
	env := &evmgen.Env{BlockNumber: 120000, PrimeTerminusNumber: ptn, BaseFee: big.NewInt(7), GasLimit: 12_000_000, Time: 1_700_000_000,
		QuaiStateSize: big.NewInt(0), Eligible: mask, Coinbase: u.EOAs[0].Addr}
	pre := &evmgen.PreState{Accounts: []evmgen.AccountSpec{
		{Addr: u.Contracts[0], Balance: contractBal, Nonce: 1, Code: &p},
		{Addr: u.EOAs[4].Addr, Balance: new(big.Int).Exp(big.NewInt(10), big.NewInt(24), nil)},
	}}
	to := u.Contracts[0]
	return &evmgen.Case{Env: env, Pre: pre, Mode: evmgen.ModeTracedBypass, CleanFrom: true,
		Tx: evmgen.TxSpec{Kind: "quai", From: 4, To: &to, ToClass: "contract", Gas: 400000, GasClass: "hand", Price: big.NewInt(7), PriceClass: "basefee",
			Value: new(big.Int), ALClass: "empty"}}
}

// etxOp pushes the ten ETX operands and executes the opcode.
func etxOp(a *evmgen.Asm, dest common.Address, value, limit, tip, cap_ *big.Int, alOff, alSize uint64) {
	a.Push(alSize).Push(alOff).Push(0).Push(0)
	a.PushBig(cap_).PushBig(tip).PushBig(limit).PushBig(value).PushAddr(dest).Push(0)
	a.Op(vm.ETX)
}

type regress struct {
	name string
	fps  []string // fingerprints the case is expected to raise
	mk   func() *evmgen.Case
}

func regressions() []regress {
	u := evmgen.U()
	allEligible := evmgen.EligibleMask(common.Location{0, 1}, common.Location{1, 0}, common.Location{3, 3})
	post := params.SelfDestructRefundForkBlock + 10
	pre := params.SelfDestructRefundForkBlock - 1
	two256 := new(big.Int).Lsh(big.NewInt(1), 256)
	return []regress{
		{"MalformedAccessList", []string{fpALDecode}, func() *evmgen.Case {
			// contract holds 5000, sends 1000 with a one-byte access-list blob that is not RLP list
			return handCase(post, allEligible, big.NewInt(5000), func(a *evmgen.Asm) {
				a.DataToMem(a.Data([]byte{0x00}, "malformed access list"), 0x300)
				etxOp(a, u.ForeignQuai[0], big.NewInt(1000), big.NewInt(21000), new(big.Int), new(big.Int), 0x300, 1)
				a.Op(vm.POP, vm.STOP)
			})
		}},
		{"IneligibleDestination", []string{fpIneligPush, fpIneligDebit}, func() *evmgen.Case {
			// no slice is eligible; two cushion words keep the frame alive after the missing push
			return handCase(post, common.Hash{}, big.NewInt(5000), func(a *evmgen.Asm) {
				a.Push(0xC0).Push(0xC1)
				etxOp(a, u.ForeignQuai[0], big.NewInt(1000), big.NewInt(21000), new(big.Int), new(big.Int), 0, 0)
				a.Op(vm.POP, vm.STOP)
			})
		}},
		{"LegacyWrapETX", []string{fpWrapETX}, func() *evmgen.Case {
			// before the checked-arithmetic fork value + cap*limit wraps to 5
			value := new(big.Int).Sub(two256, big.NewInt(21000-5))
			return handCase(pre, allEligible, big.NewInt(5000), func(a *evmgen.Asm) {
				etxOp(a, u.ForeignQuai[0], value, big.NewInt(21000), new(big.Int), big.NewInt(1), 0, 0)
				a.Op(vm.POP, vm.STOP)
			})
		}},
		{"LegacyWrapConvert", []string{fpWrapConvert}, func() *evmgen.Case {
			// fee = gas price 7 * 21000 = 147000; value + fee wraps to 5
			value := new(big.Int).Sub(two256, big.NewInt(147000-5))
			return handCase(pre, allEligible, big.NewInt(5000), func(a *evmgen.Asm) {
				a.Push(21000).PushBig(value).PushAddr(u.InZoneQi[0]).Push(0).Op(vm.CONVERT, vm.POP, vm.STOP)
			})
		}},
		{"CreateCodeStoreOOG", []string{fpCreateOOG}, func() *evmgen.Case {
			// a creation transaction whose init code sends 1000 of its endowment away with ETX and
			// then returns more code than the remaining gas can pay for
			c := handCase(post, allEligible, big.NewInt(0), func(a *evmgen.Asm) { a.Op(vm.STOP) })
			a := evmgen.NewAsm()
			etxOp(a, u.ForeignQuai[0], big.NewInt(1000), big.NewInt(21000), new(big.Int), new(big.Int), 0, 0)
			a.Op(vm.POP)
			a.Push(20000).Push(0).Op(vm.RETURN) // 20000 bytes * 200 gas = 4M gas > what is left
			c.Tx.To, c.Tx.ToClass = nil, "create"
			c.Tx.Data = a.Assemble().Code
			c.Tx.DataNote = "init: ETX then RETURN 20000 bytes"
			c.Tx.Value = big.NewInt(5000)
			c.Tx.Gas = 600000
			return c
		}},
		{"ClaimThenRevert", []string{fpClaimRevert}, func() *evmgen.Case {
			// the contract claims its unlocked tranche (777) and then reverts: same root cause as the
			// C12 finding (ClaimCoinbaseLockup deletes from the block batch, a revert restores only
			// the in-memory map)
			in := make([]byte, 53)
			copy(in, u.Miners[0].Bytes())
			copy(in[20:], u.ForeignQuai[0].Bytes())
			in[40] = 1
			binary.BigEndian.PutUint32(in[41:], 1)
			binary.BigEndian.PutUint64(in[45:], 21000)
			c := handCase(post, allEligible, big.NewInt(0), func(a *evmgen.Asm) {
				lockupCall(a, in, 100000)
				a.Op(vm.POP).Push(0).Push(0).Op(vm.REVERT)
			})
			c.Pre.Lockups = []evmgen.LockupRec{{Owner: u.Contracts[0], Miner: u.Miners[0], LockupByte: 1, Epoch: 1, Balance: big.NewInt(777), Unlock: 100, Elements: 2, Delegate: common.Zero}}
			return c
		}},
		{"ClaimInRevertedInnerFrame", []string{fpClaimRevert}, func() *evmgen.Case {
			// contract0 calls itself; the inner frame claims and reverts, the transaction succeeds
			in := make([]byte, 53)
			copy(in, u.Miners[0].Bytes())
			copy(in[20:], u.ForeignQuai[0].Bytes())
			in[40] = 1
			binary.BigEndian.PutUint32(in[41:], 1)
			binary.BigEndian.PutUint64(in[45:], 21000)
			c := handCase(post, allEligible, big.NewInt(0), func(a *evmgen.Asm) {
				inner := a.NewLabel("inner")
				a.Op(vm.CALLDATASIZE).PushLabel(inner).Op(vm.JUMPI)
				a.Push(0).Push(0).Push(1).Push(0).Push(0).Op(vm.ADDRESS, vm.GAS, vm.CALL, vm.POP, vm.STOP)
				a.Label(inner)
				lockupCall(a, in, 100000)
				a.Op(vm.POP).Push(0).Push(0).Op(vm.REVERT)
			})
			c.Pre.Lockups = []evmgen.LockupRec{{Owner: u.Contracts[0], Miner: u.Miners[0], LockupByte: 1, Epoch: 1, Balance: big.NewInt(777), Unlock: 100, Elements: 2, Delegate: common.Zero}}
			return c
		}},
	}
}

// TestC05_RegressKnown replays, without rapid, one minimal input per root cause found on the
// unchanged tree, through the same oracle. Listed findings are reported through stats.Violation
// (KNOWN-FINDING); an unlisted one fails the run as a violation.
func TestC05_RegressKnown(t *testing.T) {
	if stats.Shard() != 0 {
		t.Skip("deterministic cases run on shard 0 only")
	}
	for _, rg := range regressions() {
		rg := rg
		t.Run(rg.name, func(t *testing.T) {
			c := rg.mk()
			o, err := c.Run()
			if err != nil {
				t.Fatalf("HARNESS: %v", err)
			}
			reportKnown = true
			cr := checkCase(t, "regress", c, o)
			reportKnown = false
			stats.Case("regress", rg.name, true, append(cr.labels, "regress:"+rg.name)...)
			seen := map[string]bool{}
			for _, fp := range cr.fps {
				seen[fp] = true
			}
			for _, fp := range rg.fps {
				if !seen[fp] && stats.IsKnown(fp) {
					t.Fatalf("HARNESS: finding %s is listed as known but its minimal input no longer reproduces it (observed %v); if the defect was repaired set its status to \"fixed\"", fp, cr.fps)
				}
				if !seen[fp] {
					t.Logf("regression input %s did not raise %s (observed %v)", rg.name, fp, cr.fps)
				}
			}
			for _, fp := range cr.fps {
				exp := false
				for _, w := range rg.fps {
					exp = exp || w == fp
				}
				if !exp {
					t.Logf("regression input %s additionally raised %s", rg.name, fp)
				}
			}
		})
	}
}
