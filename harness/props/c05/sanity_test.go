package c05

import (
	"encoding/binary"
	"math/big"
	"testing"

	"github.com/dominant-strategies/go-quai/common"
	"github.com/dominant-strategies/go-quai/core/vm"
	"github.com/dominant-strategies/go-quai/params"

	"verifharness/evmgen"
	"verifharness/stats"
)

func lockupCall(a *evmgen.Asm, in []byte, gas uint64) {
	a.DataToMem(a.Data(in, "lockup input"), 0)
	a.Push(0x40).Push(0x200).Push(uint64(len(in))).Push(0).Push(0).PushAddr(evmgen.U().Lockup).Push(gas).Op(vm.CALL)
}

// TestC05_Sanity runs hand-written programs in which every exporting operation succeeds, and some
// that are refused, through the same oracle: the oracle must accept them and must have seen the
// success (status 1) it is built to judge. This anchors the generated search: if one of these
// stops reaching its branch the harness, not the property, is broken.
func TestC05_Sanity(t *testing.T) {
	if stats.Shard() != 0 {
		t.Skip("deterministic cases run on shard 0 only")
	}
	u := evmgen.U()
	all := evmgen.EligibleMask(common.Location{0, 1}, common.Location{1, 0}, common.Location{3, 3})
	post := params.SelfDestructRefundForkBlock + 10
	e18 := new(big.Int).Exp(big.NewInt(10), big.NewInt(18), nil)
	e21 := new(big.Int).Mul(e18, big.NewInt(1000))
	cases := []struct {
		name      string
		wantLabel string
		mk        func() *evmgen.Case
	}{
		{"ETX", "ETX:status1", func() *evmgen.Case {
			return handCase(post, all, big.NewInt(50000), func(a *evmgen.Asm) {
				etxOp(a, u.ForeignQuai[0], big.NewInt(1000), big.NewInt(21000), big.NewInt(1), big.NewInt(1), 0, 0)
				a.Op(vm.POP, vm.STOP)
			})
		}},
		{"ETXThenRevert", "emission-rolled-back", func() *evmgen.Case {
			return handCase(post, all, big.NewInt(50000), func(a *evmgen.Asm) {
				etxOp(a, u.ForeignQuai[0], big.NewInt(1000), big.NewInt(21000), big.NewInt(0), big.NewInt(0), 0, 0)
				a.Op(vm.POP).Push(0).Push(0).Op(vm.REVERT)
			})
		}},
		{"Convert", "CONVERT:status1", func() *evmgen.Case {
			return handCase(post, all, e21, func(a *evmgen.Asm) {
				a.Push(21000).PushBig(params.MinQuaiConversionAmount).PushAddr(u.InZoneQi[0]).Push(0).Op(vm.CONVERT, vm.POP, vm.STOP)
			})
		}},
		{"TopLevelConversionTx", "TOP-EXT:ok", func() *evmgen.Case {
			c := handCase(post, all, big.NewInt(0), func(a *evmgen.Asm) { a.Op(vm.STOP) })
			to := u.InZoneQi[1]
			c.Tx.To, c.Tx.ToClass, c.Tx.Value = &to, "inZoneQi", new(big.Int).Set(params.MinQuaiConversionAmount)
			return c
		}},
		{"TopLevelConversionTxBelowMin", "TOP-EXT:refused", func() *evmgen.Case {
			c := handCase(post, all, big.NewInt(0), func(a *evmgen.Asm) { a.Op(vm.STOP) })
			to := u.InZoneQi[1]
			c.Tx.To, c.Tx.ToClass, c.Tx.Value = &to, "inZoneQi", new(big.Int).Sub(params.MinQuaiConversionAmount, big.NewInt(1))
			return c
		}},
		{"Unwrap", "LOCKUP:unwrap:status1", func() *evmgen.Case {
			in := make([]byte, 60)
			copy(in, u.InZoneQi[0].Bytes())
			big.NewInt(400).FillBytes(in[20:52])
			binary.BigEndian.PutUint64(in[52:], 21000)
			c := handCase(post, all, big.NewInt(0), func(a *evmgen.Asm) {
				lockupCall(a, in, 100000)
				a.Op(vm.POP, vm.STOP)
			})
			c.Pre.WrappedQi = []evmgen.WrappedQi{{Owner: u.Contracts[0], Balance: big.NewInt(1000)}}
			return c
		}},
		{"UnwrapTooMuch", "LOCKUP:unwrap:status0", func() *evmgen.Case {
			in := make([]byte, 60)
			copy(in, u.InZoneQi[0].Bytes())
			big.NewInt(1001).FillBytes(in[20:52])
			binary.BigEndian.PutUint64(in[52:], 21000)
			c := handCase(post, all, big.NewInt(0), func(a *evmgen.Asm) {
				lockupCall(a, in, 100000)
				a.Op(vm.POP, vm.STOP)
			})
			c.Pre.WrappedQi = []evmgen.WrappedQi{{Owner: u.Contracts[0], Balance: big.NewInt(1000)}}
			return c
		}},
		{"Claim", "LOCKUP:claim:status1", func() *evmgen.Case {
			in := make([]byte, 53)
			copy(in, u.Miners[0].Bytes())
			copy(in[20:], u.ForeignQuai[0].Bytes())
			in[40] = 1
			binary.BigEndian.PutUint32(in[41:], 1)
			binary.BigEndian.PutUint64(in[45:], 21000)
			c := handCase(post, all, big.NewInt(0), func(a *evmgen.Asm) {
				lockupCall(a, in, 100000)
				a.Op(vm.POP, vm.STOP)
			})
			c.Pre.Lockups = []evmgen.LockupRec{{Owner: u.Contracts[0], Miner: u.Miners[0], LockupByte: 1, Epoch: 1, Balance: big.NewInt(777), Unlock: 100, Elements: 2, Delegate: common.Zero}}
			return c
		}},
		{"ClaimNotUnlocked", "LOCKUP:claim:status0", func() *evmgen.Case {
			in := make([]byte, 53)
			copy(in, u.Miners[0].Bytes())
			copy(in[20:], u.ForeignQuai[0].Bytes())
			in[40] = 1
			binary.BigEndian.PutUint32(in[41:], 1)
			binary.BigEndian.PutUint64(in[45:], 21000)
			c := handCase(post, all, big.NewInt(0), func(a *evmgen.Asm) {
				lockupCall(a, in, 100000)
				a.Op(vm.POP, vm.STOP)
			})
			c.Pre.Lockups = []evmgen.LockupRec{{Owner: u.Contracts[0], Miner: u.Miners[0], LockupByte: 1, Epoch: 1, Balance: big.NewInt(777), Unlock: 120001, Elements: 2, Delegate: common.Zero}}
			return c
		}},
		{"TopLevelCrossChainTx", "TOP-EXT:ok", func() *evmgen.Case {
			c := handCase(post, all, big.NewInt(0), func(a *evmgen.Asm) { a.Op(vm.STOP) })
			to := u.ForeignQuai[0]
			c.Tx.To, c.Tx.ToClass, c.Tx.Value = &to, "foreignQuai", big.NewInt(5555)
			return c
		}},
	}
	for _, tc := range cases {
		tc := tc
		t.Run(tc.name, func(t *testing.T) {
			c := tc.mk()
			o, err := c.Run()
			if err != nil {
				t.Fatalf("HARNESS: %v", err)
			}
			cr := checkCase(t, "sanity", c, o)
			stats.Case("sanity", tc.name, cr.nontrivial, append(cr.labels, "sanity:"+tc.name)...)
			found := false
			for _, l := range cr.labels {
				found = found || l == tc.wantLabel
			}
			if !found {
				t.Fatalf("HARNESS: hand-written case %s did not reach %s (labels %v, outcomes %v, receipt status %v err %v)", tc.name, tc.wantLabel, cr.labels, cr.outcomes, o.Res.Receipt, o.Res.Err)
			}
			if len(cr.fps) > 0 {
				t.Logf("oracle failures on a hand-written case: %v", cr.fps)
			}
		})
	}
}
