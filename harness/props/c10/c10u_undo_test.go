// C10 (part U) — the per-block undo records are complete.
//
// A reorganisation restores the state of the fork point from four records written with every
// block: the outputs it spent (with denomination, owner and lock), the keys of the outputs it
// created, the outputs it trimmed, and the lockup records it created / deleted. The simulator's
// histories only reach denominations 0-10 and small records; here the records themselves are
// written and read back for generated contents over the whole domain (every denomination up to
// the maximum, locks, long lists): what is read must be exactly what was written (as a multiset;
// the created keys additionally in non-decreasing denomination order, which the trimmer relies
// on), and writing must not disturb the caller's data beyond reordering it.
package c10

import (
	"bytes"
	"fmt"
	"math/big"
	"sort"
	"testing"

	"github.com/dominant-strategies/go-quai/common"
	"github.com/dominant-strategies/go-quai/core/rawdb"
	"github.com/dominant-strategies/go-quai/core/types"
	"pgregory.net/rapid"

	"verifharness/sim"
	"verifharness/stats"
)

func sortedCopy(in [][]byte) []string {
	out := make([]string, len(in))
	for i, b := range in {
		out[i] = string(b)
	}
	sort.Strings(out)
	return out
}

func TestC10U_UndoRecords(t *testing.T) {
	const part = "undo-records"
	caseNo := 0
	rapid.Check(t, func(t *rapid.T) {
		caseNo++
		db := rawdb.NewMemoryDatabase(sim.Logger())
		var bh common.Hash
		copy(bh[:], rapid.SliceOfN(rapid.Byte(), 32, 32).Draw(t, "blockHash"))
		// denominations: every value of the domain is visited by rotation, the extremes often
		den := func(i int) uint8 {
			switch rapid.IntRange(0, 3).Draw(t, "denKind") {
			case 0:
				return uint8((caseNo + i) % (types.MaxDenomination + 1))
			case 1:
				return types.MaxDenomination
			case 2:
				return 0
			}
			return uint8(rapid.IntRange(0, types.MaxDenomination).Draw(t, "den"))
		}
		n := rapid.SampledFrom([]int{0, 1, 2, 3, 5, 8, 17, 40}).Draw(t, "n")
		dump := map[string]any{}
		fail := func(fp, msg string) { stats.Violation(t, part, fp, msg, dump) }

		// ---- created output keys ----------------------------------------------------------------
		var keys [][]byte
		var dens []uint8
		for i := 0; i < n; i++ {
			var h common.Hash
			copy(h[:], rapid.SliceOfN(rapid.Byte(), 32, 32).Draw(t, "txHash"))
			d := den(i)
			keys = append(keys, rawdb.UtxoKeyWithDenomination(h, uint16(rapid.IntRange(0, 65535).Draw(t, "index")), d))
			dens = append(dens, d)
		}
		dump["created_denominations"] = fmt.Sprint(dens)
		want := sortedCopy(keys)
		if err := rawdb.WriteCreatedUTXOKeys(db, bh, keys); err != nil {
			fail("C10/U/created-keys/write-error", err.Error())
		}
		if got := sortedCopy(keys); fmt.Sprint(got) != fmt.Sprint(want) {
			fail("C10/U/created-keys/caller-slice-changed", "WriteCreatedUTXOKeys changed the set of keys in the caller's slice")
		}
		got, err := rawdb.ReadCreatedUTXOKeys(db, bh)
		if err != nil {
			fail("C10/U/created-keys/read-error", err.Error())
		}
		if g := sortedCopy(got); fmt.Sprint(g) != fmt.Sprint(want) {
			missing := map[uint8]int{}
			gm := map[string]int{}
			for _, k := range g {
				gm[k]++
			}
			for _, k := range want {
				if gm[k] == 0 {
					missing[k[len(k)-1]]++
				} else {
					gm[k]--
				}
			}
			fail("C10/U/created-keys/record-incomplete", fmt.Sprintf("%d keys written, %d read back; missing per denomination: %v", len(want), len(g), missing))
		}
		for i := 1; i < len(got); i++ {
			if got[i-1][len(got[i-1])-1] > got[i][len(got[i])-1] {
				fail("C10/U/created-keys/not-ordered-by-denomination", fmt.Sprintf("key %d has denomination %d, key %d has %d", i-1, got[i-1][len(got[i-1])-1], i, got[i][len(got[i])-1]))
			}
		}

		// ---- spent and trimmed outputs --------------------------------------------------------------
		mk := func(label string) []*types.SpentUtxoEntry {
			var out []*types.SpentUtxoEntry
			for i := 0; i < n; i++ {
				var h common.Hash
				copy(h[:], rapid.SliceOfN(rapid.Byte(), 32, 32).Draw(t, label+"Hash"))
				lock := new(big.Int)
				switch rapid.IntRange(0, 3).Draw(t, label+"LockKind") {
				case 1:
					lock = big.NewInt(int64(rapid.IntRange(1, 1<<30).Draw(t, label+"Lock")))
				case 2:
					lock = new(big.Int).SetUint64(^uint64(0))
				}
				out = append(out, &types.SpentUtxoEntry{OutPoint: types.OutPoint{TxHash: h, Index: uint16(rapid.IntRange(0, 65535).Draw(t, label+"Index"))},
					UtxoEntry: &types.UtxoEntry{Denomination: den(i), Address: rapid.SliceOfN(rapid.Byte(), 20, 20).Draw(t, label+"Addr"), Lock: lock}})
			}
			return out
		}
		render := func(l []*types.SpentUtxoEntry) []string {
			var out []string
			for _, s := range l {
				lock := "0"
				if s.Lock != nil {
					lock = s.Lock.String()
				}
				out = append(out, fmt.Sprintf("%x:%d den=%d owner=%x lock=%s", s.TxHash, s.Index, s.Denomination, s.Address, lock))
			}
			sort.Strings(out)
			return out
		}
		for _, rec := range []struct {
			name  string
			write func([]*types.SpentUtxoEntry) error
			read  func() ([]*types.SpentUtxoEntry, error)
		}{
			{"spent", func(l []*types.SpentUtxoEntry) error { return rawdb.WriteSpentUTXOs(db, bh, l) }, func() ([]*types.SpentUtxoEntry, error) { return rawdb.ReadSpentUTXOs(db, bh) }},
			{"trimmed", func(l []*types.SpentUtxoEntry) error { return rawdb.WriteTrimmedUTXOs(db, bh, l) }, func() ([]*types.SpentUtxoEntry, error) { return rawdb.ReadTrimmedUTXOs(db, bh) }},
		} {
			l := mk(rec.name)
			w := render(l)
			if err := rec.write(l); err != nil {
				fail("C10/U/"+rec.name+"/write-error", err.Error())
			}
			g, err := rec.read()
			if err != nil {
				fail("C10/U/"+rec.name+"/read-error", err.Error())
			}
			if gr := render(g); fmt.Sprint(gr) != fmt.Sprint(w) {
				first := ""
				for i := range w {
					if i >= len(gr) || gr[i] != w[i] {
						first = w[i]
						break
					}
				}
				fail("C10/U/"+rec.name+"/record-differs", fmt.Sprintf("%d entries written, %d read back; first written entry not read back as written: %s", len(w), len(gr), first))
			}
		}

		// ---- lockup records -----------------------------------------------------------------------
		var lkeys [][]byte
		var deleted []rawdb.DeletedCoinbaseLockup
		for i := 0; i < n; i++ {
			k := rapid.SliceOfN(rapid.Byte(), rawdb.CoinbaseLockupKeyLength, rawdb.CoinbaseLockupKeyLength).Draw(t, "lockupKey")
			lkeys = append(lkeys, k)
			deleted = append(deleted, rawdb.DeletedCoinbaseLockup{Key: common.CopyBytes(k), Value: rapid.SliceOfN(rapid.Byte(), 0, 80).Draw(t, "lockupValue")})
		}
		wantL := sortedCopy(lkeys)
		if err := rawdb.WriteCreatedCoinbaseLockupKeys(db, bh, lkeys); err != nil {
			fail("C10/U/created-lockups/write-error", err.Error())
		}
		gl, err := rawdb.ReadCreatedCoinbaseLockupKeys(db, bh)
		if err != nil {
			fail("C10/U/created-lockups/read-error", err.Error())
		}
		if fmt.Sprint(sortedCopy(gl)) != fmt.Sprint(wantL) {
			fail("C10/U/created-lockups/record-differs", fmt.Sprintf("%d keys written, %d read back", len(wantL), len(gl)))
		}
		if err := rawdb.WriteDeletedCoinbaseLockups(db, bh, deleted); err != nil {
			fail("C10/U/deleted-lockups/write-error", err.Error())
		}
		gd, err := rawdb.ReadDeletedCoinbaseLockups(db, bh)
		if err != nil {
			fail("C10/U/deleted-lockups/read-error", err.Error())
		}
		if len(gd) != len(deleted) {
			fail("C10/U/deleted-lockups/record-differs", fmt.Sprintf("%d entries written, %d read back", len(deleted), len(gd)))
		} else {
			for i := range gd { // the rollback replays them in order
				if !bytes.Equal(gd[i].Key, deleted[i].Key) || !bytes.Equal(gd[i].Value, deleted[i].Value) {
					fail("C10/U/deleted-lockups/record-differs", fmt.Sprintf("entry %d: written %x=%x, read %x=%x", i, deleted[i].Key, deleted[i].Value, gd[i].Key, gd[i].Value))
					break
				}
			}
		}
		hasMax := false
		for _, d := range dens {
			if d == types.MaxDenomination {
				hasMax = true
			}
		}
		labels := []string{fmt.Sprintf("n:%d", n)}
		if hasMax {
			labels = append(labels, "has_max_denomination")
		}
		stats.Case(part, fmt.Sprintf("n=%d dens=%v", n, dens), n > 0, labels...)
		if n > 0 && stats.WantSample(part) {
			stats.Sample(part, dump)
		}
	})
}
