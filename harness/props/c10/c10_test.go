// C10 — reorganisation leaves exactly the state of the winning branch.
// Two branches from a common ancestor are built on one real prime+region+zone hierarchy with
// generated Quai/Qi/conversion/lockup traffic; after every head switch the zone's chain-state
// projection must equal that of a fresh hierarchy that only ever saw the now-canonical chain,
// switching back must reproduce the earlier projection, and the head's commitments must equal
// the database content (DESIGN.md §4 C10).
package c10

import (
	"fmt"
	"os"
	"sort"
	"strings"
	"testing"

	"github.com/dominant-strategies/go-quai/core/types"
	"pgregory.net/rapid"

	"verifharness/sim"
	"verifharness/stats"
)

const part = "reorg"

type target struct {
	name  string
	heads sim.Heads
	path  []*sim.Block // blocks from genesis to the target, in mining order
}

func blockKinds(b *sim.Block) (qi, lockup, claim, conv bool) {
	for _, tx := range b.Zone().Transactions() {
		switch tx.Type() {
		case types.QiTxType:
			qi = true
		case types.ExternalTxType:
			switch tx.EtxType() {
			case types.CoinbaseType:
				if len(tx.Data()) > 33 {
					lockup = true
				}
			case types.CoinbaseLockupType:
				claim = true
			case types.ConversionType, types.ConversionRevertType:
				conv = true
			}
		}
	}
	for _, etx := range b.Zone().OutboundEtxs() {
		if etx.EtxType() == types.CoinbaseLockupType {
			claim = true
		}
	}
	return
}

// replayFresh builds a new hierarchy that only receives the given path and adopts heads.
func replayFresh(path []*sim.Block, heads sim.Heads, index bool) (*sim.Net, error) {
	opt := sim.Options{}
	opt.Nodes[sim.Zone].IndexAddressUtxos = index
	f, err := sim.NewNet(opt)
	if err != nil {
		return nil, err
	}
	for i, b := range path {
		if err := f.SetHeads(b.Parents); err != nil {
			f.Close()
			return nil, fmt.Errorf("fresh: adopt parents of block %d: %w", i, err)
		}
		if err := f.Insert(b); err != nil {
			f.Close()
			return nil, fmt.Errorf("fresh: insert block %d: %w", i, err)
		}
		if os.Getenv("VERIF_C10_DEBUG") != "" {
			if err := f.SetHeads(b.After); err == nil {
				fp, msg := sim.CheckHeadCommitment(f.Nodes[sim.Zone])
				fmt.Printf("DEBUG fresh block %d order=%d #%d: %s %s\n", i, b.Order, b.Zone().NumberU64(sim.Zone), fp, msg)
			} else {
				fmt.Printf("DEBUG fresh block %d: setheads: %v\n", i, err)
			}
		}
	}
	if err := f.SetHeads(heads); err != nil {
		f.Close()
		return nil, fmt.Errorf("fresh: adopt final heads: %w", err)
	}
	return f, nil
}

func firstComponent(diff string) string {
	for _, c := range []string{"head", "canonical", "utxos", "lockups", "addr-index", "addr-lockups"} {
		if strings.Contains(diff, c+" ") || strings.Contains(diff, c+"[") {
			return c
		}
	}
	return "other"
}

func TestC10_Reorg(t *testing.T) {
	// every other shard runs with long lockup epochs (one tranche lives for 16 blocks instead of 4),
	// so that blocks on the branches overwrite tranches created before the fork point instead of
	// creating their own
	if stats.Shard()%2 == 1 {
		sim.DefaultScale.CoinbaseEpochBlocks = 16
	}
	rapid.Check(t, func(t *rapid.T) {
		index := rapid.Bool().Draw(t, "indexAddressUtxos")
		opt := sim.Options{}
		opt.Nodes[sim.Zone].IndexAddressUtxos = index
		n, err := sim.NewNet(opt)
		if err != nil {
			t.Fatalf("HARNESS: net: %v", err)
		}
		defer n.Close()
		trunk := sim.NewActor(n)
		// a third of the cases are lockup-heavy: most block rewards of trunk and branches go to one
		// contract-held tranche with changing delegates, so that rolled-back blocks overwrite (not
		// just create) lockup records
		if rapid.IntRange(0, 2).Draw(t, "lockupHeavy") == 0 || os.Getenv("VERIF_C10_LOCKUP_HEAVY") != "" {
			trunk.StickyPct = 70
			stats.Label(part, "lockup_heavy")
			if sim.DefaultScale.CoinbaseEpochBlocks > 4 {
				stats.Label(part, "lockup_heavy_long_epochs")
			}
		}
		if err := trunk.Prelude(); err != nil {
			t.Fatalf("HARNESS: prelude: %v", err)
		}
		var hist []string
		dump := func() any {
			return map[string]any{"index_address_utxos": index, "trunk_and_branches": trunk.Log, "switches": hist}
		}
		step := func(a *sim.Actor, what string) {
			if err := a.Adopt(); err != nil {
				// a generated branch block that the node refuses to adopt is a C07 matter, not C10
				t.Fatalf("HARNESS: adopt on %s: %v", what, err)
			}
			a.Traffic(t)
			if _, err := a.MineRandom(t); err != nil {
				t.Fatalf("HARNESS: mine on %s: %v\n%s", what, err, strings.Join(a.Log, "\n"))
			}
		}
		trunkExtra := rapid.IntRange(0, 6).Draw(t, "trunkExtra")
		if trunk.StickyPct > 0 {
			// a reward executes about six blocks after the block that earned it (inclusion depth plus the
			// round trip through prime): the trunk must be long enough for sticky rewards to be on
			// their way when the branches start
			trunkExtra = rapid.IntRange(9, 14).Draw(t, "trunkExtraLockupHeavy")
		}
		for i, k := 0, trunkExtra; i < k; i++ {
			step(trunk, "trunk")
		}
		forkHeads := trunk.Heads
		forkPath := append([]*sim.Block{}, trunk.Blocks...)
		A, B := trunk.Fork(2), trunk.Fork(3)
		dA, dB := rapid.IntRange(1, 6).Draw(t, "depthA"), rapid.IntRange(1, 6).Draw(t, "depthB")
		for i := 0; i < dA; i++ {
			step(A, "A")
		}
		for i := 0; i < dB; i++ {
			step(B, "B")
		}
		trunk.Log = append(append(append([]string{}, trunk.Log...), prefix("A: ", A.Log[len(trunk.Log):])...), prefix("B: ", B.Log[len(trunk.Log):])...)

		targets := []target{{"fork", forkHeads, forkPath}}
		for i := len(forkPath); i < len(A.Blocks); i++ {
			targets = append(targets, target{fmt.Sprintf("A%d", i-len(forkPath)+1), A.Blocks[i].After, A.Blocks[:i+1]})
		}
		for i := len(forkPath); i < len(B.Blocks); i++ {
			targets = append(targets, target{fmt.Sprintf("B%d", i-len(forkPath)+1), B.Blocks[i].After, B.Blocks[:i+1]})
		}
		// currently the net follows B's tip. Generate switches.
		cur := targets[len(targets)-1]
		seen := map[string]*sim.ChainState{}
		nontrivial := false
		var sigParts []string
		nSwitch := rapid.IntRange(1, 5).Draw(t, "nSwitch")
		var visited []target
		for s := 0; s < nSwitch; s++ {
			tg := targets[rapid.IntRange(0, len(targets)-1).Draw(t, "target")]
			if len(visited) > 1 && rapid.IntRange(0, 2).Draw(t, "revisit") == 0 {
				tg = visited[rapid.IntRange(0, len(visited)-1).Draw(t, "which")]
			}
			if tg.name == cur.name {
				continue
			}
			hist = append(hist, fmt.Sprintf("switch %s -> %s", cur.name, tg.name))
			if err := n.SetHeads(tg.heads); err != nil {
				stats.Violation(t, part, "C10/switch/sethead-error", fmt.Sprintf("switching %s -> %s failed: %v", cur.name, tg.name, err), dump())
				return
			}
			// what was rolled back?
			rolled := rolledBack(cur.path, tg.path)
			for _, b := range rolled {
				qi, lk, cl, cv := blockKinds(b)
				if qi || lk || cl {
					nontrivial = true
				}
				sigParts = append(sigParts, fmt.Sprintf("rb[qi=%v lk=%v cl=%v cv=%v o=%d]", qi, lk, cl, cv, b.Order))
				if qi {
					stats.Label(part, "rolled_back_qi_spend")
				}
				if lk {
					stats.Label(part, "rolled_back_lockup_reward")
				}
				if cl {
					stats.Label(part, "rolled_back_claim")
				}
				if b.Order < sim.Zone {
					stats.Label(part, "rolled_back_dom_block")
				}
			}
			got := n.ZoneChainState()
			fresh, err := replayFresh(tg.path, tg.heads, index)
			if err != nil {
				t.Fatalf("HARNESS: %v", err)
			}
			want := fresh.ZoneChainState()
			if d := want.Diff(got); d != "" {
				fresh.Close()
				stats.Violation(t, part, "C10/switch/"+firstComponent(d), fmt.Sprintf("after %s -> %s the zone differs from a node that only saw %s (fresh vs reorged): %s", cur.name, tg.name, tg.name, d), dump())
				return
			}
			for ctx := 0; ctx < 2; ctx++ {
				w, g := sim.CaptureChainState(fresh.Nodes[ctx]), sim.CaptureChainState(n.Nodes[ctx])
				if d := w.Diff(g); d != "" {
					fresh.Close()
					stats.Violation(t, part, fmt.Sprintf("C10/switch/dom%d-%s", ctx, firstComponent(d)), fmt.Sprintf("after %s -> %s node ctx %d differs from a fresh node: %s", cur.name, tg.name, ctx, d), dump())
					return
				}
			}
			freshFp, freshMsg := sim.CheckHeadCommitment(fresh.Nodes[sim.Zone])
			fresh.Close()
			if prev, ok := seen[tg.name]; ok {
				stats.Label(part, "switch_back")
				if d := prev.Diff(got); d != "" {
					stats.Violation(t, part, "C10/switch-back/"+firstComponent(d), fmt.Sprintf("returning to %s does not restore its earlier state: %s", tg.name, d), dump())
					return
				}
			}
			seen[tg.name] = got
			visited = append(visited, tg)
			if fp, msg := sim.CheckHeadCommitment(n.Nodes[sim.Zone]); fp != "" {
				stats.Violation(t, part, "C10/commitment/"+fp, fmt.Sprintf("after %s -> %s: %s (a fresh node that only saw %s: %q %s)", cur.name, tg.name, msg, tg.name, freshFp, freshMsg), dump())
				return
			}
			cur = tg
		}
		sort.Strings(sigParts)
		labels := []string{}
		if index {
			labels = append(labels, "index_on")
		}
		stats.Case(part, fmt.Sprintf("idx=%v dA=%d dB=%d %s", index, dA, dB, strings.Join(sigParts, "")), nontrivial, labels...)
		if nontrivial && stats.WantSample(part) {
			stats.Sample(part, dump())
		}
	})
}

func prefix(p string, l []string) []string {
	out := make([]string, len(l))
	for i, s := range l {
		out[i] = p + s
	}
	return out
}

// rolledBack returns the blocks of from that are not on to (those a switch from->to undoes).
func rolledBack(from, to []*sim.Block) []*sim.Block {
	on := map[*sim.Block]bool{}
	for _, b := range to {
		on[b] = true
	}
	var out []*sim.Block
	for _, b := range from {
		if !on[b] {
			out = append(out, b)
		}
	}
	return out
}
