// C01 second layer — blocks the node assembles from its own mempool never violate the Qi
// ledger rules. Generated histories on a real prime+region+zone hierarchy whose pool is fed
// valid, conflicting (two spends of one output) and otherwise adversarial Qi traffic; after
// every step an independent UTXO ledger is rebuilt from the canonical chain:
//   - outputs enter only through a Qi transaction's local outputs or a mint event (an executed
//     inbound ETX: coinbase, conversion, refund, cross-zone Qi output), leave only by being
//     spent or trimmed;
//   - every input of every Qi transaction in a canonical block names a live output (never one
//     spent earlier in the transaction, block or chain), owned by the address of the supplied
//     key, unlocked at the block height;
//   - consumed value >= local outputs + value carried by the emitted ETXs (the rest is the fee);
//   - the rebuilt ledger equals the scan of the database.
package c01

import (
	"fmt"
	"math/big"
	"strings"
	"testing"

	"github.com/dominant-strategies/go-quai/common"
	"github.com/dominant-strategies/go-quai/core/rawdb"
	"github.com/dominant-strategies/go-quai/core/types"
	"github.com/dominant-strategies/go-quai/crypto"
	"pgregory.net/rapid"

	"verifharness/sim"
	"verifharness/stats"
)

const partSim = "worker-blocks"

type outp struct {
	h common.Hash
	i uint16
}

type simLedgerStats struct {
	qiTxs, spendSameBlockOutput, mints, trims, conflictsSeen int
}

// firstSeen remembers, per case, the attributes (denomination, owner, lock) under which every
// outpoint was first observed - in the UTXO set or in a block's spent / trimmed record. They are
// fixed when the output is created: an output that comes back from an undo record, or a record
// that describes a consumed output, with other attributes is a different (e.g. unlocked) coin.
var firstSeen map[outp][3]string

func sameAsFirstSeen(op outp, den uint8, owner []byte, lock *big.Int, where string) (string, string) {
	l := "0"
	if lock != nil {
		l = lock.String()
	}
	cur := [3]string{fmt.Sprint(den), fmt.Sprintf("%x", owner), l}
	if firstSeen == nil {
		firstSeen = map[outp][3]string{}
	}
	if prev, ok := firstSeen[op]; ok {
		if prev != cur {
			return "outpoint-attributes-changed", fmt.Sprintf("output %x:%d was first seen as (denomination %s, owner %s, lock %s); %s describes it as (denomination %s, owner %s, lock %s)", op.h[:6], op.i, prev[0], prev[1], prev[2], where, cur[0], cur[1], cur[2])
		}
		return "", ""
	}
	firstSeen[op] = cur
	return "", ""
}

func lockU64(l *big.Int) uint64 {
	if l == nil {
		return 0
	}
	return l.Uint64()
}

func rebuildLedger(n *sim.Net) (fp, msg string, st simLedgerStats) {
	zone := n.Nodes[sim.Zone]
	hc := zone.Core.Slice().HeaderChain()
	head := zone.Core.CurrentHeader()
	var rev []*types.WorkObject
	cur := zone.Core.GetBlockByHash(head.Hash())
	for cur != nil && !hc.IsGenesisHash(cur.Hash()) {
		rev = append(rev, cur)
		cur = zone.Core.GetBlockByHash(cur.ParentHash(sim.Zone))
	}
	if cur == nil {
		return "chain-broken", "canonical chain broken", st
	}
	type rec struct {
		den   uint8
		owner []byte
		lock  uint64
	}
	live := map[outp]rec{}
	everSpent := map[outp]uint64{}
	// the final database content tells which outputs an executed ETX minted (their key is the ETX
	// hash, or the originating tx hash + index for a cross-zone Qi output); spent or trimmed mints
	// are recovered from the blocks' own undo records
	for bi := len(rev) - 1; bi >= 0; bi-- {
		b := rev[bi]
		num := b.NumberU64(sim.Zone)
		createdKeys, _ := rawdb.ReadCreatedUTXOKeys(zone.DB, b.Hash())
		createdByTx := map[common.Hash]bool{}
		for _, tx := range b.Transactions() {
			if tx.Type() == types.QiTxType {
				createdByTx[tx.Hash()] = true
			}
		}
		spentRecs, _ := rawdb.ReadSpentUTXOs(zone.DB, b.Hash())
		spentBy := map[outp]*types.SpentUtxoEntry{}
		for _, s := range spentRecs {
			spentBy[outp{s.TxHash, s.Index}] = s
		}
		blockSpent := map[outp]bool{}
		for _, tx := range b.Transactions() {
			if tx.Type() != types.QiTxType {
				continue
			}
			st.qiTxs++
			in := new(big.Int)
			txSpent := map[outp]bool{}
			for _, ti := range tx.TxIn() {
				op := outp{ti.PreviousOutPoint.TxHash, ti.PreviousOutPoint.Index}
				if txSpent[op] {
					return "double-spend/same-tx", fmt.Sprintf("block #%d tx %x names outpoint %x:%d twice", num, tx.Hash().Bytes()[:6], op.h[:6], op.i), st
				}
				if blockSpent[op] {
					return "double-spend/same-block", fmt.Sprintf("block #%d spends outpoint %x:%d in two transactions", num, op.h[:6], op.i), st
				}
				if at, ok := everSpent[op]; ok {
					return "double-spend/across-blocks", fmt.Sprintf("block #%d spends outpoint %x:%d already spent in block #%d", num, op.h[:6], op.i, at), st
				}
				r, ok := live[op]
				if !ok {
					return "spend-of-unknown-output", fmt.Sprintf("block #%d tx %x spends %x:%d which is not a live output of the rebuilt ledger", num, tx.Hash().Bytes()[:6], op.h[:6], op.i), st
				}
				addr := crypto.PubkeyBytesToAddress(ti.PubKey, sim.ZoneLoc)
				if !addr.Equal(common.BytesToAddress(r.owner, sim.ZoneLoc)) {
					return "spend-by-non-owner", fmt.Sprintf("block #%d: output %x:%d owned by %x spent with the key of %x", num, op.h[:6], op.i, r.owner, addr.Bytes()), st
				}
				if r.lock > num {
					return "spend-of-locked-output", fmt.Sprintf("block #%d spends %x:%d locked until %d", num, op.h[:6], op.i, r.lock), st
				}
				if createdByTx[op.h] {
					st.spendSameBlockOutput++
				}
				in.Add(in, types.Denominations[r.den])
				txSpent[op], blockSpent[op] = true, true
				everSpent[op] = num
				delete(live, op)
			}
			out := new(big.Int)
			for i, to := range tx.TxOut() {
				out.Add(out, types.Denominations[to.Denomination])
				a := common.BytesToAddress(to.Address, sim.ZoneLoc)
				if a.Location().Equal(sim.ZoneLoc) && a.IsInQiLedgerScope() {
					lock := uint64(0)
					if to.Lock != nil {
						lock = to.Lock.Uint64()
					}
					live[outp{tx.Hash(), uint16(i)}] = rec{to.Denomination, to.Address, lock}
				}
			}
			if out.Cmp(in) > 0 {
				return "value-created", fmt.Sprintf("block #%d tx %x: outputs %v exceed inputs %v", num, tx.Hash().Bytes()[:6], out, in), st
			}
		}
		// mint events: outputs this block created that do not belong to one of its Qi transactions
		for _, k := range createdKeys {
			if len(k) != rawdb.UtxoKeyWithDenominationLength {
				continue
			}
			h, idx, err := rawdb.ReverseUtxoKey(k[:rawdb.UtxoKeyLength])
			if err != nil || createdByTx[h] {
				continue
			}
			st.mints++
			op := outp{h, idx}
			if u := rawdb.GetUTXO(zone.DB, h, idx); u != nil {
				live[op] = rec{u.Denomination, u.Address, lockU64(u.Lock)}
			} else {
				// already gone from the database: it was spent or trimmed by a later block; find its record there
				found := false
				for bj := bi - 1; bj >= 0 && !found; bj-- {
					later := rev[bj]
					sp, _ := rawdb.ReadSpentUTXOs(zone.DB, later.Hash())
					tr, _ := rawdb.ReadTrimmedUTXOs(zone.DB, later.Hash())
					for _, s := range append(sp, tr...) {
						if s.TxHash == h && s.Index == idx {
							live[op] = rec{s.Denomination, s.Address, lockU64(s.Lock)}
							found = true
							break
						}
					}
				}
				if !found {
					return "minted-output-vanished", fmt.Sprintf("block #%d created output %x:%d which is neither in the database nor recorded as spent/trimmed later", num, h[:6], idx), st
				}
			}
		}
		// trimming
		trimmed, _ := rawdb.ReadTrimmedUTXOs(zone.DB, b.Hash())
		for _, tr := range trimmed {
			op := outp{tr.TxHash, tr.Index}
			if _, ok := live[op]; !ok {
				if _, wasSpent := everSpent[op]; wasSpent && stats.IsKnown(sim.FpSpentAndTrimmed) {
					continue
				}
				return "trim-of-unknown-output", fmt.Sprintf("block #%d trims %x:%d which is not live", num, op.h[:6], op.i), st
			}
			st.trims++
			delete(live, op)
		}
		_ = spentBy
	}
	// rebuilt ledger == database
	db := map[outp]rec{}
	for _, u := range sim.ScanUTXOs(zone.DB) {
		if u.Entry == nil {
			return "undecodable-utxo", fmt.Sprintf("%x:%d", u.TxHash, u.Index), st
		}
		db[outp{u.TxHash, u.Index}] = rec{u.Entry.Denomination, u.Entry.Address, lockU64(u.Entry.Lock)}
		if fp, msg := sameAsFirstSeen(outp{u.TxHash, u.Index}, u.Entry.Denomination, u.Entry.Address, u.Entry.Lock, "the UTXO set"); fp != "" {
			return fp, msg, st
		}
	}
	// the undo records of the canonical blocks describe the very outputs they consumed
	for _, b := range rev {
		sp, _ := rawdb.ReadSpentUTXOs(zone.DB, b.Hash())
		tr, _ := rawdb.ReadTrimmedUTXOs(zone.DB, b.Hash())
		for _, s := range append(sp, tr...) {
			if fp, msg := sameAsFirstSeen(outp{s.TxHash, s.Index}, s.Denomination, s.Address, s.Lock, fmt.Sprintf("the spent/trimmed record of block #%d", b.NumberU64(sim.Zone))); fp != "" {
				return fp, msg, st
			}
		}
	}
	for op, r := range live {
		d, ok := db[op]
		if !ok {
			return "ledger-vs-db/missing-in-db", fmt.Sprintf("output %x:%d (den %d) is live by the chain's own transactions but absent from the database", op.h[:6], op.i, r.den), st
		}
		if d.den != r.den || string(d.owner) != string(r.owner) || d.lock != r.lock {
			return "ledger-vs-db/differs", fmt.Sprintf("output %x:%d differs between chain and database", op.h[:6], op.i), st
		}
	}
	for op := range db {
		if _, ok := live[op]; !ok {
			return "ledger-vs-db/extra-in-db", fmt.Sprintf("database holds output %x:%d that no canonical transaction or mint event accounts for (or that was already spent)", op.h[:6], op.i), st
		}
	}
	return "", "", st
}

// checkAssembled applies the ledger rules to a block the worker has just assembled from the pool
// (before sealing), against the UTXO set stored at the head it builds on: every input names an
// output that is stored or was created earlier in this block, is named once in the transaction
// and once in the block, is spent with its owner's key after its lock height, and no transaction's
// outputs are worth more than its inputs.
func checkAssembled(n *sim.Net, full *types.WorkObject) (fp, msg string) {
	zone := n.Nodes[sim.Zone]
	num := full.NumberU64(sim.Zone)
	type rec struct {
		den   uint8
		owner []byte
		lock  uint64
	}
	created := map[outp]rec{}
	blockSpent := map[outp]bool{}
	for _, tx := range full.Transactions() {
		if tx.Type() != types.QiTxType {
			continue
		}
		in, txSpent := new(big.Int), map[outp]bool{}
		for _, ti := range tx.TxIn() {
			op := outp{ti.PreviousOutPoint.TxHash, ti.PreviousOutPoint.Index}
			if txSpent[op] {
				return "assembled/double-spend/same-tx", fmt.Sprintf("the block the worker assembled for height %d contains tx %x naming outpoint %x:%d twice", num, tx.Hash().Bytes()[:6], op.h[:6], op.i)
			}
			if blockSpent[op] {
				return "assembled/double-spend/same-block", fmt.Sprintf("the block the worker assembled for height %d spends outpoint %x:%d in two transactions", num, op.h[:6], op.i)
			}
			r, ok := created[op]
			if !ok {
				u := rawdb.GetUTXO(zone.DB, op.h, op.i)
				if u == nil {
					return "assembled/spend-of-unknown-output", fmt.Sprintf("the block the worker assembled for height %d spends %x:%d which is neither stored nor created earlier in the block", num, op.h[:6], op.i)
				}
				r = rec{u.Denomination, u.Address, u.Lock.Uint64()}
			}
			if addr := crypto.PubkeyBytesToAddress(ti.PubKey, sim.ZoneLoc); !addr.Equal(common.BytesToAddress(r.owner, sim.ZoneLoc)) {
				return "assembled/spend-by-non-owner", fmt.Sprintf("assembled block for height %d: output %x:%d owned by %x spent with the key of %x", num, op.h[:6], op.i, r.owner, addr.Bytes())
			}
			if r.lock > num {
				return "assembled/spend-of-locked-output", fmt.Sprintf("assembled block for height %d spends %x:%d locked until %d", num, op.h[:6], op.i, r.lock)
			}
			in.Add(in, types.Denominations[r.den])
			txSpent[op], blockSpent[op] = true, true
		}
		out := new(big.Int)
		for i, to := range tx.TxOut() {
			out.Add(out, types.Denominations[to.Denomination])
			lock := uint64(0)
			if to.Lock != nil {
				lock = to.Lock.Uint64()
			}
			created[outp{tx.Hash(), uint16(i)}] = rec{to.Denomination, to.Address, lock}
		}
		if out.Cmp(in) > 0 {
			return "assembled/value-created", fmt.Sprintf("assembled block for height %d, tx %x: outputs %v exceed inputs %v", num, tx.Hash().Bytes()[:6], out, in)
		}
	}
	return "", ""
}

func TestC01_WorkerBlocks(t *testing.T) {
	rapid.Check(t, func(t *rapid.T) {
		n, err := sim.NewNet(sim.Options{ZoneBackend: rapid.SampledFrom([]string{"memory", "memory", "leveldb", "pebble"}).Draw(t, "backend")})
		if err != nil {
			t.Fatalf("HARNESS: net: %v", err)
		}
		defer n.Close()
		a := sim.NewActor(n)
		if err := a.Prelude(); err != nil {
			t.Fatalf("HARNESS: prelude: %v", err)
		}
		dump := func() any { return map[string]any{"history": a.Log} }
		var asmFp, asmMsg string
		n.OnPending = func(full *types.WorkObject) {
			if asmFp == "" {
				asmFp, asmMsg = checkAssembled(n, full)
			}
		}
		var agg simLedgerStats
		firstSeen = map[outp][3]string{}
		steps := rapid.IntRange(6, 20).Draw(t, "steps")
		for i := 0; i < steps; i++ {
			if err := a.Adopt(); err != nil {
				t.Fatalf("HARNESS: adopt: %v", err)
			}
			a.QiTraffic(t)
			if rapid.IntRange(0, 2).Draw(t, "other") == 0 {
				a.Traffic(t)
			}
			a.AdversarialTraffic(t)
			_, mineErr := a.MineRandom(t)
			if asmFp != "" {
				stats.Violation(t, partSim, "C01/sim/"+asmFp, fmt.Sprintf("step %d: %s (mining result: %v)", i, asmMsg, mineErr), dump())
				return
			}
			if mineErr != nil {
				t.Fatalf("HARNESS: mine: %v\n%s", mineErr, strings.Join(a.Log, "\n"))
			}
			if err := a.Adopt(); err != nil {
				t.Fatalf("HARNESS: adopt: %v", err)
			}
			fp, msg, st := rebuildLedger(n)
			if fp != "" {
				stats.Violation(t, partSim, "C01/sim/"+fp, fmt.Sprintf("step %d: %s", i, msg), dump())
				return
			}
			agg = st
			// "... and across blocks", on whatever chain is canonical: every few steps the node is
			// taken through a reorganisation. A competing branch is built from the current tip's
			// position, the node first follows branch A (blocks with Qi spends, among them spends of
			// outputs created in the same block), is then switched to branch B; the ledger rebuilt
			// from the now-canonical chain must again equal the database. The history continues on B.
			if rapid.IntRange(0, 3).Draw(t, "reorgEpisode") == 0 {
				B := a.Fork(a.Salt + 1000 + uint64(i))
				forkLog := len(a.Log)
				for k, dA := 0, rapid.IntRange(1, 2).Draw(t, "depthA"); k < dA; k++ {
					if err := a.Adopt(); err != nil {
						t.Fatalf("HARNESS: adopt A: %v", err)
					}
					a.QiTraffic(t)
					var err error
					if rapid.Bool().Draw(t, "chainedA") {
						_, err = a.MineChained(t, a.DrawMineOpts(t, sim.Zone))
					} else {
						_, err = a.MineRandomOrder(t, sim.Zone)
					}
					if err != nil {
						t.Fatalf("HARNESS: mine A: %v\n%s", err, strings.Join(a.Log, "\n"))
					}
				}
				if err := a.Adopt(); err != nil {
					t.Fatalf("HARNESS: adopt A tip: %v", err)
				}
				if fp, msg, _ := rebuildLedger(n); fp != "" {
					stats.Violation(t, partSim, "C01/sim/"+fp, fmt.Sprintf("step %d, branch A: %s", i, msg), dump())
					return
				}
				for k, dB := 0, rapid.IntRange(1, 3).Draw(t, "depthB"); k < dB; k++ {
					if err := B.Adopt(); err != nil {
						t.Fatalf("HARNESS: adopt B: %v", err)
					}
					if k > 0 || rapid.Bool().Draw(t, "trafficB") {
						B.QiTraffic(t)
					}
					if _, err := B.MineRandomOrder(t, sim.Zone); err != nil {
						t.Fatalf("HARNESS: mine B: %v\n%s", err, strings.Join(B.Log, "\n"))
					}
				}
				if err := B.Adopt(); err != nil {
					t.Fatalf("HARNESS: adopt B tip: %v", err)
				}
				own := append([]string{}, B.Log[forkLog:]...)
				B.Log = append(append(append([]string{}, a.Log...), "-- reorganisation: the entries since the fork above are branch A; the node now switches to branch B:"), own...)
				a = B
				stats.Label(partSim, "reorg_episode")
				fp, msg, st := rebuildLedger(n)
				if fp != "" {
					stats.Violation(t, partSim, "C01/sim/after-reorg/"+fp, fmt.Sprintf("step %d, after switching from branch A to branch B: %s", i, msg), dump())
					return
				}
				agg = st
			}
		}
		labels := []string{}
		if agg.spendSameBlockOutput > 0 {
			labels = append(labels, "spend_of_same_block_output")
		}
		if agg.trims > 0 {
			labels = append(labels, "trim")
		}
		if a.Labels["adv_qiconflict"] > 0 {
			labels = append(labels, "conflicting_spends_in_pool")
		}
		if a.Labels["adv_qidupinput"] > 0 {
			labels = append(labels, "outpoint_named_twice_in_pooled_tx")
		}
		if a.Labels["adv_qimerge"] > 0 {
			labels = append(labels, "multi_input_musig2_tx_in_pool")
		}
		stats.Case(partSim, fmt.Sprintf("qi=%d mints=%d trims=%d %s", min(agg.qiTxs, 9), min(agg.mints, 9), min(agg.trims, 5), strings.Join(labels, ",")), agg.qiTxs > 0 && a.Labels["adv_qiconflict"] > 0, labels...)
		if agg.qiTxs > 0 && stats.WantSample(partSim) {
			stats.Sample(partSim, map[string]any{"qi_txs_in_chain": agg.qiTxs, "mint_events": agg.mints, "trimmed": agg.trims, "tail_of_history": a.Log[max(0, len(a.Log)-8):]})
		}
	})
}
