// C01 — Qi ledger: each output spent at most once; no Qi created from nothing; identical on
// every storage engine (DESIGN.md §4 C01, first layer).
//
// A case is a UTXO universe, a block environment and a block of Qi transactions drawn one after
// the other from the reference ledger (qigen.UTXOLedger) with an adversarial mutation layer. The
// block is executed the way StateProcessor.Process executes Qi transactions - one batch,
// SetPending(true), core.ProcessQiTx per transaction with Process's arguments, Process's own
// gas-price rules, abort at the first error, else batch.Write() - on leveldb, pebble, memorydb
// and rawdb.NewTable over memorydb, in lock-step.
package c01

import (
	"fmt"
	"io"
	"math/big"
	"os"
	"sort"
	"strings"
	"testing"

	"github.com/dominant-strategies/go-quai/common"
	"github.com/dominant-strategies/go-quai/consensus/misc"
	"github.com/dominant-strategies/go-quai/core"
	"github.com/dominant-strategies/go-quai/core/rawdb"
	"github.com/dominant-strategies/go-quai/core/types"
	"github.com/dominant-strategies/go-quai/ethdb"
	"github.com/dominant-strategies/go-quai/ethdb/leveldb"
	"github.com/dominant-strategies/go-quai/ethdb/memorydb"
	"github.com/dominant-strategies/go-quai/ethdb/pebble"
	"github.com/dominant-strategies/go-quai/log"
	"github.com/sirupsen/logrus"
	"pgregory.net/rapid"

	"verifharness/qigen"
	"verifharness/stats"
)

const part = "block"

type backend struct {
	name string
	db   ethdb.Database
}

var (
	loc      = common.Location{0, 0}
	backends []*backend
)

func nullLogger() *log.Logger {
	l := logrus.New()
	l.SetOutput(io.Discard)
	l.SetLevel(logrus.PanicLevel)
	return l
}

func openAll(t interface{ Fatalf(string, ...any) }) {
	if backends != nil {
		return
	}
	logger := nullLogger()
	log.Global = logger
	dir, err := os.MkdirTemp("", "c01")
	if err != nil {
		t.Fatalf("HARNESS: tempdir: %v", err)
	}
	ldb, err := leveldb.New(dir+"/ldb", 16, 16, "", false, logger, loc)
	if err != nil {
		t.Fatalf("HARNESS: leveldb open: %v", err)
	}
	pdb, err := pebble.New(dir+"/peb", 16, 16, "", false, logger, loc)
	if err != nil {
		t.Fatalf("HARNESS: pebble open: %v", err)
	}
	backends = []*backend{
		{"leveldb", rawdb.NewDatabase(ldb)},
		{"pebble", rawdb.NewDatabase(pdb)},
		{"memorydb", rawdb.NewDatabase(memorydb.New(logger))},
		{"table", rawdb.NewTable(rawdb.NewMemoryDatabase(logger), "tbl-", loc, logger)},
	}
}

// run is the per-backend state of one block execution (the locals of Process).
type run struct {
	b              *backend
	batch          ethdb.Batch
	gp             *types.GasPool
	usedGas        uint64
	rLimit, pLimit uint64
	ucd            *core.UtxosCreatedDeleted
	added, removed *big.Int
	prevPrice      *big.Int
	firstQiTx      bool
}

// outcome is what one backend observably did with one transaction.
type outcome struct {
	procErr   string // ProcessQiTx error ("" = nil)
	ruleErr   string // one of Process's own gas-price rules refused the block after ProcessQiTx succeeded
	fee       *big.Int
	etxs      []*types.ExternalTx
	receipt   *types.Receipt
	added     *big.Int // supplyAddedQi delta
	removed   *big.Int // supplyRemovedQi delta
	created   []common.Hash
	deleted   []common.Hash
	price     *big.Int
	panicked  string
	gasUsedBy uint64
}

func (o *outcome) accepted() bool { return o.procErr == "" && o.ruleErr == "" && o.panicked == "" }

// exec performs exactly the Qi branch of the transaction loop of StateProcessor.Process.
func (r *run) exec(env *qigen.Env, tc *qigen.TxCase, txIdx int, indexAddr bool) (o *outcome) {
	o = &outcome{}
	addedBefore, removedBefore := new(big.Int).Set(r.added), new(big.Int).Set(r.removed)
	nc, nd := len(r.ucd.UtxosCreatedHashes), len(r.ucd.UtxosDeletedHashes)
	gasBefore := r.usedGas
	defer func() {
		if p := recover(); p != nil {
			o.panicked = fmt.Sprint(p)
		}
	}()
	fee, etxs, receipt, err, _ := core.ProcessQiTx(tc.Tx, env.Chain, tc.CheckSig, r.firstQiTx, env.Header, r.batch, r.b.db, r.gp, &r.usedGas,
		env.Signer, env.Loc, *env.ChainID, env.QiScalingFactor, &r.rLimit, &r.pLimit, r.ucd, r.added, r.removed, indexAddr)
	if err != nil {
		o.procErr = err.Error()
		return o
	}
	r.firstQiTx = false
	o.fee, o.etxs, o.receipt = fee, etxs, receipt
	o.added = new(big.Int).Sub(r.added, addedBefore)
	o.removed = new(big.Int).Sub(r.removed, removedBefore)
	o.created = append([]common.Hash{}, r.ucd.UtxosCreatedHashes[nc:]...)
	o.deleted = append([]common.Hash{}, r.ucd.UtxosDeletedHashes[nd:]...)
	o.gasUsedBy = r.usedGas - gasBefore
	// Process: convert the fee to quai, derive the gas price, enforce the base fee and the
	// non-increasing order of gas prices among non-ETX transactions.
	feeInQuai := misc.QiToQuai(env.Header, env.PrimeTerminus.ExchangeRate(), env.Header.Difficulty(), fee)
	price := new(big.Int).Div(feeInQuai, big.NewInt(int64(types.CalculateBlockQiTxGas(tc.Tx, env.QiScalingFactor, env.Loc))))
	o.price = price
	if price.Cmp(env.Header.BaseFee()) < 0 {
		o.ruleErr = "qi tx has base fee less than min base fee"
		return o
	}
	if txIdx > 0 && price.Cmp(r.prevPrice) > 0 {
		o.ruleErr = "tx has gas price less then previous transaction"
		return o
	}
	r.prevPrice = new(big.Int).Set(price)
	return o
}

func hashesKey(h []common.Hash) string {
	s := make([]string, len(h))
	for i := range h {
		s[i] = h[i].Hex()
	}
	sort.Strings(s)
	return strings.Join(s, ",")
}

func etxKey(e *types.ExternalTx) string {
	to := "nil"
	if e.To != nil {
		to = fmt.Sprintf("%x", e.To.Bytes())
	}
	return fmt.Sprintf("type=%d to=%s value=%s idx=%d origin=%s gas=%d data=%x sender=%x", e.EtxType, to, e.Value, e.ETXIndex, e.OriginatingTxHash.Hex(), e.Gas, e.Data, e.Sender.Bytes())
}

func etxsKey(es []*types.ExternalTx) string {
	s := make([]string, len(es))
	for i, e := range es {
		s[i] = etxKey(e)
	}
	return strings.Join(s, " | ")
}

// scan reads the whole 'ut' prefix of a backend.
func scan(t *rapid.T, b *backend) []qigen.Item {
	it := b.db.NewIterator(rawdb.UtxoPrefix, nil)
	var keys [][]byte
	for it.Next() {
		keys = append(keys, append([]byte{}, it.Key()...))
	}
	err := it.Error()
	it.Release()
	if err != nil {
		t.Fatalf("HARNESS: iterator on %s: %v", b.name, err)
	}
	var out []qigen.Item
	for _, k := range keys {
		h, idx, err := rawdb.ReverseUtxoKey(k)
		if err != nil {
			t.Fatalf("HARNESS: foreign key %x under the utxo prefix of %s", k, b.name)
		}
		u := rawdb.GetUTXO(b.db, h, idx)
		if u == nil {
			t.Fatalf("HARNESS: key %x listed but unreadable on %s", k, b.name)
		}
		out = append(out, qigen.Item{OutPoint: types.OutPoint{TxHash: h, Index: idx}, Entry: qigen.Entry{Denomination: u.Denomination, Address: u.Address, Lock: u.Lock}})
	}
	return out
}

func wipe(t *rapid.T, b *backend) {
	it := b.db.NewIterator(rawdb.UtxoPrefix, nil)
	var keys [][]byte
	for it.Next() {
		keys = append(keys, append([]byte{}, it.Key()...))
	}
	it.Release()
	if len(keys) == 0 {
		return
	}
	batch := b.db.NewBatch()
	for _, k := range keys {
		if err := batch.Delete(k); err != nil {
			t.Fatalf("HARNESS: cleanup on %s: %v", b.name, err)
		}
	}
	if err := batch.Write(); err != nil {
		t.Fatalf("HARNESS: cleanup on %s: %v", b.name, err)
	}
}

func itemsDiff(got, want []qigen.Item) string {
	gm := map[types.OutPoint]qigen.Entry{}
	for _, g := range got {
		gm[g.OutPoint] = g.Entry
	}
	var diffs []string
	for _, w := range want {
		g, ok := gm[w.OutPoint]
		if !ok {
			diffs = append(diffs, fmt.Sprintf("missing %s:%d %s", w.OutPoint.TxHash.Hex()[:14], w.OutPoint.Index, w.Entry))
		} else if !g.Equal(w.Entry) {
			diffs = append(diffs, fmt.Sprintf("differs %s:%d have %s want %s", w.OutPoint.TxHash.Hex()[:14], w.OutPoint.Index, g, w.Entry))
		}
		delete(gm, w.OutPoint)
	}
	var extra []string
	for op, e := range gm {
		extra = append(extra, fmt.Sprintf("extra %s:%d %s", op.TxHash.Hex()[:14], op.Index, e))
	}
	sort.Strings(extra)
	diffs = append(diffs, extra...)
	if len(got) != len(want) && len(diffs) == 0 {
		diffs = append(diffs, fmt.Sprintf("duplicate keys: %d items scanned, %d expected", len(got), len(want)))
	}
	return strings.Join(diffs, "; ")
}

var rejectClasses = []struct{ sub, class string }{
	{"non-existent UTXO", "nonexistent"}, {"locked UTXO", "locked"}, {"owned by Quai address", "quai-owned"}, {"invalid pubkey", "non-owner"},
	{"higher than max allowed", "denomination"}, {"non-zero lock", "output-lock"}, {"Duplicate address", "address-reuse"},
	{"multiple convert UTXOs", "convert-multi"}, {"not in the Qi ledger scope", "quai-destination"}, {"not in quai ledger scope", "wrap-owner"},
	{"refund address not in Qi", "refund-scope"}, {"not eligible", "ineligible-zone"}, {"too many cross", "etx-limit"},
	{"less than the amount", "overspend"}, {"insufficient fee", "fee-floor"}, {"kquai hold interval", "conversion-hold"},
	{"combine smaller denominations", "merge"}, {"invalid signature", "signature"}, {"invalid chain ID", "chain-id"},
	{"at least one input", "no-inputs"}, {"not equal to either address length", "data-length"}, {"gas limit reached", "gas-pool"},
	{"uses too much gas", "gas-limit"}, {"base fee less than min", "process-min-price"}, {"gas price less then previous", "process-price-order"},
	{"expected Quai address", "wrap-owner"},
}

func rejectClass(msg string) string {
	for _, rc := range rejectClasses {
		if strings.Contains(msg, rc.sub) {
			return rc.class
		}
	}
	return "other"
}

func TestC01_Block(t *testing.T) {
	openAll(t)
	rapid.Check(t, func(t *rapid.T) {
		env := qigen.GenEnv(t, loc)
		universe := qigen.GenUniverse(t, env)
		indexAddr := rapid.Bool().Draw(t, "indexAddressUtxos")
		nBlocks := 1 + qigen.Uniform(t, stats.Scale(2, 3), "nBlocks")
		orderedFees := qigen.Chance(t, 85, "orderedFees")

		var history []string
		history = append(history, "env: "+env.String())
		for _, it := range universe.Items() {
			owner := "?"
			if k := env.Pool.ByAddr(it.Entry.Address); k != nil {
				owner = k.Name
			}
			history = append(history, fmt.Sprintf("utxo %s:%d %s owner=%s", it.OutPoint.TxHash.Hex()[:14], it.OutPoint.Index, it.Entry, owner))
		}
		dump := func() any { return map[string]any{"history": history} }
		// violation reports; returns true when the finding is a listed known one (then the case stops)
		stop := false
		fail := func(fp, msg string) {
			stats.Violation(t, part, fp, msg, dump())
			stop = true
		}

		// ---- seed every backend with the universe (direct writes, as earlier blocks would have left it)
		for _, b := range backends {
			if left := scan(t, b); len(left) != 0 {
				t.Fatalf("HARNESS: backend %s not empty at case start (%d items)", b.name, len(left))
			}
			seed := b.db.NewBatch() // plain batch, no pending tracking: the state earlier blocks left behind
			for _, it := range universe.Items() {
				if err := rawdb.CreateUTXO(seed, it.OutPoint.TxHash, it.OutPoint.Index, it.Entry.ToUtxoEntry()); err != nil {
					t.Fatalf("HARNESS: seeding %s: %v", b.name, err)
				}
			}
			if err := seed.Write(); err != nil {
				t.Fatalf("HARNESS: seeding %s: %v", b.name, err)
			}
		}
		defer func() {
			for _, b := range backends {
				wipe(t, b)
			}
		}()

		labels := map[string]bool{"regime:" + env.Regime.Name: true}
		if indexAddr {
			labels["index_address_utxos"] = true
		}
		if orderedFees {
			labels["ordered_fees"] = true
		}
		var shapes []string
		accepted, totalAccepted, adversarial := 0, 0, false

		runBlock := func(blk int) {
			// ---- Process: NewBatch, SetPending(true), gas pool, ETX limits, per-block accumulators
			runs := make([]*run, len(backends))
			for i, b := range backends {
				r := &run{b: b, batch: b.db.NewBatch(), gp: new(types.GasPool).AddGas(env.GasLimit), ucd: new(core.UtxosCreatedDeleted),
					added: new(big.Int), removed: new(big.Int), firstQiTx: true}
				r.batch.SetPending(true)
				r.rLimit, r.pLimit = env.EtxLimits()
				if indexAddr {
					r.ucd.AddressOutpointsToAddMap = make(map[[20]byte][]*types.OutpointAndDenomination)
					r.ucd.AddressOutpointsToRemoveMap = make(map[[20]byte][]*types.OutPoint)
				}
				runs[i] = r
			}

			model := universe.Clone()
			model.BeginBlock() // what earlier blocks of this case spent stays known as "spent in an earlier block"
			height := new(big.Int).SetUint64(env.Height)
			nPlanned := 1 + qigen.Uniform(t, stats.Scale(6, 8), "blockLen")
			fs := &qigen.BlockFeeState{Ordered: orderedFees}
			history = append(history, fmt.Sprintf("---- block %d at height %d, %d transactions planned", blk, env.Height, nPlanned))

			aborted := false
			acceptedHere := 0

			for txIdx := 0; txIdx < nPlanned && !stop; txIdx++ {
				pct := 25
				if txIdx == nPlanned-1 {
					pct = 55
				} else if blk > 0 && txIdx == 0 {
					pct = 45 // a later block: re-spends of what earlier blocks consumed are tried early
				}
				tc := qigen.GenTx(t, env, model, txIdx, fs, pct)
				history = append(history, fmt.Sprintf("#%d %s", txIdx, tc.Desc))
				ef := model.Evaluate(tc.Tx, qigen.TxContext{Loc: env.Loc, Height: height, CheckSig: tc.CheckSig, SigValid: tc.SigValid, WrapKeepsLocal: env.WrapKeepsLocal()})
				for _, m := range tc.Mutations {
					labels["mut:"+m] = true
					adversarial = true
				}
				for _, f := range tc.Features {
					labels["feat:"+f] = true
				}
				if !tc.CheckSig {
					labels["checksig_false_tx"] = true
				}
				for _, r := range ef.Reasons {
					labels["model_forbids:"+r] = true
					adversarial = true
				}
				for _, in := range tc.Tx.TxIn() {
					if model.CreatedInBlock(in.PreviousOutPoint) {
						if _, live := model.Get(in.PreviousOutPoint); live {
							labels["spend_same_block_output"] = true
						}
					}
				}
				if contains(ef.Reasons, qigen.RDupInTx) {
					labels["same_tx_dup"] = true
				}
				if contains(ef.Reasons, qigen.RSpentInBlock) {
					labels["cross_tx_respend"] = true
				}
				if contains(ef.Reasons, qigen.RSpentEarlier) {
					labels["cross_block_respend"] = true
				}

				outs := make([]*outcome, len(runs))
				for i, r := range runs {
					outs[i] = r.exec(env, tc, txIdx, indexAddr)
					o := outs[i]
					verdict := "accepted"
					if o.panicked != "" {
						verdict = "PANIC " + o.panicked
					} else if o.procErr != "" {
						verdict = "rejected: " + o.procErr
					} else if o.ruleErr != "" {
						verdict = "rejected by Process: " + o.ruleErr
					}
					if i == 0 {
						history = append(history, fmt.Sprintf("   model: forbids=%v in=%s out=%s", ef.Reasons, ef.InValue, ef.OutValue))
					}
					history = append(history, fmt.Sprintf("   %-8s %s fee=%v etxs=%d", r.b.name, verdict, o.fee, len(o.etxs)))
				}

				// ---- per-backend oracles
				for i, r := range runs {
					o := outs[i]
					name := r.b.name
					if o.panicked != "" {
						fail("C01/panic/"+name, fmt.Sprintf("tx %d: ProcessQiTx panicked on %s: %s", txIdx, name, o.panicked))
						continue
					}
					if !o.accepted() {
						continue
					}
					// (1) safety against the model
					if len(ef.Reasons) > 0 {
						fail("C01/accept/"+ef.Reasons[0]+"/"+name, fmt.Sprintf("tx %d accepted on %s although the ledger model forbids it: %v\n%s", txIdx, name, ef.Reasons, tc.Desc))
						continue
					}
					// value identity: consumed = created locally + carried away by ETXs + fee
					if o.fee == nil || o.fee.Sign() < 0 {
						fail("C01/value/negative-fee/"+name, fmt.Sprintf("tx %d on %s: fee %v", txIdx, name, o.fee))
						continue
					}
					carried := new(big.Int)
					for _, e := range o.etxs {
						switch e.EtxType {
						case types.DefaultType:
							if e.Value == nil || !e.Value.IsUint64() || e.Value.Uint64() > qigen.MaxDenomination {
								fail("C01/value/etx-denomination/"+name, fmt.Sprintf("tx %d on %s: cross-zone ETX with denomination %v", txIdx, name, e.Value))
								continue
							}
							v, _ := qigen.DenomValue(uint8(e.Value.Uint64()))
							carried.Add(carried, v)
						case types.ConversionType:
							carried.Add(carried, e.Value)
						case types.WrappingQiType:
							if !env.WrapKeepsLocal() {
								carried.Add(carried, e.Value)
							}
						default:
							fail("C01/value/etx-type/"+name, fmt.Sprintf("tx %d on %s: unexpected ETX type %d", txIdx, name, e.EtxType))
						}
					}
					if o.removed.Cmp(ef.InValue) != 0 {
						fail("C01/value/consumed/"+name, fmt.Sprintf("tx %d on %s: supplyRemovedQi grew by %s but the inputs are worth %s", txIdx, name, o.removed, ef.InValue))
					}
					sum := new(big.Int).Add(o.added, carried)
					sum.Add(sum, o.fee)
					if sum.Cmp(ef.InValue) != 0 {
						fail("C01/value/identity/"+name, fmt.Sprintf("tx %d on %s: consumed %s != created locally %s + carried by ETXs %s + fee %s", txIdx, name, ef.InValue, o.added, carried, o.fee))
					}
					// (2) what the transaction did, against the model
					var wantCreated, wantDeleted []common.Hash
					createdValue := new(big.Int)
					for _, c := range ef.Creates {
						wantCreated = append(wantCreated, types.UTXOHash(c.OutPoint.TxHash, c.OutPoint.Index, c.Entry.ToUtxoEntry()))
						v, _ := qigen.DenomValue(c.Entry.Denomination)
						createdValue.Add(createdValue, v)
					}
					for _, s := range ef.Spends {
						wantDeleted = append(wantDeleted, types.UTXOHash(s.OutPoint.TxHash, s.OutPoint.Index, s.Entry.ToUtxoEntry()))
					}
					if hashesKey(o.created) != hashesKey(wantCreated) {
						fail("C01/delta/created/"+name, fmt.Sprintf("tx %d on %s: created-output hashes differ from the model: have %d want %d", txIdx, name, len(o.created), len(wantCreated)))
					}
					if hashesKey(o.deleted) != hashesKey(wantDeleted) {
						fail("C01/delta/deleted/"+name, fmt.Sprintf("tx %d on %s: deleted-output hashes differ from the model: have %d want %d", txIdx, name, len(o.deleted), len(wantDeleted)))
					}
					if o.added.Cmp(createdValue) != 0 {
						fail("C01/delta/supply-added/"+name, fmt.Sprintf("tx %d on %s: supplyAddedQi grew by %s, model creates %s", txIdx, name, o.added, createdValue))
					}
					// ETXs: one per cross-zone output with its denomination, one aggregate for conversion / wrap
					var wantEtx []string
					for _, idx := range ef.CrossZone {
						out := tc.Tx.TxOut()[idx]
						wantEtx = append(wantEtx, fmt.Sprintf("type=%d to=%x value=%d idx=%d", types.DefaultType, out.Address, out.Denomination, idx))
					}
					if ef.HasAgg {
						ty := types.ConversionType
						if ef.AggKind == qigen.OutWrap {
							ty = types.WrappingQiType
						}
						wantEtx = append(wantEtx, fmt.Sprintf("type=%d to=%x value=%s idx=%d", ty, ef.AggTo, ef.AggValue, 0))
					}
					var haveEtx []string
					for _, e := range o.etxs {
						to := []byte{}
						if e.To != nil {
							to = e.To.Bytes()
						}
						haveEtx = append(haveEtx, fmt.Sprintf("type=%d to=%x value=%s idx=%d", e.EtxType, to, e.Value, e.ETXIndex))
						if e.OriginatingTxHash != tc.Tx.Hash() {
							fail("C01/delta/etx-origin/"+name, fmt.Sprintf("tx %d on %s: ETX with foreign originating hash", txIdx, name))
						}
					}
					if strings.Join(haveEtx, ";") != strings.Join(wantEtx, ";") {
						fail("C01/delta/etxs/"+name, fmt.Sprintf("tx %d on %s: emitted ETXs differ from the model:\n have %v\n want %v", txIdx, name, haveEtx, wantEtx))
					}
					if o.receipt == nil || o.receipt.TxHash != tc.Tx.Hash() || o.receipt.Status != types.ReceiptStatusSuccessful {
						fail("C01/delta/receipt/"+name, fmt.Sprintf("tx %d on %s: receipt %+v", txIdx, name, o.receipt))
					}
				}
				if stop {
					break
				}
				// (3) backend differential
				ref := outs[0]
				for i := 1; i < len(outs); i++ {
					o, name := outs[i], runs[i].b.name
					if o.accepted() != ref.accepted() {
						fail("C01/diff/verdict/"+name, fmt.Sprintf("tx %d: %s says %q/%q, %s says %q/%q", txIdx, runs[0].b.name, ref.procErr, ref.ruleErr, name, o.procErr, o.ruleErr))
						continue
					}
					if (o.procErr == "") != (ref.procErr == "") || (o.ruleErr == "") != (ref.ruleErr == "") {
						fail("C01/diff/stage/"+name, fmt.Sprintf("tx %d: rejected at different stages: %q/%q vs %q/%q", txIdx, ref.procErr, ref.ruleErr, o.procErr, o.ruleErr))
						continue
					}
					if o.procErr != "" {
						continue
					}
					if o.fee.Cmp(ref.fee) != 0 {
						fail("C01/diff/fee/"+name, fmt.Sprintf("tx %d: fee %s vs %s", txIdx, o.fee, ref.fee))
					}
					if etxsKey(o.etxs) != etxsKey(ref.etxs) {
						fail("C01/diff/etxs/"+name, fmt.Sprintf("tx %d: ETXs differ:\n %s\n %s", txIdx, etxsKey(o.etxs), etxsKey(ref.etxs)))
					}
					if o.receipt.GasUsed != ref.receipt.GasUsed || o.receipt.Status != ref.receipt.Status || o.receipt.TxHash != ref.receipt.TxHash || o.receipt.Type != ref.receipt.Type {
						fail("C01/diff/receipt/"+name, fmt.Sprintf("tx %d: receipts differ: %+v vs %+v", txIdx, o.receipt, ref.receipt))
					}
					if hashesKey(o.created) != hashesKey(ref.created) || hashesKey(o.deleted) != hashesKey(ref.deleted) || o.added.Cmp(ref.added) != 0 || o.removed.Cmp(ref.removed) != 0 {
						fail("C01/diff/delta/"+name, fmt.Sprintf("tx %d: created/deleted/supply deltas differ from %s", txIdx, runs[0].b.name))
					}
					if runs[i].usedGas != runs[0].usedGas || runs[i].gp.Gas() != runs[0].gp.Gas() || runs[i].rLimit != runs[0].rLimit || runs[i].pLimit != runs[0].pLimit {
						fail("C01/diff/gas/"+name, fmt.Sprintf("tx %d: gas accounting differs from %s", txIdx, runs[0].b.name))
					}
				}
				if stop {
					break
				}

				verdict := "A"
				if !ref.accepted() {
					verdict = "R:" + rejectClass(ref.procErr+ref.ruleErr)
					labels["reject:"+rejectClass(ref.procErr+ref.ruleErr)] = true
					if len(ef.Reasons) > 0 {
						labels["forbidden_rejected"] = true
					} else if len(tc.Mutations) == 0 || (len(tc.Mutations) == 1 && tc.Mutations[0] == qigen.MSameBlock) {
						if !fs.Ordered {
							labels["clean_rejected_unordered_block"] = true
						}
						if os.Getenv("C01_DEBUG") == rejectClass(ref.procErr+ref.ruleErr) && fs.Ordered {
							fmt.Println("==== clean rejected:", ref.procErr, ref.ruleErr, "price", ref.price, "prev", fs.PrevPrice, "\n"+strings.Join(history, "\n"))
						}
						labels["clean_rejected"] = true
						labels["clean_rejected:"+rejectClass(ref.procErr+ref.ruleErr)] = true
					} else {
						labels["policy_rejected"] = true
					}
				}
				shapes = append(shapes, tc.Shape()+"="+verdict)
				if !ref.accepted() {
					aborted = true // a block containing a rejected transaction is invalid: nothing is written
					break
				}
				acceptedHere++
				for _, f := range tc.Features {
					labels["accepted_feat:"+f] = true
				}
				for _, m := range tc.Mutations {
					labels["accepted_mut:"+m] = true
				}
				if len(ref.etxs) > 0 {
					labels["accepted_with_etxs"] = true
				}
				if !tc.CheckSig {
					labels["accepted_checksig_false"] = true
				}
				model.Apply(ef, txIdx)
				fs.PrevPrice = ref.price
			}
			if stop {
				return
			}

			// ---- end of block: write, or drop the batch
			want := model
			if aborted {
				want = universe
				labels["block_aborted"] = true
			} else {
				labels["block_written"] = true
				for _, r := range runs {
					if err := r.batch.Write(); err != nil {
						t.Fatalf("HARNESS: batch write on %s: %v", r.b.name, err)
					}
				}
			}
			wantItems := want.Items()
			var refScan []qigen.Item
			for i, r := range runs {
				got := scan(t, r.b)
				if d := itemsDiff(got, wantItems); d != "" {
					what := "written"
					if aborted {
						what = "aborted"
					}
					fail("C01/state/"+what+"/"+r.b.name, fmt.Sprintf("utxo set of %s after the %s block differs from the model: %s", r.b.name, what, d))
				}
				if i == 0 {
					refScan = got
				} else if d := itemsDiff(got, refScan); d != "" {
					fail("C01/diff/state/"+r.b.name, fmt.Sprintf("utxo set of %s differs from %s: %s", r.b.name, runs[0].b.name, d))
				}
				if !aborted {
					// block-level supply delta
					delta := new(big.Int).Sub(r.added, r.removed)
					md := new(big.Int)
					for _, c := range model.Created {
						v, _ := qigen.DenomValue(c.Entry.Denomination)
						md.Add(md, v)
					}
					for _, s := range model.Spent {
						v, _ := qigen.DenomValue(s.Entry.Denomination)
						md.Sub(md, v)
					}
					if delta.Cmp(md) != 0 {
						fail("C01/state/supply-delta/"+r.b.name, fmt.Sprintf("supplyAddedQi-supplyRemovedQi = %s on %s, model %s", delta, r.b.name, md))
					}
				}
			}
			if stop {
				return
			}
			if acceptedHere > accepted {
				accepted = acceptedHere
			}
			totalAccepted += acceptedHere
			shapes = append(shapes, "|")
			if !aborted {
				universe = model // the next block starts from what this one left in the databases
			}
		}
		for blk := 0; blk < nBlocks && !stop; blk++ {
			if blk > 0 {
				env.AdvanceBlock()
				labels["multi_block"] = true
			}
			runBlock(blk)
		}
		if stop {
			stats.Case(part, "known-finding", false, "stopped_on_known_finding")
			return
		}

		labels[fmt.Sprintf("accepted_%d", accepted)] = true
		if accepted >= 2 {
			labels["accepted_2plus"] = true
		}
		nontrivial := totalAccepted >= 1 && adversarial
		var ll []string
		for l := range labels {
			ll = append(ll, l)
		}
		sort.Strings(ll)
		stats.Case(part, strings.Join(shapes, " ; "), nontrivial, ll...)
		if nontrivial && stats.WantSample(part) {
			stats.Sample(part, history)
		}
	})
}

func contains(s []string, x string) bool {
	for _, y := range s {
		if y == x {
			return true
		}
	}
	return false
}
