package c15

import (
	"bytes"
	"context"
	"testing"

	"github.com/dominant-strategies/go-quai/core/types"
	pubsub "github.com/libp2p/go-libp2p-pubsub"
	pubsubpb "github.com/libp2p/go-libp2p-pubsub/pb"
	"github.com/libp2p/go-libp2p/core/peer"
	"google.golang.org/protobuf/proto"
	"pgregory.net/rapid"

	"verifharness/gen"
	"verifharness/stats"
)

// Native fuzz targets (thorough tier): coverage-guided mutation of the same entry points with the
// same oracle. Seeds: valid encodings from the shared generators plus the hostile constants.
// A crash whose fingerprint is a listed known finding is counted and the fuzzer continues.

const nFuzzSeeds = 24

func seedExamples(mk func(t *rapid.T) []byte) [][]byte {
	g := rapid.Custom(mk)
	var out [][]byte
	for i := 0; i < nFuzzSeeds; i++ {
		out = append(out, g.Example(i))
	}
	return out
}

func familySeeds(names ...string) [][]byte {
	var out [][]byte
	for _, f := range families() {
		f := f
		for _, n := range names {
			if f.name != n {
				continue
			}
			out = append(out, seedExamples(func(t *rapid.T) []byte {
				m := f.seed(t, nil)
				if f.wrap != nil {
					m = f.wrap(m)
				}
				b, _ := proto.Marshal(m)
				return b
			})...)
		}
	}
	return out
}

func fuzzEntries(f *testing.F, part string, ents []entry, seeds [][]byte, extra ...[]byte) {
	for _, s := range append(seeds, extra...) {
		f.Add(s)
	}
	for _, h := range hostileFragments {
		f.Add(h)
	}
	f.Fuzz(func(t *testing.T, data []byte) {
		deepPoke = false
		data = exact(data)
		for _, e := range ents {
			p := &probe{part: part, entry: e.name, input: data, note: "fuzz"}
			stage := 0
			p.run(t, func() { stage = e.run(data) })
			lbl := stageLabel[stage]
			if lastCrash != nil {
				lbl = "crashed"
			}
			stats.Case(part, e.name+"|"+lbl, stage >= 1, "entry:"+e.name, lbl)
		}
	})
}

func pick(m map[string]entry, names ...string) []entry {
	var out []entry
	for _, n := range names {
		e, ok := m[n]
		if !ok {
			panic("HARNESS: no entry " + n)
		}
		out = append(out, e)
	}
	return out
}

func FuzzC15A_WorkObject(f *testing.F) {
	fuzzEntries(f, "fuzz_wo", pick(pureProtoEntries(), "pb.UnmarshalAndConvert/BlockView", "pb.UnmarshalAndConvert/HeaderView", "pb.UnmarshalAndConvert/ShareView"),
		familySeeds("wo/block", "wo/share", "wo/petx"))
}

func FuzzC15A_WorkObjectRaw(f *testing.F) {
	var seeds [][]byte
	for _, fam := range families() {
		fam := fam
		if fam.name == "wo/petx" || fam.name == "wo/block" {
			seeds = append(seeds, seedExamples(func(t *rapid.T) []byte { b, _ := proto.Marshal(fam.seed(t, nil)); return b })...)
		}
	}
	fuzzEntries(f, "fuzz_woraw", pick(pureProtoEntries(), "WorkObject.ProtoDecode/PEtx", "WorkObject.ProtoDecode/WorkShare", "WorkObjectHeader.ProtoDecode", "Header.ProtoDecode"), seeds, familySeeds("woheader", "header")...)
}

func FuzzC15A_Transaction(f *testing.F) {
	fuzzEntries(f, "fuzz_tx", pick(pureProtoEntries(), "Transaction.ProtoDecode"), familySeeds("tx"))
}

func FuzzC15A_AuxPow(f *testing.F) {
	fuzzEntries(f, "fuzz_auxpow", pick(pureProtoEntries(), "AuxPow.ProtoDecode", "AuxTemplate.ProtoDecode", "pb.UnmarshalAndConvert/AuxTemplate"), familySeeds("auxpow", "auxtemplate"))
}

func FuzzC15A_QuaiMessage(f *testing.F) {
	fuzzEntries(f, "fuzz_quaimsg", pick(pureProtoEntries(), "pb.DecodeQuaiMessage"), familySeeds("quaimsg/request", "quaimsg/response"))
}

func FuzzC15A_RLP(f *testing.F) {
	ents := rlpEntries()
	var all []entry
	for _, n := range sortedEntryNames(ents) {
		all = append(all, ents[n])
	}
	var seeds [][]byte
	for _, s := range rlpSeeds() {
		s := s
		seeds = append(seeds, seedExamples(func(t *rapid.T) []byte { return s.mk(t, nil) })[:8]...)
	}
	fuzzEntries(f, "fuzz_rlp", all, seeds, append(bytes.Repeat([]byte{0xc1}, 3000), 0xc0), []byte{0xbf, 0xff, 0xff, 0xff, 0xff, 0xff, 0xff, 0xff, 0xff})
}

func FuzzC15A_Coinbase(f *testing.F) {
	ents := donorEntries()
	var all []entry
	for _, n := range sortedEntryNames(ents) {
		all = append(all, ents[n])
	}
	seeds := seedExamples(func(t *rapid.T) []byte { return gen.CoinbaseTx(t, "cb", gen.PowID(t, "pow")) })
	seeds = append(seeds, seedExamples(func(t *rapid.T) []byte { return gen.DonorHeader(t, "h", gen.PowID(t, "pow")).Bytes() })...)
	fuzzEntries(f, "fuzz_coinbase", all, seeds)
}

// FuzzC15A_JSON: the first byte selects the target, the rest is the document.
func FuzzC15A_JSON(f *testing.F) {
	targets := jsonTargets()
	idx := map[string]int{}
	for i, tg := range targets {
		idx[tg.name] = i
	}
	for _, s := range jsonSeeds() {
		s := s
		for _, doc := range seedExamples(func(t *rapid.T) []byte { return s.mk(t, nil) })[:6] {
			for _, name := range s.targets {
				f.Add(append([]byte{byte(idx[name])}, doc...))
			}
		}
	}
	for i := range targets {
		for _, hv := range hostileJSONValues {
			f.Add(append([]byte{byte(i)}, hv...))
		}
	}
	f.Fuzz(func(t *testing.T, data []byte) {
		if len(data) == 0 {
			return
		}
		deepPoke = false
		tg := targets[int(data[0])%len(targets)]
		doc := data[1:]
		p := &probe{part: "fuzz_json", entry: tg.name, input: doc, note: "fuzz", extra: map[string]any{"input_text": clip(string(doc), 4000)}}
		stage := 0
		p.run(t, func() { stage = tg.run(doc) })
		lbl := stageLabel[stage]
		if lastCrash != nil {
			lbl = "crashed"
		}
		stats.Case("fuzz_json", tg.name+"|"+lbl, stage == 2, "entry:"+tg.name, lbl)
	})
}

// FuzzC15A_Gossip: the real validator on the live node; the first byte selects the topic.
func FuzzC15A_Gossip(f *testing.F) {
	for i, s := range familySeeds("wo/block", "wo/share") {
		f.Add(append([]byte{byte(i % 3)}, s...))
	}
	for _, s := range familySeeds("auxtemplate") {
		f.Add(append([]byte{3}, s...))
	}
	// easy work objects in each view
	for _, s := range seedExamples(func(t *rapid.T) []byte {
		wo := easyWo(t, genWo(t, nil))
		view := rapid.IntRange(0, 2).Draw(t, "view")
		var p *types.ProtoWorkObject
		switch view {
		case 0:
			p, _ = wo.ProtoEncode(types.BlockObject)
		case 1:
			p, _ = wo.ConvertToHeaderView().WorkObject.ProtoEncode(types.HeaderObject)
		default:
			p, _ = wo.ConvertToWorkObjectShareView(wo.Transactions()).WorkObject.ProtoEncode(types.WorkShareTxObject)
		}
		b, _ := proto.Marshal(&types.ProtoWorkObjectBlockView{WorkObject: p})
		return append([]byte{byte(view)}, b...)
	}) {
		f.Add(s)
	}
	var n *fullNode
	var v func(ctx context.Context, id peer.ID, msg *pubsub.Message) pubsub.ValidationResult
	topics := map[int]string{}
	f.Fuzz(func(t *testing.T, data []byte) {
		if len(data) == 0 {
			return
		}
		if n == nil {
			n = getNode(t)
			v = n.pubsub.ValidatorFunc()
			for i, k := range topicKinds {
				topics[i] = topicString(t, n, k)
			}
		}
		deepPoke = false
		ti := int(data[0]) % len(topicKinds)
		ts := topics[ti]
		msg := exact(data[1:])
		p := &probe{part: "fuzz_gossip", entry: "gossip/" + topicKinds[ti].name, input: msg, note: "fuzz", noGoroutineCheck: true}
		res := pubsub.ValidationResult(-1)
		p.run(t, func() {
			res = v(context.Background(), n.peer, &pubsub.Message{Message: &pubsubpb.Message{Data: msg, Topic: &ts}, ReceivedFrom: n.peer})
		})
		lbl := "result:" + resultNames[res]
		if lastCrash != nil {
			lbl = "crashed"
		}
		stats.Case("fuzz_gossip", topicKinds[ti].name+"|"+lbl, res != pubsub.ValidationReject, "topic:"+topicKinds[ti].name, lbl)
	})
}

// FuzzC15A_SubmitBlock: Core.SubmitBlock on the live node; the first byte selects the algorithm.
func FuzzC15A_SubmitBlock(f *testing.F) {
	pows := []types.PowID{types.Kawpow, types.SHA_BTC, types.SHA_BCH, types.Scrypt}
	for _, s := range seedExamples(func(t *rapid.T) []byte {
		i := rapid.IntRange(0, 3).Draw(t, "pow")
		hdr, cnt, cb := donorSubmission(t, pows[i])
		return append(append(append([]byte{byte(i)}, hdr...), cnt...), cb...)
	}) {
		f.Add(s)
		if len(s) > 81 {
			f.Add(s[:81])
		}
	}
	var ents []entry
	f.Fuzz(func(t *testing.T, data []byte) {
		if len(data) == 0 {
			return
		}
		if ents == nil {
			n := getNode(t)
			for _, id := range pows {
				ents = append(ents, submitBlockEntry(n, id))
			}
		}
		e := ents[int(data[0])%len(ents)]
		in := exact(data[1:])
		p := &probe{part: "fuzz_submit", entry: e.name, input: in, note: "fuzz", noGoroutineCheck: true}
		stage := 0
		p.run(t, func() { stage = e.run(in) })
		lbl := stageLabel[stage]
		if lastCrash != nil {
			lbl = "crashed"
		}
		stats.Case("fuzz_submit", e.name+"|"+lbl, true, "entry:"+e.name, lbl)
	})
}
