package c15

import (
	"fmt"
	"math"
	"strings"

	"google.golang.org/protobuf/proto"
	"google.golang.org/protobuf/reflect/protoreflect"
)

// Structure-aware mutation of a protobuf message tree (the "any subset of fields missing,
// truncated, oversized or type-confused" domain of the property). enumerate lists every
// single-point mutation of a populated tree:
//   message field      : nil (cleared), empty (replaced by an empty message)
//   absent msg field   : empty (an empty message is put where none was) - depth-limited
//   bytes / string     : clear (optional only), len 0, len 1, len-1, len+1, 4 KiB (thorough)
//   numeric / bool     : clear (optional only), 0, top bit, max
//   repeated           : emptied, last dropped, last duplicated, empty element appended,
//                        and every element is descended into
// A mutation is applied to a fresh clone of the root.

type pstep struct {
	fd  protoreflect.FieldDescriptor
	idx int // >= 0: element of a repeated field
}

type mutation struct {
	path  []pstep
	fd    protoreflect.FieldDescriptor // the field changed (inside the message addressed by path)
	op    string
	isNil bool // clears a populated message field (used for the pair enumeration)
	apply func(m protoreflect.Message)
}

func (mu *mutation) pathString(withIdx bool) string {
	var sb strings.Builder
	for _, s := range mu.path {
		sb.WriteString(string(s.fd.Name()))
		if s.idx >= 0 && withIdx {
			fmt.Fprintf(&sb, "[%d]", s.idx)
		} else if s.idx >= 0 {
			sb.WriteString("[]")
		}
		sb.WriteByte('.')
	}
	sb.WriteString(string(mu.fd.Name()))
	return sb.String()
}

// String is the readable description put into dumps; sig the structural signature.
func (mu *mutation) String() string { return mu.pathString(true) + ":" + mu.op }
func (mu *mutation) sig() string    { return mu.pathString(false) + ":" + mu.op }

func locate(root protoreflect.Message, path []pstep) protoreflect.Message {
	m := root
	for _, s := range path {
		v := m.Get(s.fd)
		if s.idx >= 0 {
			m = v.List().Get(s.idx).Message()
		} else {
			m = v.Message()
		}
	}
	return m
}

// mutate returns a mutated clone of root.
func mutate(root proto.Message, mus ...*mutation) proto.Message {
	c := proto.Clone(root)
	// apply deeper / later mutations first so that earlier paths stay valid
	for i := len(mus) - 1; i >= 0; i-- {
		mu := mus[i]
		func() {
			defer func() { recover() }() // a pair whose second path vanished with the first: ignore
			mu.apply(locate(c.ProtoReflect(), mu.path))
		}()
	}
	return c
}

type enumOpts struct {
	maxDepth  int  // do not descend below this many steps (0 = unlimited)
	big       bool // add the 4 KiB extension
	addAbsent bool // put empty messages into absent message fields
}

func enumerate(root proto.Message, o enumOpts) []*mutation {
	var out []*mutation
	var walk func(m protoreflect.Message, path []pstep)
	walk = func(m protoreflect.Message, path []pstep) {
		cp := func() []pstep { return append([]pstep(nil), path...) }
		add := func(fd protoreflect.FieldDescriptor, op string, isNil bool, f func(protoreflect.Message)) {
			out = append(out, &mutation{path: cp(), fd: fd, op: op, isNil: isNil, apply: f})
		}
		fds := m.Descriptor().Fields()
		for i := 0; i < fds.Len(); i++ {
			fd := fds.Get(i)
			if fd.IsMap() {
				continue
			}
			has := m.Has(fd)
			switch {
			case fd.IsList():
				l := m.Get(fd).List()
				n := l.Len()
				isMsg := fd.Kind() == protoreflect.MessageKind
				if n > 0 {
					add(fd, "list-empty", false, func(x protoreflect.Message) { x.Clear(fd) })
					add(fd, "list-drop-last", false, func(x protoreflect.Message) { l := x.Mutable(fd).List(); l.Truncate(l.Len() - 1) })
					add(fd, "list-dup-last", false, func(x protoreflect.Message) {
						l := x.Mutable(fd).List()
						last := l.Get(l.Len() - 1)
						if isMsg {
							last = protoreflect.ValueOfMessage(proto.Clone(last.Message().Interface()).ProtoReflect())
						} else if fd.Kind() == protoreflect.BytesKind {
							last = protoreflect.ValueOfBytes(append([]byte(nil), last.Bytes()...))
						}
						l.Append(last)
					})
				}
				switch {
				case isMsg:
					add(fd, "list-append-empty", false, func(x protoreflect.Message) { l := x.Mutable(fd).List(); l.Append(l.NewElement()) })
				case fd.Kind() == protoreflect.BytesKind:
					add(fd, "list-append-empty", false, func(x protoreflect.Message) { x.Mutable(fd).List().Append(protoreflect.ValueOfBytes([]byte{})) })
					if n > 0 {
						add(fd, "elem0-len-1", false, func(x protoreflect.Message) {
							l := x.Mutable(fd).List()
							b := l.Get(0).Bytes()
							if len(b) > 0 {
								l.Set(0, protoreflect.ValueOfBytes(append([]byte(nil), b[:len(b)-1]...)))
							}
						})
						add(fd, "elem0-len+1", false, func(x protoreflect.Message) {
							l := x.Mutable(fd).List()
							l.Set(0, protoreflect.ValueOfBytes(append(append([]byte(nil), l.Get(0).Bytes()...), 0)))
						})
					}
				}
				if isMsg && (o.maxDepth == 0 || len(path) < o.maxDepth) {
					for j := 0; j < n; j++ {
						walk(l.Get(j).Message(), append(cp(), pstep{fd, j}))
					}
				}
			case fd.Kind() == protoreflect.MessageKind || fd.Kind() == protoreflect.GroupKind:
				if has {
					add(fd, "nil", true, func(x protoreflect.Message) { x.Clear(fd) })
					add(fd, "empty", false, func(x protoreflect.Message) { x.Set(fd, x.NewField(fd)) })
					if o.maxDepth == 0 || len(path) < o.maxDepth {
						walk(m.Get(fd).Message(), append(cp(), pstep{fd, -1}))
					}
				} else if o.addAbsent {
					add(fd, "absent->empty", false, func(x protoreflect.Message) { x.Set(fd, x.NewField(fd)) })
				}
			case fd.Kind() == protoreflect.BytesKind || fd.Kind() == protoreflect.StringKind:
				isStr := fd.Kind() == protoreflect.StringKind
				val := func(b []byte) protoreflect.Value {
					if isStr {
						return protoreflect.ValueOfString(string(b))
					}
					return protoreflect.ValueOfBytes(b)
				}
				get := func(x protoreflect.Message) []byte {
					if isStr {
						return []byte(x.Get(fd).String())
					}
					return append([]byte(nil), x.Get(fd).Bytes()...)
				}
				if has && fd.HasPresence() {
					add(fd, "clear", false, func(x protoreflect.Message) { x.Clear(fd) })
				}
				if !has && !fd.HasPresence() {
					// empty == absent on the wire: only growing makes sense
					add(fd, "len+1", false, func(x protoreflect.Message) { x.Set(fd, val([]byte{0})) })
					continue
				}
				add(fd, "len0", false, func(x protoreflect.Message) { x.Set(fd, val([]byte{})) })
				add(fd, "len1", false, func(x protoreflect.Message) {
					b := get(x)
					if len(b) > 1 {
						b = b[:1]
					} else {
						b = []byte{0xff}
					}
					x.Set(fd, val(b))
				})
				add(fd, "len-1", false, func(x protoreflect.Message) {
					b := get(x)
					if len(b) > 0 {
						b = b[:len(b)-1]
					}
					x.Set(fd, val(b))
				})
				add(fd, "len+1", false, func(x protoreflect.Message) { x.Set(fd, val(append(get(x), 0))) })
				if o.big {
					add(fd, "len+4k", false, func(x protoreflect.Message) { x.Set(fd, val(append(get(x), make([]byte, 4096)...))) })
				}
			default: // numeric, bool, enum
				if has && fd.HasPresence() {
					add(fd, "clear", false, func(x protoreflect.Message) { x.Clear(fd) })
				}
				for _, ext := range numericExtremes(fd) {
					ext := ext
					add(fd, "num="+ext.name, false, func(x protoreflect.Message) { x.Set(fd, ext.v) })
				}
			}
		}
	}
	walk(root.ProtoReflect(), nil)
	return out
}

type extreme struct {
	name string
	v    protoreflect.Value
}

func numericExtremes(fd protoreflect.FieldDescriptor) []extreme {
	switch fd.Kind() {
	case protoreflect.BoolKind:
		return []extreme{{"false", protoreflect.ValueOfBool(false)}, {"true", protoreflect.ValueOfBool(true)}}
	case protoreflect.EnumKind:
		return []extreme{{"0", protoreflect.ValueOfEnum(0)}, {"max", protoreflect.ValueOfEnum(math.MaxInt32)}}
	case protoreflect.Int32Kind, protoreflect.Sint32Kind, protoreflect.Sfixed32Kind:
		return []extreme{{"0", protoreflect.ValueOfInt32(0)}, {"min", protoreflect.ValueOfInt32(math.MinInt32)}, {"max", protoreflect.ValueOfInt32(math.MaxInt32)}}
	case protoreflect.Int64Kind, protoreflect.Sint64Kind, protoreflect.Sfixed64Kind:
		return []extreme{{"0", protoreflect.ValueOfInt64(0)}, {"min", protoreflect.ValueOfInt64(math.MinInt64)}, {"max", protoreflect.ValueOfInt64(math.MaxInt64)}}
	case protoreflect.Uint32Kind, protoreflect.Fixed32Kind:
		return []extreme{{"0", protoreflect.ValueOfUint32(0)}, {"2^16", protoreflect.ValueOfUint32(1 << 16)}, {"2^31", protoreflect.ValueOfUint32(1 << 31)}, {"max", protoreflect.ValueOfUint32(math.MaxUint32)}}
	case protoreflect.Uint64Kind, protoreflect.Fixed64Kind:
		return []extreme{{"0", protoreflect.ValueOfUint64(0)}, {"2^32", protoreflect.ValueOfUint64(1 << 32)}, {"2^63", protoreflect.ValueOfUint64(1 << 63)}, {"max", protoreflect.ValueOfUint64(math.MaxUint64)}}
	case protoreflect.FloatKind:
		return []extreme{{"nan", protoreflect.ValueOfFloat32(float32(math.NaN()))}}
	case protoreflect.DoubleKind:
		return []extreme{{"nan", protoreflect.ValueOfFloat64(math.NaN())}}
	}
	return nil
}

// nilMutations filters the mutations that clear a populated message field.
func nilMutations(all []*mutation) []*mutation {
	var out []*mutation
	for _, m := range all {
		if m.isNil {
			out = append(out, m)
		}
	}
	return out
}

// isPrefix reports whether mutation a removes the sub-tree b lives in.
func removesSubtreeOf(a, b *mutation) bool {
	if len(a.path) >= len(b.path) {
		return false
	}
	for i := range a.path {
		if a.path[i] != b.path[i] {
			return false
		}
	}
	nx := b.path[len(a.path)]
	return nx.fd == a.fd
}
