package c15

import (
	"context"
	"testing"

	"github.com/dominant-strategies/go-quai/common/hexutil"
)

func TestC15A_SmokeNode(t *testing.T) {
	n := getNode(t)
	var res hexutil.Uint64
	err := n.client.CallContext(context.Background(), &res, "quai_blockNumber")
	t.Logf("blockNumber=%v err=%v", res, err)
	var out any
	err = n.client.CallContext(context.Background(), &out, "quai_sendRawTransaction", "0x00")
	t.Logf("sendRaw out=%v err=%v", out, err)
	err = n.client.CallContext(context.Background(), &out, "rpc_modules")
	t.Logf("modules out=%v err=%v", out, err)
}
