// C15 (b3) — code shapes: no byte layout of contract code or init code crashes the interpreter.
//
// The interpreter analyses code lazily (the bit map of positions that are PUSH data) the first
// time a JUMP / JUMPI executes in a frame. The programs here are built for that analysis: a
// prologue PUSH2 target JUMP, a body of JUMPDESTs and PUSHn with data biased to the bytes that
// matter (0x5b, 0x7f, 0x60, 0x00), and a tail that is a PUSHn opcode cut short by the end of the
// code, at every total length modulo 8 and 64 (rotated deterministically so that each class is
// visited, rapid's early draws being minimal). The code runs as a deployed contract and as the
// init code of a creation transaction. Oracle: the execution ends in a result or an error, never
// in a Go panic, and (shared memory check) memory stays within what gas bought.
package c15

import (
	"encoding/hex"
	"fmt"
	"runtime/debug"
	"testing"

	"github.com/dominant-strategies/go-quai/core/vm"
	"pgregory.net/rapid"

	"verifharness/evmgen"
	"verifharness/stats"
)

var c15bShapeNo int

// refPushData marks, independently of the code under test, the positions that are PUSH data.
func refPushData(code []byte) []bool {
	d := make([]bool, len(code))
	for pc := 0; pc < len(code); pc++ {
		op := code[pc]
		if op >= byte(vm.PUSH1) && op <= byte(vm.PUSH32) {
			n := int(op-byte(vm.PUSH1)) + 1
			for i := 1; i <= n && pc+i < len(code); i++ {
				d[pc+i] = true
			}
			pc += n
		}
	}
	return d
}

func TestC15B_CodeShapes(t *testing.T) {
	u := evmgen.U()
	rapid.Check(t, func(rt *rapid.T) {
		c15bShapeNo++
		no := c15bShapeNo + 7919*stats.Shard()
		tailN := 1 + no%32          // the PUSHn opcode the code ends in
		wantMod := (no / 32) % 8    // total length modulo 8
		big64 := (no/256)%4 == 3    // some codes are padded to a multiple of 64 plus wantMod
		tailHave := rapid.IntRange(0, tailN-1).Draw(rt, "tailHave")
		interesting := []byte{0x5b, 0x7f, 0x60, 0x00, 0x56, 0x57, 0xff}
		var body []byte
		nElem := rapid.IntRange(0, 40).Draw(rt, "elems")
		if rapid.IntRange(0, 15).Draw(rt, "long") == 0 {
			nElem = rapid.IntRange(200, 700).Draw(rt, "elemsLong")
		}
		for i := 0; i < nElem; i++ {
			if rapid.IntRange(0, 2).Draw(rt, "kind") == 0 {
				body = append(body, byte(vm.JUMPDEST))
				continue
			}
			n := rapid.IntRange(1, 32).Draw(rt, "n")
			body = append(body, byte(int(vm.PUSH1)+n-1))
			for j := 0; j < n; j++ {
				if rapid.Bool().Draw(rt, "hot") {
					body = append(body, interesting[rapid.IntRange(0, len(interesting)-1).Draw(rt, "b")])
				} else {
					body = append(body, rapid.Byte().Draw(rt, "b"))
				}
			}
		}
		tail := []byte{byte(int(vm.PUSH1) + tailN - 1)}
		for j := 0; j < tailHave; j++ {
			tail = append(tail, interesting[rapid.IntRange(0, len(interesting)-1).Draw(rt, "tb")])
		}
		// prologue (4 bytes) + body + JUMPDEST padding + tail, padded to the wanted length class
		total := 4 + len(body) + len(tail)
		pad := (wantMod - total%8 + 8) % 8
		if big64 {
			pad = (wantMod - total%64 + 64) % 64
		}
		for i := 0; i < pad; i++ {
			body = append(body, byte(vm.JUMPDEST))
		}
		code := append([]byte{byte(vm.PUSH2), 0, 0, byte(vm.JUMP)}, body...)
		code = append(code, tail...)
		isData := refPushData(code)
		// the jump target: a real JUMPDEST, a 0x5b inside PUSH data, the last bytes, or beyond
		var valid, dataDest []int
		for pc, b := range code {
			if b == byte(vm.JUMPDEST) {
				if isData[pc] {
					dataDest = append(dataDest, pc)
				} else {
					valid = append(valid, pc)
				}
			}
		}
		targetClass := rapid.SampledFrom([]string{"valid", "valid", "valid", "valid-last", "data", "tail", "end", "beyond"}).Draw(rt, "target")
		target := 0
		switch {
		case targetClass == "valid" && len(valid) > 0:
			target = valid[rapid.IntRange(0, len(valid)-1).Draw(rt, "ti")]
		case targetClass == "valid-last" && len(valid) > 0:
			target = valid[len(valid)-1]
		case targetClass == "data" && len(dataDest) > 0:
			target = dataDest[rapid.IntRange(0, len(dataDest)-1).Draw(rt, "ti")]
		case targetClass == "tail":
			target = len(code) - 1 - rapid.IntRange(0, len(tail)-1).Draw(rt, "back")
		case targetClass == "end":
			target = len(code)
		case targetClass == "beyond":
			target = len(code) + rapid.SampledFrom([]int{1, 7, 8, 31, 32, 33, 255}).Draw(rt, "by")
		default:
			targetClass = "none-available"
			target = 3 // the JUMP itself: not a JUMPDEST
		}
		code[1], code[2] = byte(target>>8), byte(target)
		isData = refPushData(code) // the prologue's immediate changed, not the layout
		expectJump := target < len(code) && code[target] == byte(vm.JUMPDEST) && !isData[target]

		asInit := rapid.Bool().Draw(rt, "asInit")
		gas := uint64(rapid.SampledFrom([]int{400_000, 4_000_000}).Draw(rt, "gas"))
		c := c15bHand(gas, func(a *evmgen.Asm) { a.Op(vm.STOP) })
		prog := evmgen.Program{Text: "raw " + hex.EncodeToString(code), Code: code, Hex: hex.EncodeToString(code)}
		if asInit {
			c.Tx.To, c.Tx.ToClass, c.Tx.Data, c.Tx.DataNote = nil, "create", code, "init code = shaped program"
		} else {
			c.Pre.Accounts[0].Code = &prog
		}
		c.Mode = []string{evmgen.ModeTracedBypass, evmgen.ModeUntraced, evmgen.ModeTracedEnforced}[rapid.IntRange(0, 2).Draw(rt, "mode")]
		_ = u
		dump := map[string]any{"code": prog.Hex, "len": len(code), "len_mod_8": len(code) % 8, "tail": fmt.Sprintf("PUSH%d with %d of its bytes", tailN, tailHave),
			"target": target, "target_class": targetClass, "reference_says_valid_jumpdest": expectJump, "as_init_code": asInit, "gas": gas, "mode": c.Mode}
		var o *evmgen.Outcome
		var err error
		func() {
			defer func() {
				if r := recover(); r != nil {
					cr := analyse(r, debug.Stack())
					stats.Violation(rt, "codeshapes", "C15/panic/"+cr.fp+"/code-shape", fmt.Sprintf("code of %d bytes ending in PUSH%d with %d of its bytes, jump to %d (%s), as init code=%v: %v", len(code), tailN, tailHave, target, targetClass, asInit, r), dump)
				}
			}()
			o, err = c.Run()
		}()
		if err != nil {
			rt.Fatalf("HARNESS: %v", err)
		}
		if o == nil {
			return
		}
		outcome := "rejected"
		if o.Res.Err == nil {
			outcome = fmt.Sprintf("status=%d", o.Res.Receipt.Status)
			if o.Tracer != nil {
				c15bCheck(rt, "codeshapes", c, o)
			}
		}
		lenClass := "short"
		if len(code) > 1024 {
			lenClass = "long"
		}
		// non-trivial = the transaction executed (the JUMP ran, so the analysis was made)
		stats.Case("codeshapes", fmt.Sprintf("tail%d/%d|mod%d|%s|%s|init=%v|%s", tailN, tailHave, len(code)%8, lenClass, targetClass, asInit, outcome), o.Res.Err == nil,
			"tail:PUSH"+fmt.Sprint(tailN), fmt.Sprintf("lenmod8:%d", len(code)%8), "target:"+targetClass, fmt.Sprintf("init:%v", asInit), "outcome:"+outcome, fmt.Sprintf("refvalid:%v", expectJump))
		if len(code)%8 == 0 && tailN == 32 {
			stats.Label("codeshapes", "aligned-and-ends-in-PUSH32")
		}
		if stats.WantSample("codeshapes") {
			stats.Sample("codeshapes", dump)
		}
	})
}
