package c15

import (
	"context"
	"encoding/hex"
	"encoding/json"
	"os"
	"strings"
	"testing"

	"github.com/dominant-strategies/go-quai/common"
	"github.com/dominant-strategies/go-quai/core/rawdb"
	"github.com/dominant-strategies/go-quai/core/types"
	pubsub "github.com/libp2p/go-libp2p-pubsub"
	pubsubpb "github.com/libp2p/go-libp2p-pubsub/pb"
	"google.golang.org/protobuf/proto"
	"pgregory.net/rapid"

	"verifharness/gen"
	"verifharness/stats"
)

// TestC15A_Regress_KnownFindings replays one fixed reproducer per recorded finding through the
// same entry point and oracle as the generating tests. While a finding is listed as known the
// crash is counted (KNOWN-FINDING line); once the repository is repaired the reproducer must pass
// (a crash under a fingerprint that is no longer "known" fails the run). The fingerprint observed
// must be the recorded one: a reproducer that crashes somewhere else is reported under the new
// fingerprint, i.e. as a new violation.

type regressCase struct {
	Fingerprint string   `json:"fingerprint"`
	Entry       string   `json:"entry"`
	How         string   `json:"how"`
	Hex         string   `json:"hex,omitempty"`
	Text        string   `json:"text,omitempty"`
	Params      []string `json:"params,omitempty"`
}

func loadRegress(t *testing.T) []regressCase {
	for _, p := range []string{"testdata/c15a_regress.json", "../../props/c15/testdata/c15a_regress.json"} {
		b, err := os.ReadFile(p)
		if err != nil {
			continue
		}
		var cs []regressCase
		if err := json.Unmarshal(b, &cs); err != nil {
			t.Fatalf("HARNESS: %s: %v", p, err)
		}
		return cs
	}
	t.Fatalf("HARNESS: testdata/c15a_regress.json not found")
	return nil
}

func TestC15A_Regress_KnownFindings(t *testing.T) {
	n := getNode(t)
	pure := pureProtoEntries()
	for k, v := range rlpEntries() {
		pure[k] = v
	}
	for k, v := range donorEntries() {
		pure[k] = v
	}
	for _, id := range []types.PowID{types.Kawpow, types.SHA_BTC, types.SHA_BCH, types.Scrypt} {
		e := submitBlockEntry(n, id)
		pure[e.name] = e
	}
	jsonT := map[string]jsonTarget{}
	for _, tg := range jsonTargets() {
		jsonT[tg.name] = tg
	}
	methods := map[string]rpcMethod{}
	for _, m := range rpcMethods(n) {
		methods["rpc:"+m.name] = m
	}
	topics := map[string]topicKind{}
	for _, k := range topicKinds {
		topics["gossip/"+k.name] = k
	}
	v := n.pubsub.ValidatorFunc()
	deepPoke = false
	defer func() { deepPoke = true }()
	defer surveyDump(t)

	record := func(c regressCase, crashed bool) {
		lbl := "repaired-or-absent"
		if crashed {
			lbl = "reproduced"
		}
		stats.Case("regress", c.Fingerprint, true, lbl, "fp:"+c.Fingerprint)
		t.Logf("%-12s %s via %s (%s)", lbl, c.Fingerprint, c.Entry, c.How)
	}

	for _, c := range loadRegress(t) {
		var input []byte
		switch {
		case c.Hex != "":
			b, err := hex.DecodeString(c.Hex)
			if err != nil {
				t.Fatalf("HARNESS: bad hex in %s", c.Fingerprint)
			}
			input = b
		case c.Text != "":
			input = []byte(c.Text)
		}
		p := &probe{part: "regress", entry: c.Entry, input: input, note: "reproducer: " + c.How, noGoroutineCheck: true}
		switch {
		case strings.HasPrefix(c.Entry, "json->"):
			tg, ok := jsonT[c.Entry]
			if !ok {
				t.Fatalf("HARNESS: unknown json target %s", c.Entry)
			}
			p.extra = map[string]any{"input_text": clip(string(input), 4000)}
			p.run(t, func() { tg.run(input) })
		case strings.HasPrefix(c.Entry, "rpc:"):
			m, ok := methods[c.Entry]
			if !ok {
				t.Fatalf("HARNESS: unknown rpc method %s", c.Entry)
			}
			var args [][]byte
			for _, s := range c.Params {
				args = append(args, []byte(s))
			}
			p.input = []byte(strings.Join(c.Params, ", "))
			p.extra = map[string]any{"params": c.Params}
			p.run(t, func() { callRPC(m, args, "") })
		case strings.HasPrefix(c.Entry, "gossip/"):
			k := topics[c.Entry]
			tp := topicString(t, n, k)
			p.run(t, func() {
				v(context.Background(), n.peer, &pubsub.Message{Message: &pubsubpb.Message{Data: input, Topic: &tp}, ReceivedFrom: n.peer})
			})
		default:
			e, ok := pure[c.Entry]
			if !ok {
				t.Fatalf("HARNESS: unknown entry %s", c.Entry)
			}
			p.run(t, func() { e.run(input) })
		}
		record(c, lastCrash != nil)
	}

	// reproducers that need a store
	storeCase := func(fp, item, how string, corrupt func(db locDB, stored map[string][]byte) bool) {
		var it storeItem
		for _, x := range storeItems() {
			if x.name == item {
				it = x
			}
		}
		crashed := false
		rapid.Custom(func(rt *rapid.T) bool {
			db := locDB{rawdb.NewMemoryDatabase(logger), zoneLoc}
			read := it.write(rt, db, nil)
			if !corrupt(db, snapshotDB(db)) {
				return false
			}
			p := &probe{part: "regress", entry: "rawdb/" + item, note: "reproducer: " + how}
			p.run(t, read)
			crashed = lastCrash != nil
			return true
		}).Example(1)
		record(regressCase{Fingerprint: fp, Entry: "rawdb/" + item, How: how}, crashed)
	}
	storeCase("C15/fatal/rawdb/undecodable-stored-value", "termini", "stored termini replaced by the byte 0x00", func(db locDB, st map[string][]byte) bool {
		for k := range st {
			db.Put([]byte(k), []byte{0})
		}
		return true
	})
	storeCase("C15/panic/rawdb.ReadCoinbaseLockup/slice-bounds", "coinbaseLockup", "stored coinbase lockup truncated to one byte", func(db locDB, st map[string][]byte) bool {
		for k := range st {
			db.Put([]byte(k), []byte{0})
		}
		return true
	})
	storeCase("C15/panic/types.Receipts.DeriveFields/index-out-of-range", "receipts", "stored receipt list with one more receipt than the block has transactions", func(db locDB, st map[string][]byte) bool {
		for k, val := range st {
			m := roundTrips(pm[types.ProtoReceiptsForStorage](), val)
			if m == nil {
				continue
			}
			rs := m.(*types.ProtoReceiptsForStorage)
			if len(rs.Receipts) == 0 {
				continue
			}
			for i := 0; i < 4; i++ {
				rs.Receipts = append(rs.Receipts, proto.Clone(rs.Receipts[0]).(*types.ProtoReceiptForStorage))
			}
			b, _ := proto.Marshal(rs)
			db.Put([]byte(k), b)
			return true
		}
		return false
	})

	// a receipt document whose log list holds null
	{
		r := &types.Receipt{Status: 1, Logs: []*types.Log{}, ContractAddress: common.BytesToAddress(make([]byte, 20), zoneLoc)}
		doc, err := r.MarshalJSON()
		if err != nil {
			t.Fatalf("HARNESS: %v", err)
		}
		doc = []byte(strings.Replace(string(doc), `"logs":[]`, `"logs":[null]`, 1))
		c := regressCase{Fingerprint: "C15/panic/Receipt.UnmarshalJSON/accepts-incomplete-object", Entry: "json->Receipt", How: "logs := [null]"}
		p := &probe{part: "regress", entry: c.Entry, input: doc, note: "reproducer: " + c.How}
		p.run(t, func() { jsonT[c.Entry].run(doc) })
		record(c, lastCrash != nil)
	}

	// a work object whose body carries no header, through the share view decoder
	{
		wo := rapid.Custom(func(rt *rapid.T) *types.WorkObject {
			return gen.WorkObject(rt, zoneLoc, gen.WoOpts{Regime: gen.PreFork}, nil)
		}).Example(3)
		pw, err := wo.ProtoEncode(types.BlockObject)
		if err != nil {
			t.Fatalf("HARNESS: %v", err)
		}
		pw.WoBody = &types.ProtoWorkObjectBody{}
		b, _ := proto.Marshal(&types.ProtoWorkObjectBlockView{WorkObject: pw})
		c := regressCase{Fingerprint: "C15/panic/" + bodyHeaderAbsent, Entry: "pb.UnmarshalAndConvert/ShareView", How: "wo_body := {}"}
		p := &probe{part: "regress", entry: c.Entry, input: b, note: "reproducer: " + c.How}
		p.run(t, func() { pure[c.Entry].run(b) })
		record(c, lastCrash != nil)
		t.Logf("body-header-absent reproducer: %x", b)
	}
}

func topicString(t *testing.T, n *fullNode, k topicKind) string {
	for _, x := range topicKinds {
		if x.name == k.name {
			tp, err := newTopic(n, x)
			if err != nil {
				t.Fatalf("HARNESS: topic: %v", err)
			}
			return tp
		}
	}
	t.Fatalf("HARNESS: unknown topic %q", k.name)
	return ""
}
