package c15

import (
	"bytes"
	"fmt"
	"math/big"
	"sort"
	"testing"

	"github.com/dominant-strategies/go-quai/common"
	"github.com/dominant-strategies/go-quai/core/rawdb"
	"github.com/dominant-strategies/go-quai/core/types"
	"github.com/dominant-strategies/go-quai/ethdb"
	"google.golang.org/protobuf/proto"
	"pgregory.net/rapid"

	"verifharness/gen"
	"verifharness/stats"
)

// Stored values: a valid object is written with the production rawdb.Write* accessor into a
// memory database (reporting location zone 0-0, logger whose Fatal panics); then the value under
// ONE of the keys it wrote is replaced by hostile bytes (arbitrary, byte-mutated, or - where the
// value's proto type is known - every single structural mutation) and the production rawdb.Read*
// accessors for that object are called, followed by what the RPC layer does with a block read
// from disk (hashes, RPC marshalling). A logger.Fatal is the node exiting: it counts as a crash.

type kv struct{ k, v []byte }

func snapshotDB(db ethdb.Database) map[string][]byte {
	out := map[string][]byte{}
	it := db.NewIterator(nil, nil)
	defer it.Release()
	for it.Next() {
		out[string(it.Key())] = append([]byte(nil), it.Value()...)
	}
	return out
}

type storeItem struct {
	name string
	// write stores a generated valid object and returns the reader to call afterwards
	write func(t *rapid.T, db locDB, g *gen.Tags) (read func())
	// protoTypes: candidate message types of the values written (for structural mutation)
	protoTypes []func() proto.Message
}

func pm[T any, PT interface {
	*T
	proto.Message
}]() func() proto.Message {
	return func() proto.Message { return PT(new(T)) }
}

var storeChainCfg = testChainCfg

func storeItems() []storeItem {
	zctx := common.ZONE_CTX
	return []storeItem{
		{"workobject", func(t *rapid.T, db locDB, g *gen.Tags) func() {
			wo := gen.WorkObject(t, zoneLoc, gen.WoOpts{Regime: gen.AnyRegime, AuxPow: -1, NonZeroNumber: true}, g)
			hash, num := wo.Hash(), wo.NumberU64(zctx)
			rawdb.WriteWorkObject(db, hash, wo, types.BlockObject, zctx)
			rawdb.WriteCanonicalHash(db, hash, num)
			rawdb.WriteHeadBlockHash(db, hash)
			return func() {
				step(func() { pokeWo(rawdb.ReadWorkObject(db, num, hash, types.BlockObject), types.BlockObject) })
				step(func() { pokeWo(rawdb.ReadHeader(db, num, hash), types.HeaderObject) })
				step(func() { pokeWo(rawdb.ReadWorkObjectHeaderOnly(db, num, hash, types.BlockObject), types.HeaderObject) })
				step(func() { pokeWo(rawdb.ReadWorkObjectWithWorkShares(db, num, hash), types.BlockObject) })
				step(func() { pokeWoHeader(rawdb.ReadWorkObjectHeader(db, num, hash, types.BlockObject)) })
				step(func() { rawdb.ReadWorkObjectBody(db, hash, types.BlockObject) })
				step(func() { rawdb.ReadWorkObjectBodyHeaderOnly(db, hash) })
				step(func() { rawdb.HasHeader(db, hash, num); rawdb.HasBody(db, hash, num) })
				step(func() {
					rawdb.ReadHeaderNumber(db, hash)
					rawdb.ReadCanonicalHash(db, num)
					rawdb.ReadAllHashes(db, num)
				})
				step(func() { pokeWo(rawdb.ReadHeadBlock(db), types.BlockObject) })
			}
		}, []func() proto.Message{pm[types.ProtoWorkObjectHeader](), pm[types.ProtoWorkObjectBody]()}},
		{"receipts", func(t *rapid.T, db locDB, g *gen.Tags) func() {
			wo := gen.WorkObject(t, zoneLoc, gen.WoOpts{Regime: gen.AnyRegime, AuxPow: 0, NonZeroNumber: true}, nil)
			hash, num := wo.Hash(), wo.NumberU64(zctx)
			rawdb.WriteWorkObject(db, hash, wo, types.BlockObject, zctx)
			before := snapshotDB(db)
			rawdb.WriteReceipts(db, hash, num, gen.Receipts(t, zoneLoc, false, g))
			_ = before
			return func() {
				step(func() { rawdb.ReadRawReceipts(db, hash, num) })
				step(func() { rawdb.ReadReceipts(db, hash, num, storeChainCfg) })
				step(func() { rawdb.ReadReceiptsProto(db, hash, num) })
			}
		}, []func() proto.Message{pm[types.ProtoReceiptsForStorage]()}},
		{"termini", func(t *rapid.T, db locDB, g *gen.Tags) func() {
			h := gen.Hash(t, "h")
			rawdb.WriteTermini(db, h, gen.Termini(t, "tm"))
			return func() {
				step(func() {
					if tm := rawdb.ReadTermini(db, h); tm != nil {
						_ = tm.IsValid()
						_ = tm.DomTerminus(zoneLoc)
						_ = tm.SubTerminiAtIndex(0)
					}
				})
			}
		}, []func() proto.Message{pm[types.ProtoTermini]()}},
		{"pendingEtxs", func(t *rapid.T, db locDB, g *gen.Tags) func() {
			p := gen.PendingEtxs(t, zoneLoc, g)
			rawdb.WritePendingEtxs(db, p)
			h := p.Header.Hash()
			return func() {
				step(func() {
					if r := rawdb.ReadPendingEtxs(db, h); r != nil {
						pokeWo(r.Header, types.PEtxObject)
						r.IsValid(newHasher())
					}
				})
				step(func() { rawdb.ReadPendingEtxsProto(db, h) })
			}
		}, []func() proto.Message{pm[types.ProtoPendingEtxs]()}},
		{"pendingEtxsRollup", func(t *rapid.T, db locDB, g *gen.Tags) func() {
			p := gen.PendingEtxsRollup(t, zoneLoc, g)
			rawdb.WritePendingEtxsRollup(db, p)
			h := p.Header.Hash()
			return func() {
				step(func() {
					if r := rawdb.ReadPendingEtxsRollup(db, h); r != nil {
						pokeWo(r.Header, types.PEtxObject)
						r.IsValid(newHasher())
					}
				})
			}
		}, []func() proto.Message{pm[types.ProtoPendingEtxsRollup]()}},
		{"bestPendingHeader", func(t *rapid.T, db locDB, g *gen.Tags) func() {
			ph := gen.PendingHeader(t, zoneLoc, g)
			rawdb.WriteBestPendingHeader(db, ph.WorkObject())
			return func() {
				step(func() { pokeWo(rawdb.ReadBestPendingHeader(db), types.BlockObject) })
			}
		}, []func() proto.Message{pm[types.ProtoWorkObject]()}},
		{"pbCacheBody", func(t *rapid.T, db locDB, g *gen.Tags) func() {
			wo := gen.WorkObject(t, zoneLoc, gen.WoOpts{Regime: gen.AnyRegime, AuxPow: -1}, g)
			h := gen.Hash(t, "h")
			rawdb.WritePbCacheBody(db, h, wo)
			return func() {
				step(func() { pokeWo(rawdb.ReadPbCacheBody(db, h), types.BlockObject) })
			}
		}, []func() proto.Message{pm[types.ProtoWorkObject]()}},
		{"hashLists", func(t *rapid.T, db locDB, g *gen.Tags) func() {
			h := gen.Hash(t, "h")
			hs := common.Hashes(gen.Hashes(t, "hs", 4))
			rawdb.WriteHeadsHashes(db, hs)
			rawdb.WriteBadHashesList(db, hs)
			rawdb.WriteGenesisHashes(db, hs)
			rawdb.WritePbBodyKeys(db, hs)
			rawdb.WriteInterlinkHashes(db, h, hs)
			rawdb.WriteManifest(db, h, types.BlockManifest(hs))
			return func() {
				step(func() { rawdb.ReadHeadsHashes(db) })
				step(func() { rawdb.ReadBadHashesList(db) })
				step(func() { rawdb.ReadGenesisHashes(db) })
				step(func() { rawdb.ReadPbBodyKeys(db) })
				step(func() { rawdb.ReadInterlinkHashes(db, h) })
				step(func() { rawdb.ReadManifest(db, h) })
				step(func() { rawdb.IsGenesisHash(db, h) })
			}
		}, []func() proto.Message{pm[common.ProtoHashes](), pm[types.ProtoManifest]()}},
		{"inboundEtxs", func(t *rapid.T, db locDB, g *gen.Tags) func() {
			h := gen.Hash(t, "h")
			rawdb.WriteInboundEtxs(db, h, gen.Txs(t, "etxs", zoneLoc, 3, 1, g))
			return func() {
				step(func() {
					for _, tx := range rawdb.ReadInboundEtxs(db, h) {
						pokeTx(tx, zoneLoc)
					}
				})
			}
		}, []func() proto.Message{pm[types.ProtoTransactions]()}},
		{"utxo", func(t *rapid.T, db locDB, g *gen.Tags) func() {
			h, idx := gen.Hash(t, "h"), gen.U16(t, "i")
			if err := rawdb.CreateUTXO(db, h, idx, gen.UtxoEntry(t, "u", zoneLoc, g)); err != nil {
				t.Fatalf("HARNESS: CreateUTXO: %v", err)
			}
			return func() {
				step(func() {
					if u := rawdb.GetUTXO(db, h, idx); u != nil {
						types.UTXOHash(h, idx, u)
					}
				})
				step(func() { b := db.NewBatch(); b.SetPending(true); rawdb.GetUTXOWithBatch(db, b, h, idx) })
			}
		}, []func() proto.Message{pm[types.ProtoTxOut]()}},
		{"spentUtxos", func(t *rapid.T, db locDB, g *gen.Tags) func() {
			h := gen.Hash(t, "h")
			n := rapid.IntRange(0, 3).Draw(t, "n")
			var sp []*types.SpentUtxoEntry
			for i := 0; i < n; i++ {
				sp = append(sp, gen.SpentUtxoEntry(t, fmt.Sprintf("s%d", i), zoneLoc, g))
			}
			if err := rawdb.WriteSpentUTXOs(db, h, sp); err != nil {
				t.Fatalf("HARNESS: %v", err)
			}
			if err := rawdb.WriteTrimmedUTXOs(db, h, sp); err != nil {
				t.Fatalf("HARNESS: %v", err)
			}
			return func() {
				step(func() { rawdb.ReadSpentUTXOs(db, h) })
				step(func() { rawdb.ReadTrimmedUTXOs(db, h) })
			}
		}, []func() proto.Message{pm[types.ProtoSpentUTXOs]()}},
		{"addressUtxos", func(t *rapid.T, db locDB, g *gen.Tags) func() {
			addr := gen.AddressBytes(t, "a", zoneLoc)
			n := rapid.IntRange(1, 3).Draw(t, "n")
			var ops []*types.OutpointAndDenomination
			for i := 0; i < n; i++ {
				ops = append(ops, gen.OutpointAndDenomination(t, fmt.Sprintf("o%d", i), g))
			}
			m := map[[20]byte][]*types.OutpointAndDenomination{addr: ops}
			if err := rawdb.WriteAddressUTXOs(db, db, m); err != nil {
				t.Fatalf("HARNESS: %v", err)
			}
			if err := rawdb.WriteAddressOutpoints(db, m); err != nil {
				t.Fatalf("HARNESS: %v", err)
			}
			return func() {
				step(func() { rawdb.ReadAddressUTXOs(db, addr) })
				step(func() { rawdb.ReadOutpointsForAddressAtBlock(db, addr) })
				step(func() { rawdb.ReadOutpointsForAddress(db, common.BytesToAddress(addr[:], zoneLoc)) })
				step(func() { rawdb.WriteAddressUTXOs(db, db, m) })
			}
		}, []func() proto.Message{pm[types.ProtoAddressOutPoints]()}},
		{"tokenChoices", func(t *rapid.T, db locDB, g *gen.Tags) func() {
			h := gen.Hash(t, "h")
			if err := rawdb.WriteTokenChoicesSet(db, h, gen.TokenChoiceSet(t, "tc")); err != nil {
				t.Fatalf("HARNESS: %v", err)
			}
			return func() { step(func() { rawdb.ReadTokenChoicesSet(db, h) }) }
		}, []func() proto.Message{pm[types.ProtoTokenChoiceSet]()}},
		{"bloom", func(t *rapid.T, db locDB, g *gen.Tags) func() {
			h := gen.Hash(t, "h")
			var bl types.Bloom
			copy(bl[:], gen.Blob(t, "bloom", len(bl)))
			rawdb.WriteBloom(db, h, bl)
			return func() {
				step(func() { rawdb.ReadBloom(db, h) })
				step(func() { rawdb.ReadBloomProto(db, h) })
			}
		}, nil},
		{"keysLists", func(t *rapid.T, db locDB, g *gen.Tags) func() {
			h, height := gen.Hash(t, "h"), gen.U64(t, "height")
			var keys [][]byte
			for i, n := 0, rapid.IntRange(0, 3).Draw(t, "n"); i < n; i++ {
				keys = append(keys, gen.Blob(t, fmt.Sprintf("k%d", i), 35))
			}
			rawdb.WriteCreatedUTXOKeys(db, h, keys)
			rawdb.WriteCreatedCoinbaseLockupKeys(db, h, keys)
			rawdb.WritePrunedUTXOKeys(db, height, keys)
			var del []rawdb.DeletedCoinbaseLockup
			for i, k := range keys {
				del = append(del, rawdb.DeletedCoinbaseLockup{Key: k, Value: gen.Blob(t, fmt.Sprintf("v%d", i), 38)})
			}
			rawdb.WriteDeletedCoinbaseLockups(db, h, del)
			return func() {
				step(func() { rawdb.ReadCreatedUTXOKeys(db, h) })
				step(func() { rawdb.ReadCreatedCoinbaseLockupKeys(db, h) })
				step(func() { rawdb.ReadPrunedUTXOKeys(db, height) })
				step(func() { rawdb.ReadDeletedCoinbaseLockups(db, h) })
			}
		}, []func() proto.Message{pm[types.ProtoKeys](), pm[types.ProtoKeysAndValues]()}},
		{"coinbaseLockup", func(t *rapid.T, db locDB, g *gen.Tags) func() {
			owner, miner := gen.Address(t, "o", zoneLoc), gen.Address(t, "m", zoneLoc)
			lb, ep := byte(rapid.IntRange(0, 3).Draw(t, "lb")), gen.U32(t, "ep")
			delegate := common.Zero
			if rapid.Bool().Draw(t, "delegate") {
				delegate = gen.Address(t, "d", zoneLoc)
			}
			if _, err := rawdb.WriteCoinbaseLockup(db, owner, miner, lb, ep, gen.Big(t, "amt", 255), gen.U32(t, "h"), gen.U16(t, "el"), delegate); err != nil {
				t.Fatalf("HARNESS: %v", err)
			}
			return func() {
				step(func() { b := db.NewBatch(); b.SetPending(true); rawdb.ReadCoinbaseLockup(db, b, owner, miner, lb, ep) })
			}
		}, nil},
		{"scalars", func(t *rapid.T, db locDB, g *gen.Tags) func() {
			h, idx := gen.Hash(t, "h"), gen.U16(t, "i")
			rawdb.WriteUTXOSetSize(db, h, gen.U64(t, "sz"))
			rawdb.WriteLastTrimmedBlock(db, h, gen.U64(t, "lt"))
			rawdb.WriteUtxoToBlockHeight(db, h, idx, gen.U32(t, "bh"))
			rawdb.WriteAlreadyPruned(db, h)
			rawdb.WriteProcessedState(db, h)
			rawdb.WriteHeaderNumber(db, h, gen.U64(t, "n"))
			rawdb.WriteDatabaseVersion(db, gen.U64(t, "v"))
			rawdb.WriteTxLookupEntries(db, gen.U64(t, "ln"), []common.Hash{h})
			rawdb.WriteHeadHeaderHash(db, h)
			rawdb.WriteSupplyAnalyticsForBlock(db, db, h, common.Hash{}, gen.Big(t, "a", 200), big.NewInt(1), gen.Big(t, "c", 200), big.NewInt(1))
			rawdb.WriteChainConfig(db, h, storeChainCfg)
			return func() {
				step(func() { rawdb.ReadUTXOSetSize(db, h) })
				step(func() { rawdb.ReadLastTrimmedBlock(db, h) })
				step(func() { rawdb.ReadUtxoToBlockHeight(db, h, idx) })
				step(func() { rawdb.ReadAlreadyPruned(db, h); rawdb.ReadProcessedState(db, h) })
				step(func() { rawdb.ReadHeaderNumber(db, h) })
				step(func() { rawdb.ReadDatabaseVersion(db) })
				step(func() { rawdb.ReadTxLookupEntry(db, h) })
				step(func() { rawdb.ReadTransaction(db, h) })
				step(func() { rawdb.ReadHeadHeaderHash(db) })
				step(func() { rawdb.ReadSupplyAnalyticsForBlock(db, h) })
				step(func() { rawdb.ReadChainConfig(db, h) })
			}
		}, nil},
	}
}

// roundTrips reports whether b is a canonical encoding of the message type mk makes.
func roundTrips(mk func() proto.Message, b []byte) proto.Message {
	m := mk()
	if proto.Unmarshal(b, m) != nil {
		return nil
	}
	if len(m.ProtoReflect().GetUnknown()) != 0 {
		return nil
	}
	b2, err := proto.Marshal(m)
	if err != nil || len(b2) != len(b) {
		return nil
	}
	return m
}

func TestC15A_RawDB(t *testing.T) {
	items := storeItems()
	defer surveyDump(t)
	rapid.Check(t, func(rt *rapid.T) {
		it := items[rapid.IntRange(0, len(items)-1).Draw(rt, "item")]
		g := &gen.Tags{}
		db := locDB{rawdb.NewMemoryDatabase(logger), zoneLoc}
		read := it.write(rt, db, g)
		stored := snapshotDB(db)
		keys := make([]string, 0, len(stored))
		for k := range stored {
			keys = append(keys, k)
		}
		sort.Strings(keys)
		deepPoke = false
		defer func() { deepPoke = true }()

		try := func(key string, val []byte, how, sig string) {
			db.Put([]byte(key), val)
			p := &probe{part: "rawdb", entry: "rawdb/" + it.name, input: val, note: how, extra: map[string]any{"key_hex": hx([]byte(key))}}
			p.run(rt, read)
			lbl := "survived"
			if lastCrash != nil {
				lbl = "crashed"
			}
			stats.Case("rawdb", it.name+"|"+sig, true, "item:"+it.name, lbl, "how:"+how[:min(len(how), 12)])
			db.Put([]byte(key), stored[key])
		}
		// the untouched store must read back without a crash
		{
			p := &probe{part: "rawdb", entry: "rawdb/" + it.name, note: "valid store"}
			p.run(rt, read)
			stats.Case("rawdb", it.name+"|valid", true, "item:"+it.name, "valid")
		}
		for _, k := range keys {
			val := stored[k]
			kid := fmt.Sprintf("k%x", k[:min(len(k), 2)])
			// arbitrary replacements
			try(k, []byte{}, "empty value", kid+":empty")
			try(k, []byte{0x00}, "one zero byte", kid+":zero")
			try(k, []byte{0xff}, "one 0xff byte", kid+":ff")
			try(k, rapid.SliceOfN(rapid.Byte(), 1, 80).Draw(rt, "raw"), "random bytes", kid+":random")
			for i := 0; i < 3; i++ {
				b, how := mutateBytes(rt, val)
				if bytes.Equal(b, val) {
					continue
				}
				try(k, b, "bytes:"+how, kid+":bytes:"+how)
			}
			// every single structural mutation where the proto type is known
			for _, mk := range it.protoTypes {
				root := roundTrips(mk, val)
				if root == nil {
					continue
				}
				muts := enumerate(root, enumOpts{addAbsent: true})
				// very wide values (e.g. the fixed-size token choice set): an evenly spaced sample
				const maxMuts = 300
				if len(muts) > maxMuts {
					off := rapid.IntRange(0, len(muts)/maxMuts).Draw(rt, "stride_off")
					var sel []*mutation
					for i := off; i < len(muts); i += len(muts)/maxMuts + 1 {
						sel = append(sel, muts[i])
					}
					muts = sel
					stats.Label("rawdb", "struct:sampled")
				}
				for _, mu := range muts {
					b, err := proto.Marshal(mutate(root, mu))
					if err != nil {
						continue
					}
					try(k, b, "struct:"+mu.String(), kid+":"+mu.sig())
				}
				break
			}
		}
	})
}
