package c15

import (
	"context"
	"fmt"
	"math/big"
	"os"
	"reflect"
	"sync"
	"time"

	"github.com/dominant-strategies/go-quai/cmd/utils"
	"github.com/dominant-strategies/go-quai/common"
	"github.com/dominant-strategies/go-quai/core"
	"github.com/dominant-strategies/go-quai/core/rawdb"
	"github.com/dominant-strategies/go-quai/ethdb"
	"github.com/dominant-strategies/go-quai/node"
	mock_p2p "github.com/dominant-strategies/go-quai/p2p/mocks"
	"github.com/dominant-strategies/go-quai/p2p/node/pubsubManager"
	"github.com/dominant-strategies/go-quai/params"
	"github.com/dominant-strategies/go-quai/quai"
	"github.com/dominant-strategies/go-quai/quai/quaiconfig"
	"github.com/dominant-strategies/go-quai/rpc"
	p2pcore "github.com/libp2p/go-libp2p/core"
	"github.com/libp2p/go-libp2p/core/crypto"
	"github.com/libp2p/go-libp2p/core/peer"
	"github.com/spf13/viper"
	"go.uber.org/mock/gomock"
)

// A real zone-0-0 service assembled the way cmd/utils does it: node.New + quai.New (which builds
// core.Core, the transaction pool, the production QuaiAPIBackend and registers every RPC
// service), the production quai.QuaiBackend as consensus API of a real PubsubManager (offline
// gomock libp2p host), and an in-process JSON-RPC client. Only the networking API handed to
// quai.New is a stub (there is no network). The chain stays at genesis.

// locDB makes a memory database report a node location (memorydb reports nil).
type locDB struct {
	ethdb.Database
	loc common.Location
}

func (d locDB) Location() common.Location { return d.loc }

type stubNet struct{}

func (stubNet) Start() error                                            { return nil }
func (stubNet) Stop() error                                             { return nil }
func (stubNet) Subscribe(common.Location, interface{}) error            { return nil }
func (stubNet) Unsubscribe(common.Location, interface{}) error          { return nil }
func (stubNet) Broadcast(common.Location, interface{}) error            { return nil }
func (stubNet) SetConsensusBackend(quai.ConsensusAPI)                   {}
func (stubNet) PeerCount() uint                                         { return 0 }
func (stubNet) PeerCountByDirection() (uint, uint)                      { return 0, 0 }
func (stubNet) AdjustPeerQuality(p2pcore.PeerID, string, func(int) int) {}
func (stubNet) ProtectPeer(p2pcore.PeerID)                              {}
func (stubNet) UnprotectPeer(p2pcore.PeerID)                            {}
func (stubNet) BanPeer(p2pcore.PeerID)                                  {}
func (stubNet) Request(common.Location, interface{}, interface{}) chan interface{} {
	ch := make(chan interface{}, 1)
	close(ch)
	return ch
}

type fullNode struct {
	stack   *node.Node
	quai    *quai.Quai
	core    *core.Core
	backend *quai.QuaiBackend
	pubsub  *pubsubManager.PubsubManager
	client  *rpc.Client
	peer    peer.ID
	dir     string
}

var (
	theNode     *fullNode
	theNodeErr  error
	theNodeOnce sync.Once
)

type fataler interface {
	Fatalf(format string, args ...any)
}

func getNode(t fataler) *fullNode {
	theNodeOnce.Do(func() { theNode, theNodeErr = startFullNode() })
	if theNodeErr != nil {
		t.Fatalf("HARNESS: cannot start the zone service: %v", theNodeErr)
	}
	return theNode
}

// gomock wants a TestReporter; a failing expectation is a harness problem.
type mockReporter struct{}

func (mockReporter) Errorf(format string, args ...any) {
	panic("HARNESS gomock: " + fmt.Sprintf(format, args...))
}
func (mockReporter) Fatalf(format string, args ...any) {
	panic("HARNESS gomock: " + fmt.Sprintf(format, args...))
}

func startFullNode() (fn *fullNode, err error) {
	defer func() {
		if r := recover(); r != nil {
			err = fmt.Errorf("panic while starting: %v", r)
		}
	}()
	dir, err := os.MkdirTemp("", "c15node")
	if err != nil {
		return nil, err
	}
	viper.Set(utils.EnvironmentFlag.Name, params.LocalName)
	viper.Set(utils.GenesisNonce.Name, "0x0123456789abcdef0123456789abcdef")

	ncfg := node.DefaultConfig
	ncfg.Name = "c15"
	ncfg.DataDir = dir
	ncfg.HTTPHost, ncfg.WSHost = "", ""
	ncfg.NodeLocation = zoneLoc
	stack, err := node.New(&ncfg, logger)
	if err != nil {
		return nil, fmt.Errorf("node.New: %w", err)
	}
	gen := &core.Genesis{
		Config:     &params.ChainConfig{ChainID: big.NewInt(1337), ConsensusEngine: "blake3", Blake3Pow: new(params.Blake3powConfig), Location: zoneLoc},
		Nonce:      0,
		ExtraData:  []byte{},
		GasLimit:   12000000,
		Difficulty: big.NewInt(64),
		Timestamp:  1700000000,
	}
	// the expected genesis hash is part of the configuration: compute it on a scratch database
	_, ghash, err := core.SetupGenesisBlockWithOverride(locDB{rawdb.NewMemoryDatabase(logger), zoneLoc}, gen, 0, nil, zoneLoc, 0, logger)
	if err != nil {
		return nil, fmt.Errorf("genesis: %w", err)
	}
	cfg := quaiconfig.Defaults
	cfg.Genesis = gen
	cfg.DefaultGenesisHash = ghash
	cfg.NodeLocation = zoneLoc
	cfg.SlicesRunning = []common.Location{zoneLoc}
	cfg.ConsensusEngine = "blake3"
	cfg.PowConfig = params.PowConfig{PowMode: params.ModeNormal, DurationLimit: big.NewInt(5), GasCeil: 50000000, MinDifficulty: big.NewInt(16), NodeLocation: zoneLoc}
	cfg.Miner.QuaiCoinbase = common.HexToAddress("0x0000000000000000000000000000000000000001", zoneLoc)
	cfg.Miner.QiCoinbase = common.HexToAddress("0x0080000000000000000000000000000000000001", zoneLoc)
	cfg.Miner.Recommit = time.Hour
	cfg.TxPool.Journal = ""
	cfg.DatabaseCache, cfg.TrieCleanCache, cfg.TrieDirtyCache, cfg.SnapshotCache = 16, 16, 16, 0
	cfg.TrieCleanCacheJournal, cfg.ETXTrieCleanCacheJournal = "", ""
	cfg.RPCTxFeeCap = 1
	cfg.RpcVersion = "v2"
	q, err := quai.New(stack, stubNet{}, &cfg, common.ZONE_CTX, 0, 0, nil, logger, 100)
	if err != nil {
		return nil, fmt.Errorf("quai.New: %w", err)
	}
	if err := stack.Start(); err != nil {
		return nil, fmt.Errorf("node start: %w", err)
	}
	client, err := stack.Attach()
	if err != nil {
		return nil, fmt.Errorf("attach: %w", err)
	}

	// consensus API: the production QuaiBackend with the production API backend for zone 0-0.
	// The parameter type *quaiapi.Backend lives in an internal package; it is built by reflection.
	qbe, err := quai.NewQuaiBackend()
	if err != nil {
		return nil, err
	}
	qbe.SetP2PApiBackend(stubNet{})
	set := reflect.ValueOf(qbe).MethodByName("SetApiBackend")
	ptr := reflect.New(set.Type().In(0).Elem())
	ptr.Elem().Set(reflect.ValueOf(q.APIBackend))
	set.Call([]reflect.Value{ptr, reflect.ValueOf(zoneLoc)})

	// pubsub manager on the repository's gomock host (notes/spike_gossip_test.go.txt)
	ctrl := gomock.NewController(mockReporter{})
	privKey, pubKey, _ := crypto.GenerateKeyPair(crypto.Secp256k1, 256)
	peerID, _ := peer.IDFromPublicKey(pubKey)
	mockHost := mock_p2p.NewMockHost(ctrl)
	mockPeerStore := mock_p2p.NewMockPeerstore(ctrl)
	mockHost.EXPECT().ConnManager().Return(nil).AnyTimes()
	mockHost.EXPECT().ID().Return(peerID).AnyTimes()
	mockHost.EXPECT().Peerstore().Return(mockPeerStore).AnyTimes()
	mockNetwork := mock_p2p.NewMockNetwork(ctrl)
	mockNetwork.EXPECT().Notify(gomock.Any()).Return().AnyTimes()
	mockNetwork.EXPECT().Peers().Return([]peer.ID{peerID}).AnyTimes()
	mockNetwork.EXPECT().ConnsToPeer(peerID).Return(nil).AnyTimes()
	mockHost.EXPECT().SetStreamHandler(gomock.Any(), gomock.Any()).Return().AnyTimes()
	mockHost.EXPECT().Network().Return(mockNetwork).AnyTimes()
	mockPeerStore.EXPECT().PrivKey(peerID).Return(privKey).AnyTimes()
	ps, err := pubsubManager.NewGossipSubManager(context.Background(), mockHost)
	if err != nil {
		return nil, fmt.Errorf("gossipsub: %w", err)
	}
	ps.SetQuaiBackend(qbe)
	return &fullNode{stack: stack, quai: q, core: q.Core(), backend: qbe, pubsub: ps, client: client, peer: peerID, dir: dir}, nil
}
