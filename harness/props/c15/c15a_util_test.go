// C15 part (a) - no input can crash a decoder / pre-validation step or make it allocate memory out
// of proportion to the input (DESIGN.md §4 C15 (a)).
//
// Shared oracle: every call into the code under test goes through (*probe).run, which
//   - recovers a panic (a logger.Fatal is turned into a panic by the harness' ExitFunc) and reports
//     it as a violation whose fingerprint names the root-cause site taken from the panic stack,
//   - bounds runtime.MemStats.TotalAlloc growth by 64*len(input)+8 MiB,
//   - checks that no goroutine outlives the call (pure decoder tests only).
package c15

import (
	"encoding/hex"
	"encoding/json"
	"fmt"
	"io"
	"os"
	"regexp"
	"runtime"
	"runtime/debug"
	"sort"
	"strings"
	"sync"
	"time"

	"github.com/dominant-strategies/go-quai/common"
	"github.com/dominant-strategies/go-quai/log"
	"github.com/sirupsen/logrus"

	"verifharness/stats"
)

var zoneLoc = common.Location{0, 0}

// exitPanic is what a logger.Fatal (-> ExitFunc) panics with inside this package.
type exitPanic struct{ code int }

func quietLogger() *log.Logger {
	l := logrus.New()
	l.SetOutput(io.Discard)
	l.SetLevel(logrus.PanicLevel)
	l.ExitFunc = func(code int) { panic(exitPanic{code}) }
	return l
}

var logger = quietLogger()

func init() { log.Global = logger }

func hx(b []byte) string {
	const max = 1 << 16
	if len(b) > max {
		return hex.EncodeToString(b[:max]) + fmt.Sprintf("...(%d bytes)", len(b))
	}
	return hex.EncodeToString(b)
}

// ---- panic analysis ----------------------------------------------------------------------------

const quaiPrefix = "github.com/dominant-strategies/go-quai/"

// utility packages: a panic whose innermost frame is in one of these is attributed to the first
// caller outside them as well (the root cause is the caller handing over a bad value).
var utilityPkgs = []string{"common.", "hexutil.", "math.", "rlp.", "crypto.", "log.", "memorydb.", "ethdb."}

type frame struct{ fn, where string }

type crash struct {
	value  any
	frames []frame // innermost first, starting below the runtime's panic machinery
	kind   string
	fp     string // fingerprint suffix: <site>/<kind>[@leaf]
	fatal  bool
	stack  string
	site   string // the site-based fingerprint when fp was regrouped
}

var (
	reIdx     = regexp.MustCompile(`index out of range`)
	reSlice   = regexp.MustCompile(`slice bounds out of range`)
	reHexA    = regexp.MustCompile(`0x[0-9a-fA-F]+`)
	reNum     = regexp.MustCompile(`[0-9]+`)
	reClosure = regexp.MustCompile(`(\.func[0-9]+|\.[0-9]+|\.gowrap[0-9]+)+$`)
)

func shortFn(fn string) string {
	if i := strings.LastIndex(fn, "/"); i >= 0 {
		fn = fn[i+1:]
	}
	fn = strings.ReplaceAll(fn, "(*", "")
	fn = strings.ReplaceAll(fn, ")", "")
	// closure numbering depends on inlining decisions: not part of the identity
	fn = reClosure.ReplaceAllString(fn, "")
	return fn
}

func isUtility(short string) bool {
	for _, p := range utilityPkgs {
		if strings.HasPrefix(short, p) {
			return true
		}
	}
	return false
}

func panicKind(v any) string {
	switch x := v.(type) {
	case exitPanic:
		return "fatal"
	case runtime.Error:
		s := x.Error()
		switch {
		case strings.Contains(s, "nil pointer dereference"):
			return "nil-deref"
		case reIdx.MatchString(s):
			return "index-out-of-range"
		case reSlice.MatchString(s):
			return "slice-bounds"
		case strings.Contains(s, "makeslice"):
			return "makeslice"
		case strings.Contains(s, "divide by zero"):
			return "divide-by-zero"
		case strings.Contains(s, "interface conversion"):
			return "type-assertion"
		case strings.Contains(s, "nil map"):
			return "nil-map"
		case strings.Contains(s, "negative shift"):
			return "negative-shift"
		case strings.Contains(s, "cannot convert slice with length"):
			return "slice-to-array"
		}
		return "runtime:" + sanitize(s)
	}
	s := fmt.Sprint(v)
	if strings.Contains(s, "ExitPanic") || strings.Contains(s, "logger.Fatal") {
		return "fatal"
	}
	return "explicit:" + sanitize(s)
}

func sanitize(s string) string {
	s = reHexA.ReplaceAllString(s, "X")
	s = reNum.ReplaceAllString(s, "N")
	s = strings.Map(func(r rune) rune {
		switch {
		case r >= 'a' && r <= 'z', r >= 'A' && r <= 'Z', r == 'N', r == 'X':
			return r
		case r == ' ' || r == '-' || r == '_' || r == ':':
			return '-'
		}
		return -1
	}, s)
	if len(s) > 48 {
		s = s[:48]
	}
	return strings.Trim(s, "-")
}

// analyse turns a recovered value plus debug.Stack() taken inside the deferred function into a
// crash description. The fingerprint is site/kind where site is the innermost go-quai (or third
// party) function below the panic; if that function lives in a utility package (common, rlp,
// hexutil ...) or outside go-quai, the first go-quai caller outside the utility packages is
// named too: caller/kind@leaf.
func analyse(v any, stack []byte) *crash {
	c := analyse0(v, stack)
	regroupHollowHeader(c)
	return c
}

func analyse0(v any, stack []byte) *crash {
	c := &crash{value: v, kind: panicKind(v), stack: string(stack)}
	lines := strings.Split(string(stack), "\n")
	var fr []frame
	for i := 0; i+1 < len(lines); i++ {
		l := lines[i]
		if l == "" || strings.HasPrefix(l, "goroutine ") || strings.HasPrefix(l, "\t") || strings.HasPrefix(l, "created by") {
			continue
		}
		fn := l
		if j := strings.LastIndex(fn, "("); j > 0 {
			fn = fn[:j]
		}
		where := strings.TrimSpace(lines[i+1])
		if j := strings.Index(where, " +0x"); j > 0 {
			where = where[:j]
		}
		fr = append(fr, frame{fn, where})
	}
	// drop everything up to and including the last "panic" frame
	start := 0
	for i, f := range fr {
		if f.fn == "panic" {
			start = i + 1
		}
	}
	fr = fr[start:]
	for len(fr) > 0 && (strings.HasPrefix(fr[0].fn, "runtime.") || strings.HasPrefix(fr[0].fn, "runtime/")) {
		fr = fr[1:]
	}
	// a logger.Fatal: skip the harness ExitFunc closure and the logrus frames
	for len(fr) > 0 && (strings.Contains(fr[0].fn, "sirupsen/logrus") || strings.Contains(fr[0].fn, "quietLogger") || strings.Contains(fr[0].fn, "sim.Logger")) {
		c.fatal = true
		fr = fr[1:]
	}
	if c.fatal {
		c.kind = "fatal"
	}
	// A frame belongs to the harness when its source file does (closures of repository functions
	// inlined into a test keep the test's function-name prefix but the repository's file).
	isHarnessFrame := func(f frame) bool {
		if strings.HasPrefix(f.fn, "testing.") || strings.HasPrefix(f.fn, "pgregory.net/") {
			return true
		}
		return strings.Contains(f.where, "/props/c15/") || strings.Contains(f.where, "/verif/harness/")
	}
	for i, f := range fr {
		if isHarnessFrame(f) {
			fr = fr[:i]
			break
		}
	}
	// repair the names of inlined repository closures
	for i, f := range fr {
		if strings.HasPrefix(f.fn, "verifharness/") {
			name := reInlinedPrefix.ReplaceAllString(f.fn, "")
			dir := f.where
			if j := strings.LastIndex(dir, "/"); j > 0 {
				dir = dir[:j]
			}
			if j := strings.LastIndex(dir, "/"); j >= 0 {
				dir = dir[j+1:]
			}
			fr[i].fn = quaiPrefix + dir + "." + name
		}
	}
	c.frames = fr
	if len(fr) == 0 {
		c.fp = "harness/" + c.kind
		return c
	}
	leaf := shortFn(fr[0].fn)
	site := ""
	// an accessor of a nil *WorkObject says nothing about who failed to check for nil: name the
	// first caller outside the type
	if c.kind == "nil-deref" && strings.HasPrefix(leaf, "types.WorkObject.") {
		for _, f := range fr[1:] {
			s := shortFn(f.fn)
			if strings.HasPrefix(f.fn, quaiPrefix) && !strings.HasPrefix(s, "types.WorkObject.") {
				c.fp = s + "/" + c.kind + "@types.WorkObject"
				return c
			}
		}
	}
	if strings.HasPrefix(fr[0].fn, quaiPrefix) && !isUtility(leaf) {
		c.fp = leaf + "/" + c.kind
		if c.fatal && strings.HasPrefix(leaf, "rawdb.") {
			c.site, c.fp = c.fp, "rawdb/undecodable-stored-value"
		}
		return c
	}
	for _, f := range fr[1:] {
		s := shortFn(f.fn)
		if strings.HasPrefix(f.fn, quaiPrefix) && !isUtility(s) {
			site = s
			break
		}
	}
	// which big.Int method met the nil pointer is noise
	if strings.HasPrefix(leaf, "big.Int.") {
		leaf = "big.Int"
	}
	if site == "" {
		c.fp = leaf + "/" + c.kind
	} else {
		c.fp = site + "/" + c.kind + "@" + leaf
	}
	// one design decision, many accessors: rawdb readers call logger.Fatal on a value they cannot
	// decode (the accessor is named in the message and the dump)
	if c.fatal && strings.HasPrefix(site, "rawdb.") {
		c.site, c.fp = c.fp, "rawdb/undecodable-stored-value"
	}
	return c
}

// A types.Header that went through Header.ProtoDecode has every member set (the decoder checks
// each one); an accessor of Header that meets a nil / empty member is therefore looking at the
// zero-value (or nil) Header a work object body decodes to when the message carries no body
// header. One root cause, named as such.
func regroupHollowHeader(c *crash) {
	if c.kind != "nil-deref" && c.kind != "index-out-of-range" {
		return
	}
	if !strings.HasPrefix(c.fp, "types.Header.") && !strings.HasPrefix(c.fp, "types.CopyHeader") {
		return
	}
	for _, f := range c.frames {
		if strings.Contains(f.fn, "UnmarshalJSON") {
			return
		}
	}
	// Only when the accessor chain was started by the harness (or by the codec layer itself:
	// packages types and pb). A production consumer (core, pubsubManager, quaiapi, quai, rawdb ...)
	// that reaches a header accessor without having checked the body is a missing guard of that
	// consumer and is named after it.
	for _, f := range c.frames {
		s := shortFn(f.fn)
		if !strings.HasPrefix(f.fn, quaiPrefix) || isUtility(s) {
			continue
		}
		if !strings.HasPrefix(s, "types.") && !strings.HasPrefix(s, "pb.") {
			c.fp = s + "/" + c.kind + "@types.Header"
			return
		}
	}
	c.site, c.fp = c.fp, bodyHeaderAbsent
}

const bodyHeaderAbsent = "types.WorkObjectBody.ProtoDecode/body-header-absent"

var reInlinedPrefix = regexp.MustCompile(`^verifharness/props/c15\.[A-Za-z0-9_]+\.`)

func (c *crash) top(n int) []string {
	var out []string
	for i, f := range c.frames {
		if i >= n {
			break
		}
		out = append(out, shortFn(f.fn)+" "+f.where)
	}
	return out
}

// ---- the probe ---------------------------------------------------------------------------------

const (
	allocSlack  = 8 << 20
	allocFactor = 64
)

// probe describes one call of an entry point with one input.
type probe struct {
	part  string
	entry string // production entry point driven
	input []byte
	note  string         // how the input was made (mutation, seed kind)
	extra map[string]any // further dump fields
	// noGoroutineCheck: a live node runs in the background, the goroutine count is not ours
	noGoroutineCheck bool
	// inputLen overrides len(input) in the allocation bound (several values were stored)
	inputLen int
}

func (p *probe) dump(more map[string]any) map[string]any {
	d := map[string]any{"entry": p.entry, "input_hex": hx(p.input), "input_len": len(p.input)}
	if p.note != "" {
		d["how"] = p.note
	}
	for k, v := range p.extra {
		d[k] = v
	}
	for k, v := range more {
		d[k] = v
	}
	return d
}

// Survey mode (development aid, C15_SURVEY=1): every fingerprint is recorded with its first
// input and reported at the end of the test instead of failing at the first one.
var (
	surveyMode = os.Getenv("C15_SURVEY") != ""
	surveyMu   sync.Mutex
	survey     = map[string]string{}
	surveyN    = map[string]int{}
	surveyEx   = map[string]map[string]any{}
)

func surveyDump(t interface{ Logf(string, ...any) }) {
	if !surveyMode {
		return
	}
	surveyMu.Lock()
	defer surveyMu.Unlock()
	var keys []string
	for k := range survey {
		keys = append(keys, k)
	}
	sort.Strings(keys)
	for _, k := range keys {
		t.Logf("SURVEY %s (x%d)\n    %s", k, surveyN[k], survey[k])
	}
	if out := os.Getenv("C15_SURVEY_OUT"); out != "" {
		b, _ := json.MarshalIndent(surveyEx, "", " ")
		os.WriteFile(out, b, 0o644)
	}
}

// report sends a violation; returns true when it is a listed known finding (caller continues).
func (p *probe) report(t stats.TB, fp, msg string, more map[string]any) bool {
	t.Helper()
	if surveyMode {
		surveyMu.Lock()
		if old, ok := surveyEx[fp]; !ok || len(p.input) < old["input_len"].(int) {
			survey[fp] = fmt.Sprintf("%s | how=%s | input=%s | %v", msg, p.note, hx(p.input), more["stack"])
			surveyEx[fp] = p.dump(more)
		}
		surveyN[fp]++
		surveyMu.Unlock()
		return true
	}
	return stats.Violation(t, p.part, fp, msg, p.dump(more))
}

// stepAs is step for a statement transcribed from a production function into the harness: when
// the panic is raised by the transcribed statement itself (no go-quai frame below the harness) it
// is attributed to the production function named by fp.
func stepAs(fp string, f func()) {
	defer func() {
		if r := recover(); r != nil {
			c := analyse(r, debug.Stack())
			if strings.HasPrefix(c.fp, "harness/") {
				c.fp = fp + "/" + c.kind
			}
			stepCrashes = append(stepCrashes, c)
		}
	}()
	f()
}

// lastCrash is the (first) crash seen by the most recent run (nil if none).
var lastCrash *crash

// stepCrashes collects the crashes of the independent post-decode steps of the current run.
var stepCrashes []*crash

// stepGroup, when set, names the root cause every crash of the following steps is attributed to
// (used where the harness knows why the object is incomplete, e.g. a decoder that accepted a
// document without its required members: one root cause, many accessor sites).
var stepGroup string

// step runs one independent post-decode action; a panic in it is recorded and the remaining
// steps still run, so that one (possibly known) crash does not hide the others.
func step(f func()) {
	defer func() {
		if r := recover(); r != nil {
			c := analyse(r, debug.Stack())
			if stepGroup != "" && !strings.HasPrefix(c.fp, "harness/") {
				c.site, c.fp = c.fp, stepGroup
			}
			stepCrashes = append(stepCrashes, c)
		}
	}()
	f()
}

// grouped runs f with stepGroup set.
func grouped(group string, f func()) {
	prev := stepGroup
	stepGroup = group
	defer func() { stepGroup = prev }()
	f()
}

// run executes f under the oracle. It returns false when f crashed or broke a bound (and the
// finding is a known one; otherwise the test has already been failed).
func (p *probe) run(t stats.TB, f func()) (ok bool) {
	t.Helper()

	lastCrash = nil
	stepCrashes = stepCrashes[:0]
	g0 := 0
	if !p.noGoroutineCheck {
		g0 = runtime.NumGoroutine()
	}
	var m0, m1 runtime.MemStats
	runtime.ReadMemStats(&m0)
	var cr *crash
	func() {
		defer func() {
			if r := recover(); r != nil {
				cr = analyse(r, debug.Stack())
			}
		}()
		f()
	}()
	runtime.ReadMemStats(&m1)
	ok = true
	crashes := append([]*crash(nil), stepCrashes...)
	if cr != nil {
		crashes = append(crashes, cr)
	}
	seen := map[string]bool{}
	for _, cr := range crashes {
		if lastCrash == nil {
			lastCrash = cr
		}
		ok = false
		if seen[cr.fp] {
			continue
		}
		seen[cr.fp] = true
		if strings.HasPrefix(cr.fp, "harness/") {
			t.Fatalf("HARNESS: panic inside the harness while driving %s: %v\n%s", p.entry, cr.value, cr.stack)
		}
		class := "panic"
		what := fmt.Sprintf("panic: %v", cr.value)
		if cr.fatal {
			class = "fatal"
			what = "logger.Fatal (the node would exit)"
		}
		p.report(t, "C15/"+class+"/"+cr.fp, fmt.Sprintf("%s driven with a %d-byte input: %s; at %s", p.entry, len(p.input), what, strings.Join(cr.top(3), " <- ")),
			map[string]any{"panic": fmt.Sprint(cr.value), "stack": cr.top(14), "site": cr.site})
	}
	n := len(p.input)
	if p.inputLen > 0 {
		n = p.inputLen
	}
	if delta := m1.TotalAlloc - m0.TotalAlloc; delta > uint64(allocFactor*n+allocSlack) {
		ok = false
		p.report(t, "C15/alloc/"+p.entry, fmt.Sprintf("%s allocated %d bytes for a %d-byte input (bound %d)", p.entry, delta, n, allocFactor*n+allocSlack),
			map[string]any{"alloc": delta})
	}
	if !p.noGoroutineCheck {
		g1 := runtime.NumGoroutine()
		for i := 0; g1 > g0 && i < 40; i++ {
			runtime.Gosched()
			time.Sleep(time.Duration(i/4+1) * time.Millisecond)
			g1 = runtime.NumGoroutine()
		}
		if g1 > g0 {
			ok = false
			buf := make([]byte, 1<<16)
			buf = buf[:runtime.Stack(buf, true)]
			p.report(t, "C15/goroutine-leak/"+p.entry, fmt.Sprintf("%s left %d goroutine(s) running after it returned", p.entry, g1-g0),
				map[string]any{"goroutines": string(buf)})
		}
	}
	return ok
}

// exact returns a copy of b whose capacity equals its length, so that code slicing past the end
// of its input panics instead of silently reading the spare capacity.
func exact(b []byte) []byte {
	c := make([]byte, len(b))
	copy(c, b)
	return c
}

// known reports (and counts) that the input class behind fp is excluded by construction.
func known(fp string) bool {
	if stats.IsKnown(fp) {
		stats.Excluded(fp)
		return true
	}
	return false
}
