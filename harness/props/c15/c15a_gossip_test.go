package c15

import (
	"context"
	"fmt"
	"math/big"
	"runtime"
	"strings"
	"testing"
	"time"

	"github.com/dominant-strategies/go-quai/common"
	"github.com/dominant-strategies/go-quai/core/types"
	"github.com/dominant-strategies/go-quai/p2p/node/pubsubManager"
	"github.com/dominant-strategies/go-quai/p2p/pb"
	pubsub "github.com/libp2p/go-libp2p-pubsub"
	pubsubpb "github.com/libp2p/go-libp2p-pubsub/pb"
	"google.golang.org/protobuf/proto"
	"pgregory.net/rapid"

	"verifharness/gen"
	"verifharness/stats"
)

// The real gossip validator (PubsubManager.ValidatorFunc) of a pubsub manager whose consensus
// backend is the production quai.QuaiBackend over the live zone node: SanityCheck*Body,
// ApplyPoWFilter, the share checks and the AuxPoW coinbase extraction all run for real. A message
// the validator accepts is then handled like the subscription worker does: decoded with
// pb.UnmarshalAndConvert for the topic's location and handed to QuaiBackend.OnNewBroadcast.

type topicKind struct {
	name     string
	datatype interface{}
}

var topicKinds = []topicKind{
	{"blocks", &types.WorkObjectBlockView{}},
	{"headers", &types.WorkObjectHeaderView{}},
	{"worksharev2", &types.WorkObjectShareView{}},
	{"auxtemplate", &types.AuxTemplate{}},
}

var resultNames = map[pubsub.ValidationResult]string{pubsub.ValidationAccept: "accept", pubsub.ValidationReject: "reject", pubsub.ValidationIgnore: "ignore"}

// easyWo makes a generated work object as acceptable as the chain at genesis allows without
// mining: body roots consistent, zone location, no manifest / interlinks, difficulty 1, lock 0.
func easyWo(t *rapid.T, wo *types.WorkObject) *types.WorkObject {
	wh := wo.WorkObjectHeader()
	wh.SetLocation(zoneLoc)
	wh.SetLock(0)
	if rapid.Bool().Draw(t, "easy_difficulty") {
		wh.SetDifficulty(big.NewInt(int64(rapid.IntRange(1, 3).Draw(t, "difficulty"))))
	}
	wh.SetNumber(big.NewInt(int64(rapid.IntRange(1, 6).Draw(t, "number"))))
	cb := wh.PrimaryCoinbase().Bytes20()
	cb[0], cb[1] = 0, cb[1]&0x7f // a Quai address of zone 0-0
	wh.SetPrimaryCoinbase(common.BytesToAddress(cb[:], zoneLoc))
	b := wo.Body()
	wo2 := types.NewWorkObject(wh, nil, wo.Tx()).WithBody(b.Header(), b.Transactions(), b.OutboundEtxs(), nil, nil, nil)
	consistentWo(wo2)
	wo2.WorkObjectHeader().SetHeaderHash(wo2.Body().Header().Hash())
	return wo2
}

func TestC15A_Gossip(t *testing.T) {
	n := getNode(t)
	v := n.pubsub.ValidatorFunc()
	topics := map[string]string{}
	for _, k := range topicKinds {
		tp, err := pubsubManager.NewTopic(n.pubsub.GetGenesis(), zoneLoc, k.datatype)
		if err != nil {
			t.Fatalf("HARNESS: topic: %v", err)
		}
		topics[k.name] = tp.String()
	}
	g0 := runtime.NumGoroutine()
	defer surveyDump(t)

	deliver := func(rt *rapid.T, k topicKind, data []byte, how, sig string, tags ...string) {
		ts := topics[k.name]
		data = exact(data)
		p := &probe{part: "gossip", entry: "gossip/" + k.name, input: data, note: how, noGoroutineCheck: true}
		res := pubsub.ValidationResult(-1)
		handled := false
		p.run(rt, func() {
			res = v(context.Background(), n.peer, &pubsub.Message{Message: &pubsubpb.Message{Data: data, Topic: &ts}, ReceivedFrom: n.peer})
			if res != pubsub.ValidationAccept {
				return
			}
			// pubsubManager.Subscribe's worker + P2PNode.handleBroadcast + QuaiBackend.OnNewBroadcast
			var obj interface{}
			if err := pb.UnmarshalAndConvert(data, zoneLoc, &obj, k.datatype); err != nil {
				return
			}
			switch x := obj.(type) {
			case types.WorkObjectHeaderView:
				_, _ = x.Time(), x.Hash()
			case types.WorkObjectBlockView:
				_, _ = x.Time(), x.Hash()
			}
			n.backend.OnNewBroadcast(n.peer, "id", ts, obj, zoneLoc)
			handled = true
		})
		lbl := "result:" + resultNames[res]
		if lastCrash != nil {
			lbl = "crashed"
		}
		lbls := append([]string{"topic:" + k.name, lbl}, tags...)
		if handled {
			lbls = append(lbls, "handled")
		}
		stats.Case("gossip", k.name+"|"+sig+"|"+lbl, res == pubsub.ValidationAccept || res == pubsub.ValidationIgnore || lastCrash != nil || strings.HasPrefix(sig, "struct"), lbls...)
	}

	rapid.Check(t, func(rt *rapid.T) {
		g := &gen.Tags{}
		deepPoke = false
		defer func() { deepPoke = true }()
		switch k := rapid.IntRange(0, 9).Draw(rt, "kind"); {
		case k == 0:
			b := rapid.SliceOfN(rapid.Byte(), 0, 200).Draw(rt, "raw")
			for _, tk := range topicKinds {
				deliver(rt, tk, b, "random", "random")
			}
		case k <= 2:
			// aux templates: valid, every single mutation, byte mutations; a fresh signature time
			at := gen.AuxTemplate(rt, "at", g)
			if rapid.Bool().Draw(rt, "fresh") {
				at.SetSignatureTime(uint32(time.Now().Unix()))
			}
			root := at.ProtoEncode()
			b, _ := proto.Marshal(root)
			deliver(rt, topicKinds[3], b, "valid aux template", "valid")
			for _, mu := range enumerate(root, enumOpts{addAbsent: true}) {
				if mb, err := proto.Marshal(mutate(root, mu)); err == nil {
					deliver(rt, topicKinds[3], mb, "auxtemplate "+mu.String(), "struct:"+mu.sig())
				}
			}
			for _, tk := range topicKinds[:3] {
				deliver(rt, tk, b, "aux template on a work object topic", "confused")
			}
		default:
			wo := easyWo(rt, genWo(rt, g))
			var root *types.ProtoWorkObject
			var err error
			native := rapid.IntRange(0, 2).Draw(rt, "view")
			switch native {
			case 0:
				root, err = wo.ProtoEncode(types.BlockObject)
			case 1:
				root, err = wo.ConvertToHeaderView().WorkObject.ProtoEncode(types.HeaderObject)
			default:
				root, err = wo.ConvertToWorkObjectShareView(wo.Transactions()).WorkObject.ProtoEncode(types.WorkShareTxObject)
			}
			if err != nil {
				rt.Fatalf("HARNESS: encode: %v", err)
			}
			send := func(m *types.ProtoWorkObject, all bool, how, sig string) {
				b, err := proto.Marshal(&types.ProtoWorkObjectBlockView{WorkObject: m})
				if err != nil {
					return
				}
				for i, tk := range topicKinds[:3] {
					if all || i == native {
						deliver(rt, tk, b, how, sig, "native:"+topicKinds[native].name)
					}
				}
			}
			send(root, true, "valid "+topicKinds[native].name, "valid")
			for _, mu := range enumerate(root, enumOpts{addAbsent: true}) {
				send(mutate(root, mu).(*types.ProtoWorkObject), structural(mu.op), topicKinds[native].name+" "+mu.String(), "struct:"+mu.sig())
			}
			// hostile locations: the validator decodes with the location the message itself names
			for _, loc := range [][]byte{{}, {0}, {3, 3}, {0, 0, 0}, {255, 255}, make([]byte, 64)} {
				m := proto.Clone(root).(*types.ProtoWorkObject)
				m.WoHeader.Location = &common.ProtoLocation{Value: loc}
				send(m, true, fmt.Sprintf("location %x", loc), "location")
			}
		}
	})
	// no goroutine may be left behind per message: compare the population after the run
	for i := 0; i < 50 && runtime.NumGoroutine() > g0+16; i++ {
		time.Sleep(20 * time.Millisecond)
	}
	if g1 := runtime.NumGoroutine(); g1 > g0+16 {
		p := &probe{part: "gossip", entry: "gossip"}
		p.report(t, "C15/goroutine-leak/gossip", fmt.Sprintf("goroutines grew from %d to %d while validating gossip", g0, g1), nil)
	}
}

func newTopic(n *fullNode, k topicKind) (string, error) {
	tp, err := pubsubManager.NewTopic(n.pubsub.GetGenesis(), zoneLoc, k.datatype)
	if err != nil {
		return "", err
	}
	return tp.String(), nil
}
