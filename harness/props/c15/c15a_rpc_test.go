package c15

import (
	"context"
	"encoding/json"
	"fmt"
	"reflect"
	"sort"
	"strings"
	"testing"
	"time"

	"github.com/dominant-strategies/go-quai/common"
	"github.com/dominant-strategies/go-quai/common/hexutil"
	"github.com/dominant-strategies/go-quai/core/types"
	"google.golang.org/protobuf/proto"
	"pgregory.net/rapid"

	"verifharness/gen"
	"verifharness/stats"
)

// The RPC services of the live zone node (c15a_node_test.go) - exactly the objects the JSON-RPC
// server dispatches to - driven method by method: every argument is decoded from JSON text into
// the method's parameter type (the decoders of common, hexutil, rpc, filters and the argument
// structs of internal/quaiapi) and, when all arguments decode, the handler is invoked. Handlers
// are called directly instead of through the server so that a panic reaches the probe with its
// stack (the server would turn it into "method handler crashed").

type rpcMethod struct {
	name   string // namespace_method (method name lower-cased first letter)
	fn     reflect.Value
	params []reflect.Type // without receiver and context
	hasCtx bool
}

var ctxType = reflect.TypeOf((*context.Context)(nil)).Elem()

// methods never invoked: they change the node's configuration, write files or subscribe.
var rpcDeny = map[string]bool{
	"quai_setWorkShareP2PThreshold": true,
}

var rpcNamespaces = map[string]bool{"quai": true, "txpool": true, "net": true, "workshare": true, "debug": true}

func rpcMethods(n *fullNode) []rpcMethod {
	var out []rpcMethod
	seen := map[string]bool{}
	for _, api := range n.quai.APIs() {
		if !api.Public || !rpcNamespaces[api.Namespace] {
			continue
		}
		v := reflect.ValueOf(api.Service)
		ty := v.Type()
	next:
		for i := 0; i < ty.NumMethod(); i++ {
			m := ty.Method(i)
			name := api.Namespace + "_" + strings.ToLower(m.Name[:1]) + m.Name[1:]
			if seen[name] || rpcDeny[name] {
				continue
			}
			rm := rpcMethod{name: name, fn: v.Method(i)}
			for j := 1; j < m.Type.NumIn(); j++ {
				in := m.Type.In(j)
				if j == 1 && in == ctxType {
					rm.hasCtx = true
					continue
				}
				rm.params = append(rm.params, in)
			}
			for j := 0; j < m.Type.NumOut(); j++ {
				if strings.Contains(m.Type.Out(j).String(), "rpc.Subscription") {
					continue next
				}
			}
			seen[name] = true
			out = append(out, rm)
		}
	}
	sort.Slice(out, func(i, j int) bool { return out[i].name < out[j].name })
	return out
}

// ---- argument generation ------------------------------------------------------------------------

type argGen struct {
	t       *rapid.T
	n       *fullNode
	genesis common.Hash
}

func (a *argGen) addr(label string) string {
	b := gen.AddressBytes(a.t, label, zoneLoc)
	return hexutil.Encode(b[:])
}

// valid returns JSON text of a plausible value of type ty.
func (a *argGen) valid(ty reflect.Type, label string, depth int) []byte {
	j := func(v interface{}) []byte { b, _ := json.Marshal(v); return b }
	switch ty.String() {
	case "hexutil.Bytes":
		return j(hexutil.Bytes(gen.Bytes(a.t, label, 40)))
	case "common.Hash":
		if rapid.Bool().Draw(a.t, label+"_genesis") {
			return j(a.genesis)
		}
		return j(gen.Hash(a.t, label))
	case "common.Address", "common.MixedcaseAddress", "common.AddressBytes":
		return j(a.addr(label))
	case "rpc.BlockNumber":
		return []byte([]string{`"latest"`, `"0x0"`, `"pending"`, `"earliest"`, `"0x1"`}[rapid.IntRange(0, 4).Draw(a.t, label)])
	case "rpc.BlockNumberOrHash":
		switch rapid.IntRange(0, 3).Draw(a.t, label) {
		case 0:
			return []byte(`"latest"`)
		case 1:
			return []byte(`"0x0"`)
		case 2:
			return j(map[string]interface{}{"blockHash": a.genesis})
		default:
			return j(a.genesis)
		}
	case "hexutil.Uint64", "hexutil.Uint":
		return j(hexutil.Uint64(rapid.Uint64Range(0, 5).Draw(a.t, label)))
	case "hexutil.Big":
		return j((*hexutil.Big)(gen.Big(a.t, label, 128)))
	case "rpc.ID":
		return []byte(`"0x1234"`)
	case "common.Location":
		return []byte(`[0,0]`)
	case "filters.FilterCriteria":
		return j(map[string]interface{}{"fromBlock": "0x0", "toBlock": "latest", "address": []string{a.addr(label)}, "topics": []interface{}{}})
	case "types.AccessList":
		return j(gen.AccessList(a.t, label, zoneLoc, nil))
	case "types.WorkObjectHeader":
		return j(gen.WorkObjectHeader(a.t, label, zoneLoc, gen.WoOpts{Regime: gen.AnyRegime, AuxPow: -1}, nil).RPCMarshalWorkObjectHeader("v2"))
	}
	if depth > 4 {
		return []byte("null")
	}
	switch ty.Kind() {
	case reflect.Ptr:
		return a.valid(ty.Elem(), label, depth)
	case reflect.Bool:
		return j(rapid.Bool().Draw(a.t, label))
	case reflect.String:
		return j([]string{"0x0", "kawpow", "0x" + strings.Repeat("00", 32), "", "0x01020304"}[rapid.IntRange(0, 4).Draw(a.t, label)])
	case reflect.Int, reflect.Int64, reflect.Int32, reflect.Uint8, reflect.Uint16, reflect.Uint32, reflect.Uint64, reflect.Uint:
		return j(rapid.IntRange(0, 8).Draw(a.t, label))
	case reflect.Slice:
		if ty.Elem().Kind() == reflect.Uint8 {
			return j(gen.Bytes(a.t, label, 20)) // base64 as encoding/json expects for []byte
		}
		n := rapid.IntRange(0, 2).Draw(a.t, label+"_n")
		parts := make([]json.RawMessage, n)
		for i := range parts {
			parts[i] = a.valid(ty.Elem(), fmt.Sprintf("%s_%d", label, i), depth+1)
		}
		return j(parts)
	case reflect.Map:
		m := map[string]json.RawMessage{}
		if rapid.Bool().Draw(a.t, label+"_entry") {
			key := a.addr(label + "_k")
			if ty.Key().String() == "common.Hash" {
				key = gen.Hash(a.t, label+"_k").Hex()
			}
			m[key] = a.valid(ty.Elem(), label+"_v", depth+1)
		}
		return j(m)
	case reflect.Struct:
		m := map[string]json.RawMessage{}
		for i := 0; i < ty.NumField(); i++ {
			f := ty.Field(i)
			if !f.IsExported() {
				continue
			}
			name := strings.Split(f.Tag.Get("json"), ",")[0]
			if name == "-" {
				continue
			}
			if name == "" {
				name = f.Name
			}
			// optional members are present two times out of three
			if rapid.IntRange(0, 2).Draw(a.t, label+"_"+name+"_present") == 0 {
				continue
			}
			m[name] = a.valid(f.Type, label+"_"+name, depth+1)
		}
		return j(m)
	case reflect.Interface:
		return []byte("null")
	}
	return []byte("null")
}

// rawProtoSeed: for the methods that take protobuf bytes, a valid message of the right type.
func rawProtoSeed(t *rapid.T, method string) (proto.Message, bool) {
	enc := func(m proto.Message, err error) (proto.Message, bool) {
		if err != nil {
			t.Fatalf("HARNESS: %v", err)
		}
		return m, true
	}
	switch method {
	case "quai_sendRawTransaction", "quai_receiveTxFromPoolSharingClient":
		return enc(gen.Tx(t, zoneLoc, -1, nil).ProtoEncode())
	case "quai_receiveMinedHeader", "quai_calcOrder":
		return enc(genWo(t, nil).ConvertToPEtxView().ProtoEncode(types.PEtxObject))
	case "quai_receiveRawWorkShare":
		return enc(gen.WorkObjectHeader(t, "wh", zoneLoc, gen.WoOpts{Regime: gen.AnyRegime, AuxPow: -1}, nil).ProtoEncode())
	case "workshare_receiveSubWorkshare":
		wo := genWo(t, nil)
		return enc(wo.ConvertToWorkObjectShareView(wo.Transactions()).WorkObject.ProtoEncode(types.WorkShareTxObject))
	case "quai_submitAuxTemplate", "quai_signAuxTemplate":
		return gen.AuxTemplate(t, "at", nil).ProtoEncode(), true
	}
	return nil, false
}

func hexJSON(b []byte) []byte { j, _ := json.Marshal(hexutil.Bytes(b)); return j }

// ---- the call ----------------------------------------------------------------------------------

// callRPC decodes the JSON arguments and invokes the handler. stage: 1 an argument was rejected,
// 2 the handler ran.
func callRPC(m rpcMethod, args [][]byte, group string) int {
	in := make([]reflect.Value, 0, len(m.params)+1)
	if m.hasCtx {
		in = append(in, reflect.ValueOf(context.Background()))
	}
	for i, ty := range m.params {
		raw := []byte("null")
		if i < len(args) {
			raw = args[i]
		}
		// like rpc.parsePositionalArguments: null / missing is only acceptable for pointers
		if string(raw) == "null" {
			if ty.Kind() != reflect.Ptr {
				return 1
			}
			in = append(in, reflect.Zero(ty))
			continue
		}
		v := reflect.New(ty)
		if err := json.Unmarshal(raw, v.Interface()); err != nil {
			return 1
		}
		in = append(in, v.Elem())
	}
	var out []reflect.Value
	if group != "" {
		grouped(group, func() { step(func() { out = m.fn.Call(in) }) })
	} else {
		out = m.fn.Call(in)
	}
	// results are serialised into the response
	for _, o := range out {
		if o.CanInterface() {
			step(func() { json.Marshal(o.Interface()) })
		}
	}
	return 2
}

func TestC15A_RPC(t *testing.T) {
	n := getNode(t)
	methods := rpcMethods(n)
	if len(methods) < 80 {
		t.Fatalf("HARNESS: only %d RPC methods found", len(methods))
	}
	genesis := n.core.CurrentHeader().Hash()
	defer surveyDump(t)

	// watchdog: a handler that never returns cannot be recovered from
	var current string
	busy := make(chan string, 1)
	done := make(chan struct{}, 1)
	go func() {
		for name := range busy {
			select {
			case <-done:
			case <-time.After(120 * time.Second):
				panic("HARNESS: RPC handler " + name + " did not return within 120 s (" + current + ")")
			}
		}
	}()
	defer close(busy)

	// a handler that takes a JSON work object header receives whatever WorkObjectHeader.UnmarshalJSON
	// let through: crashes on mutated documents are that decoder's "accepts incomplete object"
	groupFor := func(m rpcMethod, how string) string {
		if strings.HasPrefix(how, "arg ") {
			for _, ty := range m.params {
				if ty.String() == "*types.WorkObjectHeader" {
					return "WorkObjectHeader.UnmarshalJSON/accepts-incomplete-object"
				}
			}
		}
		return ""
	}
	call := func(rt *rapid.T, m rpcMethod, args [][]byte, how, sig string) {
		var txt []string
		for _, a := range args {
			txt = append(txt, clip(string(a), 3000))
		}
		joined := []byte(strings.Join(txt, ", "))
		p := &probe{part: "rpc", entry: "rpc:" + m.name, input: joined, note: how, noGoroutineCheck: true,
			extra: map[string]any{"params": txt}}
		stage := 0
		current = m.name + " " + how
		busy <- m.name
		func() {
			defer func() { done <- struct{}{} }() // also when a violation ends the case
			p.run(rt, func() { stage = callRPC(m, args, groupFor(m, how)) })
		}()
		lbl := []string{"", "rejected:args", "handled"}[stage|btoi(stage == 0)]
		if lastCrash != nil {
			lbl = "crashed"
		}
		stats.Case("rpc", m.name+"|"+sig+"|"+lbl, stage == 2 || lastCrash != nil, "method:"+m.name, lbl)
	}

	rapid.Check(t, func(rt *rapid.T) {
		m := methods[rapid.IntRange(0, len(methods)-1).Draw(rt, "method")]
		// methods taking protobuf bytes are drawn more often
		if rapid.IntRange(0, 2).Draw(rt, "prefer_raw") == 0 {
			raw := []string{"quai_sendRawTransaction", "quai_receiveTxFromPoolSharingClient", "quai_receiveMinedHeader", "quai_calcOrder", "quai_receiveRawWorkShare",
				"workshare_receiveSubWorkshare", "quai_submitAuxTemplate", "quai_signAuxTemplate", "quai_submitKawpowBlock", "quai_submitShaBlock", "quai_submitScryptBlock"}
			want := raw[rapid.IntRange(0, len(raw)-1).Draw(rt, "raw_method")]
			for _, x := range methods {
				if x.name == want {
					m = x
				}
			}
		}
		ag := &argGen{t: rt, n: n, genesis: genesis}
		deepPoke = false
		defer func() { deepPoke = true }()
		base := make([][]byte, len(m.params))
		for i, ty := range m.params {
			base[i] = ag.valid(ty, fmt.Sprintf("p%d", i), 0)
		}
		with := func(i int, v []byte) [][]byte {
			c := append([][]byte(nil), base...)
			c[i] = v
			return c
		}
		// protobuf-carrying methods: the valid message and every single structural mutation of it
		if root, ok := rawProtoSeed(rt, m.name); ok {
			b, _ := proto.Marshal(root)
			base[0] = hexJSON(b)
			call(rt, m, base, "valid message", "valid")
			for _, mu := range enumerate(root, enumOpts{addAbsent: true}) {
				mb, err := proto.Marshal(mutate(root, mu))
				if err != nil {
					continue
				}
				call(rt, m, with(0, hexJSON(mb)), "struct "+mu.String(), mu.sig())
			}
			for i := 0; i < 4; i++ {
				mb, how := mutateBytes(rt, b)
				call(rt, m, with(0, hexJSON(mb)), "bytes "+how, "bytes:"+how)
			}
		} else if strings.HasPrefix(m.name, "quai_submit") && strings.HasSuffix(m.name, "Block") {
			id := map[string]types.PowID{"quai_submitKawpowBlock": types.Kawpow, "quai_submitShaBlock": types.SHA_BCH, "quai_submitScryptBlock": types.Scrypt}[m.name]
			hdr, cnt, cb := donorSubmission(rt, id)
			full := append(append(append([]byte(nil), hdr...), cnt...), cb...)
			call(rt, m, [][]byte{hexJSON(full)}, "valid submission", "valid")
			for _, l := range []int{0, 79, 80, 81, 119, 120, 121, len(full) - 1} {
				if l >= 0 && l <= len(full) {
					call(rt, m, [][]byte{hexJSON(full[:l])}, fmt.Sprintf("submission cut at %d", l), "cut")
				}
			}
			for i := 0; i < 6; i++ {
				mb, how := mutateBytes(rt, full)
				call(rt, m, [][]byte{hexJSON(mb)}, "bytes "+how, "bytes:"+how)
			}
		} else {
			call(rt, m, base, "plausible arguments", "valid")
		}
		// every argument: hostile scalars, and for structured documents every JSON mutation
		for i := range m.params {
			for hi, hv := range hostileJSONValues {
				call(rt, m, with(i, []byte(hv)), fmt.Sprintf("arg %d := %s", i, hv), fmt.Sprintf("arg%d:=h%d", i, hi))
			}
			if len(base[i]) > 0 && (base[i][0] == '{' || base[i][0] == '[') {
				for _, jm := range jsonMutations(base[i], false) {
					call(rt, m, with(i, jm.out), fmt.Sprintf("arg %d %s", i, jm.how), fmt.Sprintf("arg%d:%s", i, jm.sig))
				}
			}
		}
		// fewer arguments than declared
		if len(base) > 0 {
			call(rt, m, base[:len(base)-1], "last argument missing", "missing-last")
		}
	})
}

func btoi(b bool) int {
	if b {
		return 1
	}
	return 0
}
