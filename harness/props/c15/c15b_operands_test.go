// C15 (b2) — hostile opcode operands: no program crashes the interpreter.
//
// For every opcode of the interpreter's instruction set that takes operands, programs of the form
// [prelude] PUSH operands OP STOP are run through core.ApplyTransaction, the operands drawn from
// boundary values of the 256-bit word (0, 1, 31..33, 2^16, 2^32-1, 2^32, 2^63-1, 2^63, 2^64-32,
// 2^64-1, 2^64, 2^64+1, 2^128, 2^255, 2^256-32, 2^256-1), in contexts with empty / non-empty
// return data, calldata and pre-expanded memory. Oracle: the execution ends in a result or an
// error - never in a Go panic; and (shared with the memory check) memory never exceeds what the
// gas budget can buy.
package c15

import (
	"fmt"
	"math/big"
	"runtime"
	"runtime/debug"
	"strings"
	"testing"

	"github.com/dominant-strategies/go-quai/common"
	"github.com/dominant-strategies/go-quai/core/vm"
	"pgregory.net/rapid"

	"verifharness/evmgen"
	"verifharness/stats"
)

var c15bHostile = func() []*big.Int {
	one := big.NewInt(1)
	p := func(n uint) *big.Int { return new(big.Int).Lsh(one, n) }
	sub := func(a *big.Int, b int64) *big.Int { return new(big.Int).Sub(a, big.NewInt(b)) }
	add := func(a *big.Int, b int64) *big.Int { return new(big.Int).Add(a, big.NewInt(b)) }
	return []*big.Int{big.NewInt(0), big.NewInt(1), big.NewInt(31), big.NewInt(32), big.NewInt(33), p(16), sub(p(32), 1), p(32), sub(p(63), 1), p(63),
		sub(p(64), 32), sub(p(64), 1), p(64), add(p(64), 1), p(128), p(255), sub(p(256), 32), sub(p(256), 1)}
}()

// operand counts of the opcodes that take operands (pops)
var c15bOpPops = map[vm.OpCode]int{
	vm.ADD: 2, vm.MUL: 2, vm.SUB: 2, vm.DIV: 2, vm.SDIV: 2, vm.MOD: 2, vm.SMOD: 2, vm.ADDMOD: 3, vm.MULMOD: 3, vm.EXP: 2, vm.SIGNEXTEND: 2,
	vm.LT: 2, vm.GT: 2, vm.SLT: 2, vm.SGT: 2, vm.EQ: 2, vm.ISZERO: 1, vm.AND: 2, vm.OR: 2, vm.XOR: 2, vm.NOT: 1, vm.BYTE: 2, vm.SHL: 2, vm.SHR: 2, vm.SAR: 2,
	vm.SHA3: 2, vm.BALANCE: 1, vm.CALLDATALOAD: 1, vm.CALLDATACOPY: 3, vm.CODECOPY: 3, vm.EXTCODESIZE: 1, vm.EXTCODECOPY: 4, vm.RETURNDATACOPY: 3, vm.EXTCODEHASH: 1,
	vm.BLOCKHASH: 1, vm.POP: 1, vm.MLOAD: 1, vm.MSTORE: 2, vm.MSTORE8: 2, vm.SLOAD: 1, vm.SSTORE: 2, vm.JUMP: 1, vm.JUMPI: 2, vm.MCOPY: 3, vm.TLOAD: 1, vm.TSTORE: 2,
	vm.LOG0: 2, vm.LOG1: 3, vm.LOG2: 4, vm.LOG3: 5, vm.LOG4: 6, vm.CREATE: 3, vm.CALL: 7, vm.CALLCODE: 7, vm.RETURN: 2, vm.DELEGATECALL: 6, vm.CREATE2: 4,
	vm.STATICCALL: 6, vm.REVERT: 2, vm.SELFDESTRUCT: 1, vm.ETX: 10, vm.CONVERT: 4,
}

var c15bOpList = func() []vm.OpCode {
	var l []vm.OpCode
	for op := vm.OpCode(0); ; op++ {
		if _, ok := c15bOpPops[op]; ok {
			l = append(l, op)
		}
		if op == 0xff {
			break
		}
	}
	return l
}()

func TestC15B_HostileOperands(t *testing.T) {
	u := evmgen.U()
	rapid.Check(t, func(rt *rapid.T) {
		op := c15bOpList[rapid.IntRange(0, len(c15bOpList)-1).Draw(rt, "op")]
		pops := c15bOpPops[op]
		ctx := rapid.IntRange(0, 3).Draw(rt, "ctx")
		var operands []*big.Int
		for i := 0; i < pops; i++ {
			operands = append(operands, c15bHostile[rapid.IntRange(0, len(c15bHostile)-1).Draw(rt, fmt.Sprintf("operand%d", i))])
		}
		// address-like operands of the call family / EXTCODE*: sometimes a real address
		if rapid.Bool().Draw(rt, "realaddr") {
			addr := new(big.Int).SetBytes([]common20{u.Contracts[0].Bytes20(), u.Precompiles[3].Bytes20(), u.EOAs[1].Addr.Bytes20(), u.ForeignQuai[0].Bytes20(), u.InZoneQi[0].Bytes20()}[rapid.IntRange(0, 4).Draw(rt, "addr")][:])
			switch op {
			case vm.CALL, vm.CALLCODE, vm.DELEGATECALL, vm.STATICCALL, vm.ETX, vm.CONVERT:
				operands[1] = addr
			case vm.EXTCODECOPY, vm.EXTCODESIZE, vm.EXTCODEHASH, vm.BALANCE, vm.SELFDESTRUCT:
				operands[0] = addr
			}
		}
		if op == vm.ETX && stats.IsKnown(c15bFpETX) {
			// known finding: the ETX opcode's memory expansion is not metered, so large data /
			// access-list regions allocate (gigabytes) or panic in Memory.Resize for 21000 gas. The
			// class is excluded by construction (it also makes the run take minutes); its minimal
			// inputs are replayed by TestC15B_HostileRegress
			for _, i := range []int{6, 7, 8, 9} {
				if operands[i].BitLen() > 17 {
					operands[i] = big.NewInt(32)
					stats.Excluded(c15bFpETX)
				}
			}
		}
		gas := uint64(rapid.SampledFrom([]int{100_000, 1_000_000, 4_900_000}).Draw(rt, "gas"))
		c := c15bHand(gas, func(a *evmgen.Asm) {
			switch ctx {
			case 1: // non-empty return data (32 bytes from the identity precompile) and 64 bytes of memory
				a.PushBig(c15bHostile[len(c15bHostile)-1]).Push(0).Op(vm.MSTORE)
				a.Push(32).Push(32).Push(32).Push(0).Push(0).PushAddr(u.Precompiles[3]).Op(vm.GAS, vm.CALL, vm.POP)
			case 2: // 1 KiB of memory
				a.Push(1).Push(1023).Op(vm.MSTORE8)
			case 3: // return data of a reverted inner creation
				a.Push(0).Push(0).Push(0).Op(vm.CREATE, vm.POP)
			}
			for i := len(operands) - 1; i >= 0; i-- {
				a.PushBig(operands[i])
			}
			a.Op(op, vm.STOP)
		})
		c.Mode = []string{evmgen.ModeTracedBypass, evmgen.ModeUntraced, evmgen.ModeTracedEnforced}[rapid.IntRange(0, 2).Draw(rt, "mode")]
		c.Env.PrimeTerminusNumber = evmgen.Regimes[rapid.IntRange(0, len(evmgen.Regimes)-1).Draw(rt, "regime")]
		if rapid.Bool().Draw(rt, "calldata") {
			c.Tx.Data = make([]byte, 36)
			for i := range c.Tx.Data {
				c.Tx.Data[i] = byte(i + 1)
			}
		}
		var ops []string
		for _, o := range operands {
			ops = append(ops, "0x"+o.Text(16))
		}
		dump := map[string]any{"opcode": op.String(), "operands_top_first": ops, "context": ctx, "gas": gas, "mode": c.Mode, "regime": evmgen.RegimeName(c.Env.PrimeTerminusNumber), "calldata_len": len(c.Tx.Data)}
		var o *evmgen.Outcome
		var err error
		func() {
			defer func() {
				if r := recover(); r != nil {
					cr := analyse(r, debug.Stack())
					stats.Violation(rt, "operands", "C15/panic/"+cr.fp+"/op="+op.String(), fmt.Sprintf("opcode %s with operands (top first) %v in context %d panics: %v", op, ops, ctx, r), dump)
				}
			}()
			o, err = c.Run()
		}()
		if err != nil {
			rt.Fatalf("HARNESS: %v", err)
		}
		if o == nil {
			return
		}
		outcome := "rejected"
		if o.Res.Err == nil {
			outcome = fmt.Sprintf("status=%d", o.Res.Receipt.Status)
			if o.Tracer != nil {
				rp := c15bCheck(rt, "operands", c, o)
				_ = rp
			}
		}
		// distinct = opcode x which operands are "large" (>= 2^32) x context x outcome
		var cls []string
		for _, x := range operands {
			switch {
			case x.BitLen() <= 16:
				cls = append(cls, "s")
			case x.BitLen() <= 64:
				cls = append(cls, "m")
			default:
				cls = append(cls, "L")
			}
		}
		stats.Case("operands", fmt.Sprintf("%s|%s|ctx%d|%s", op, strings.Join(cls, ""), ctx, outcome), true, "op:"+op.String(), "outcome:"+outcome)
		if stats.WantSample("operands") {
			stats.Sample("operands", dump)
		}
	})
}

type common20 = [20]byte

const c15bFpETXPanic = "C15/panic/vm.Memory.Resize/makeslice/op=ETX"

// TestC15B_HostileRegress replays the minimal input of the recorded ETX finding's crash form: a
// data-size operand of 2^63-1 makes the interpreter resize memory (ETX has no dynamic gas
// function, so nothing refuses the size first) and Memory.Resize panics in makeslice.
func TestC15B_HostileRegress(t *testing.T) {
	if stats.Shard() != 0 {
		t.Skip("deterministic cases run on shard 0 only")
	}
	u := evmgen.U()
	huge := new(big.Int).Sub(new(big.Int).Lsh(big.NewInt(1), 63), big.NewInt(1))
	c := c15bHand(100_000, func(a *evmgen.Asm) {
		a.Push(0).Push(0).PushBig(huge).Push(0).Push(0).Push(0).Push(21000).Push(0).PushAddr(u.ForeignQuai[0]).Push(0).Op(vm.ETX, vm.POP, vm.STOP)
	})
	panicked := false
	func() {
		defer func() {
			if r := recover(); r != nil {
				panicked = true
				cr := analyse(r, debug.Stack())
				stats.Violation(t, "operands-regress", "C15/panic/"+cr.fp+"/op=ETX", fmt.Sprintf("ETX with a data size operand of 2^63-1 and a 100000 gas budget panics: %v", r), map[string]any{"opcode": "ETX", "data_size": "0x7fffffffffffffff", "gas": 100000})
			}
		}()
		if _, err := c.Run(); err != nil {
			t.Fatalf("HARNESS: %v", err)
		}
	}()
	stats.Case("operands-regress", "ETX-2^63-data", true, fmt.Sprintf("panicked=%v", panicked))
	if !panicked && stats.IsKnown(c15bFpETXPanic) {
		t.Fatalf("HARNESS: finding %s is listed as known but its minimal input no longer panics; if the defect was repaired set its status to \"fixed\"", c15bFpETXPanic)
	}
}

// TestC15B_OperandsExhaustive enumerates, for every opcode with at most three operands, EVERY
// operand tuple over the 18 boundary values, in contexts with empty and with non-empty return data
// (quick) plus pre-expanded memory / failed-creation return data and calldata (thorough). Same
// oracle: no panic, memory bounded by the gas budget. Sharded by tuple index.
func TestC15B_OperandsExhaustive(t *testing.T) {
	u := evmgen.U()
	ctxs := []int{0, 1}
	if stats.Thorough() {
		ctxs = []int{0, 1, 2, 3}
	}
	idx := 0
	n := 0
	for _, op := range c15bOpList {
		pops := c15bOpPops[op]
		if pops > 3 {
			continue
		}
		total := 1
		for i := 0; i < pops; i++ {
			total *= len(c15bHostile)
		}
		for tup := 0; tup < total; tup++ {
			for _, ctx := range ctxs {
				idx++
				if idx%stats.NShards() != stats.Shard() {
					continue
				}
				operands := make([]*big.Int, pops)
				x := tup
				for i := 0; i < pops; i++ {
					operands[i] = c15bHostile[x%len(c15bHostile)]
					x /= len(c15bHostile)
				}
				c := c15bHand(200_000, func(a *evmgen.Asm) {
					switch ctx {
					case 1:
						a.PushBig(c15bHostile[len(c15bHostile)-1]).Push(0).Op(vm.MSTORE)
						a.Push(32).Push(32).Push(32).Push(0).Push(0).PushAddr(u.Precompiles[3]).Op(vm.GAS, vm.CALL, vm.POP)
					case 2:
						a.Push(1).Push(1023).Op(vm.MSTORE8)
					case 3:
						a.Push(0).Push(0).Push(0).Op(vm.CREATE, vm.POP)
					}
					for i := len(operands) - 1; i >= 0; i-- {
						a.PushBig(operands[i])
					}
					a.Op(op, vm.STOP)
				})
				c.Mode = evmgen.ModeUntraced
				if stats.Thorough() && tup%2 == 1 {
					c.Tx.Data = make([]byte, 36)
				}
				var ops []string
				for _, o := range operands {
					ops = append(ops, "0x"+o.Text(16))
				}
				var o *evmgen.Outcome
				var err error
				func() {
					defer func() {
						if r := recover(); r != nil {
							cr := analyse(r, debug.Stack())
							stats.Violation(t, "operands-exhaustive", "C15/panic/"+cr.fp+"/op="+op.String(), fmt.Sprintf("opcode %s with operands (top first) %v in context %d panics: %v", op, ops, ctx, r),
								map[string]any{"opcode": op.String(), "operands_top_first": ops, "context": ctx, "gas": 200000})
						}
					}()
					o, err = c.Run()
				}()
				if err != nil {
					t.Fatalf("HARNESS: %v", err)
				}
				if o == nil || o.Res.Err != nil {
					t.Fatalf("HARNESS: hand-built transaction rejected")
				}
				n++
				stats.Case("operands-exhaustive", fmt.Sprintf("%s|%d|%d", op, tup, ctx), true, "op:"+op.String(), fmt.Sprintf("status=%d", o.Res.Receipt.Status))
			}
		}
	}
	stats.Exhaustive("operands-exhaustive")
	t.Logf("ran %d tuples", n)
}

// TestC15B_Precompiles: every precompiled contract (addresses 1..9 of the zone and the lockup
// contract) called by a contract with hostile inputs: for modexp the three 32-byte length words
// are drawn from the boundary values (a gas function and a run function that disagree about a
// special case make memory unbounded by gas); for the others lengths around every parser
// boundary with zero / 0xff / patterned content. 100k-1M gas. Oracle: no panic; and the bytes
// allocated while the transaction runs stay far below what only an unpaid allocation can reach
// (the budget buys < 1 MiB of EVM memory; the threshold is 48 MiB).
func TestC15B_Precompiles(t *testing.T) {
	u := evmgen.U()
	targets := append(append([]common.Address{}, u.Precompiles...), u.Lockup)
	lens := []int{0, 1, 31, 32, 33, 63, 64, 65, 95, 96, 97, 127, 128, 129, 160, 191, 192, 193, 212, 213, 214, 256, 384, 385, 1024}
	rapid.Check(t, func(rt *rapid.T) {
		ti := rapid.IntRange(0, len(targets)-1).Draw(rt, "precompile")
		var input []byte
		kind := "pattern"
		if ti == 4 && rapid.IntRange(0, 3).Draw(rt, "modexpHeader") > 0 { // address ..05 = modexp
			kind = "modexp-lengths"
			for i := 0; i < 3; i++ {
				w := c15bHostile[rapid.IntRange(0, len(c15bHostile)-1).Draw(rt, fmt.Sprintf("len%d", i))]
				if rapid.IntRange(0, 2).Draw(rt, fmt.Sprintf("small%d", i)) == 0 {
					w = big.NewInt(int64(rapid.IntRange(0, 64).Draw(rt, fmt.Sprintf("lenv%d", i))))
				}
				input = append(input, common.LeftPadBytes(w.Bytes(), 32)...)
			}
			input = append(input, rapid.SliceOfN(rapid.Byte(), 0, 96).Draw(rt, "operands")...)
		} else {
			n := lens[rapid.IntRange(0, len(lens)-1).Draw(rt, "len")]
			input = make([]byte, n)
			switch rapid.IntRange(0, 3).Draw(rt, "fill") {
			case 1:
				for i := range input {
					input[i] = 0xff
				}
			case 2:
				for i := range input {
					input[i] = byte(i*37 + 1)
				}
			case 3:
				copy(input, rapid.SliceOfN(rapid.Byte(), n, n).Draw(rt, "bytes"))
			}
		}
		op := []vm.OpCode{vm.STATICCALL, vm.CALL, vm.DELEGATECALL}[rapid.IntRange(0, 2).Draw(rt, "op")]
		gas := uint64(rapid.SampledFrom([]int{100_000, 1_000_000}).Draw(rt, "gas"))
		c := c15bHand(gas, func(a *evmgen.Asm) {
			a.Op(vm.CALLDATASIZE).Push(0).Push(0).Op(vm.CALLDATACOPY)
			a.Push(64).Push(0).Op(vm.CALLDATASIZE).Push(0)
			if op == vm.CALL {
				a.Push(0)
			}
			a.PushAddr(targets[ti]).Op(vm.GAS, op, vm.POP, vm.STOP)
		})
		c.Tx.Data = input
		c.Tx.Gas = gas + 16*uint64(len(input))
		c.Mode = []string{evmgen.ModeUntraced, evmgen.ModeTracedBypass}[rapid.IntRange(0, 1).Draw(rt, "mode")]
		c.Env.PrimeTerminusNumber = evmgen.Regimes[rapid.IntRange(0, len(evmgen.Regimes)-1).Draw(rt, "regime")]
		name := u.Name(targets[ti])
		dump := map[string]any{"precompile": name, "call": op.String(), "input": fmt.Sprintf("%x", input), "gas": gas, "kind": kind}
		var o *evmgen.Outcome
		var err error
		var ms0, ms1 runtime.MemStats
		runtime.ReadMemStats(&ms0)
		func() {
			defer func() {
				if r := recover(); r != nil {
					cr := analyse(r, debug.Stack())
					stats.Violation(rt, "precompiles", "C15/panic/"+cr.fp+"/precompile="+name, fmt.Sprintf("calling %s with input %x (%d gas) panics: %v", name, input, gas, r), dump)
				}
			}()
			o, err = c.Run()
		}()
		runtime.ReadMemStats(&ms1)
		if err != nil {
			rt.Fatalf("HARNESS: %v", err)
		}
		if o == nil {
			return
		}
		alloc := ms1.TotalAlloc - ms0.TotalAlloc
		if alloc > 48<<20 {
			dump["bytes_allocated"] = alloc
			stats.Violation(rt, "precompiles", "C15/alloc-unpaid/precompile="+name, fmt.Sprintf("calling %s with a %d-byte input and %d gas allocated %d MiB while the transaction ran", name, len(input), gas, alloc>>20), dump)
			return
		}
		outcome := "rejected"
		if o.Res.Err == nil {
			outcome = fmt.Sprintf("status=%d", o.Res.Receipt.Status)
		}
		stats.Case("precompiles", fmt.Sprintf("%s|%s|%s|%d", name, kind, outcome, len(input)), true, "target:"+name, "kind:"+kind)
		if stats.WantSample("precompiles") {
			stats.Sample("precompiles", dump)
		}
	})
}
