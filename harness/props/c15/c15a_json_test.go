package c15

import (
	"bytes"
	"encoding/json"
	"fmt"
	"sort"
	"strings"
	"testing"

	"github.com/dominant-strategies/go-quai/common"
	"github.com/dominant-strategies/go-quai/common/hexutil"
	"github.com/dominant-strategies/go-quai/common/math"
	"github.com/dominant-strategies/go-quai/core/types"
	"github.com/dominant-strategies/go-quai/quai/filters"
	"github.com/dominant-strategies/go-quai/rpc"
	"pgregory.net/rapid"

	"verifharness/gen"
	"verifharness/stats"
)

// ---- JSON entry points -------------------------------------------------------------------------

type jsonTarget struct {
	name string
	run  func(b []byte) int // 1 rejected, 2 decoded (+ the accessors used next)
}

func jt[T any](name string, after func(v *T)) jsonTarget {
	return jsonTarget{name, func(b []byte) int {
		v := new(T)
		if json.Unmarshal(b, v) != nil {
			return 1
		}
		if after != nil {
			// one root cause per decoder: it accepted a document on whose result the accessors
			// production uses next panic (required members missing, null or of the wrong shape)
			grouped(strings.TrimPrefix(name, "json->")+".UnmarshalJSON/accepts-incomplete-object", func() { after(v) })
		}
		return 2
	}}
}

func jsonTargets() []jsonTarget {
	return []jsonTarget{
		jt("json->Transaction", func(tx *types.Transaction) {
			if tx.Inner() == nil {
				return
			}
			pokeTx(tx, zoneLoc)
		}),
		jt("json->Header", func(h *types.Header) { pokeHeader(h) }),
		jt("json->WorkObjectHeader", func(wh *types.WorkObjectHeader) { pokeWoHeader(wh) }),
		jt("json->WorkObjectBody", func(wb *types.WorkObjectBody) {
			step(func() { pokeHeader(wb.Header()) })
			step(func() { json.Marshal(wb.RPCMarshalWorkObjectBody("v2")) })
		}),
		jt("json->WorkObject", func(wo *types.WorkObject) { pokeWo(wo, types.BlockObject) }),
		jt("json->Termini", func(tm *types.Termini) {
			step(func() { _ = tm.IsValid() })
			step(func() { tm.ProtoEncode() })
			step(func() { _, _ = tm.DomTermini(), tm.SubTermini() })
		}),
		jt("json->AuxPow", func(ap *types.AuxPow) { pokeAuxPow(ap) }),
		jt("json->PowShareDiffAndCount", func(p *types.PowShareDiffAndCount) {
			step(func() { p.ProtoEncode() })
			step(func() { p.RPCMarshal() })
			step(func() { p.Clone() })
		}),
		jt("json->Receipt", func(r *types.Receipt) { step(func() { r.MarshalJSON(); _ = r.Size() }) }),
		jt("json->Log", func(l *types.Log) { step(func() { l.MarshalJSON() }) }),
		jt[types.AccessList]("json->AccessList", func(al *types.AccessList) { step(func() { _ = al.StorageKeys(); al.ProtoEncode() }) }),
		jt("json->OutpointAndDenomination", func(o *types.OutpointAndDenomination) {
			step(func() { o.ProtoEncode() })
			step(func() { _ = o.Key() })
		}),
		jt("json->UtxoEntry", func(u *types.UtxoEntry) {
			step(func() { u.ProtoEncode() })
			step(func() { types.UTXOHash(common.Hash{}, 0, u) })
		}),
		jt[types.BlockNonce]("json->BlockNonce", nil),
		jt[types.Bloom]("json->Bloom", nil),
		jt[hexutil.Bytes]("json->hexutil.Bytes", nil),
		jt[hexutil.Big]("json->hexutil.Big", func(b *hexutil.Big) { _ = b.String() }),
		jt[hexutil.Uint64]("json->hexutil.Uint64", nil),
		jt[hexutil.Uint]("json->hexutil.Uint", nil),
		jt[common.Hash]("json->Hash", nil),
		jt("json->Address", func(a *common.Address) { step(func() { _, _ = a.Hex(), a.Bytes() }) }),
		jt[common.AddressBytes]("json->AddressBytes", nil),
		jt("json->InternalAddress", func(a *common.InternalAddress) { step(func() { _ = a.Hex() }) }),
		jt("json->ExternalAddress", func(a *common.ExternalAddress) { step(func() { _ = a.Hex() }) }),
		jt("json->MixedcaseAddress", func(a *common.MixedcaseAddress) {
			step(func() { _ = a.ValidChecksum() })
			step(func() { _ = a.Address().Hex() })
			step(func() { _ = a.String() })
		}),
		jt[math.HexOrDecimal256]("json->HexOrDecimal256", nil),
		jt[math.HexOrDecimal64]("json->HexOrDecimal64", nil),
		jt[rpc.BlockNumber]("json->rpc.BlockNumber", nil),
		jt("json->rpc.BlockNumberOrHash", func(b *rpc.BlockNumberOrHash) {
			step(func() { b.Number(); b.Hash() })
		}),
		jt[rpc.DecimalOrHex]("json->rpc.DecimalOrHex", nil),
		jt[filters.FilterCriteria]("json->filters.FilterCriteria", nil),
	}
}

// ---- generic JSON tree mutation ----------------------------------------------------------------

var hostileJSONValues = []string{
	`null`, `""`, `"0x"`, `"0x0"`, `"0x00"`, `"0x1"`, `"0xzz"`, `"0x123"`, `"0X10"`, `"10"`, `1`, `-1`, `1.5`, `1e400`, `18446744073709551616`,
	`true`, `[]`, `{}`, `[null]`, `[[]]`, `{"":null}`, `"latest"`, `"0x` + strings.Repeat("f", 64) + `"`, `"0x` + strings.Repeat("f", 65) + `"`, `"0x` + strings.Repeat("0", 40) + `"`,
}

type jmut struct {
	how, sig string
	out      []byte
}

func enc(v interface{}) []byte {
	var buf bytes.Buffer
	e := json.NewEncoder(&buf)
	e.SetEscapeHTML(false)
	e.Encode(v)
	return bytes.TrimSpace(buf.Bytes())
}

// jsonMutations: every key deleted / replaced by each hostile value; every array emptied,
// shortened, extended; every string shortened / lengthened by one character.
func jsonMutations(doc []byte, long bool) []jmut {
	var root interface{}
	d := json.NewDecoder(bytes.NewReader(doc))
	d.UseNumber()
	if d.Decode(&root) != nil {
		return nil
	}
	var out []jmut
	emit := func(how, sig string) { out = append(out, jmut{how, sig, enc(root)}) }
	var walk func(v interface{}, set func(interface{}), path, spath string)
	walk = func(v interface{}, set func(interface{}), path, spath string) {
		// replace this value by each hostile value
		for i, hv := range hostileJSONValues {
			set(json.RawMessage(hv))
			emit(path+" := "+hv, fmt.Sprintf("%s:=h%d", spath, i))
		}
		if long {
			set("0x" + strings.Repeat("ab", 5000))
			emit(path+" := 10 kB hex", spath+":=long")
		}
		set(v)
		switch x := v.(type) {
		case map[string]interface{}:
			keys := make([]string, 0, len(x))
			for k := range x {
				keys = append(keys, k)
			}
			sort.Strings(keys)
			for _, k := range keys {
				k := k
				old := x[k]
				delete(x, k)
				emit(path+"."+k+" deleted", spath+"."+k+":del")
				x[k] = old
				walk(old, func(n interface{}) { x[k] = n }, path+"."+k, spath+"."+k)
			}
		case []interface{}:
			set([]interface{}{})
			emit(path+" emptied", spath+":empty")
			if len(x) > 0 {
				set(x[:len(x)-1])
				emit(path+" last dropped", spath+":drop")
				set(append(append([]interface{}{}, x...), x[len(x)-1]))
				emit(path+" last duplicated", spath+":dup")
			}
			set(append(append([]interface{}{}, x...), nil))
			emit(path+" null appended", spath+":appendnull")
			set(v)
			for i := range x {
				i := i
				if i > 3 {
					break
				}
				walk(x[i], func(n interface{}) { x[i] = n }, fmt.Sprintf("%s[%d]", path, i), spath+"[]")
			}
		case string:
			if len(x) > 0 {
				set(x[:len(x)-1])
				emit(path+" shortened", spath+":short")
			}
			set(x + "0")
			emit(path+" lengthened", spath+":long1")
			set(strings.ToUpper(x))
			emit(path+" upper-cased", spath+":upper")
			set(v)
		}
	}
	walk(root, func(n interface{}) { root = n }, "$", "$")
	return out
}

type jsonSeed struct {
	name    string
	targets []string
	mk      func(t *rapid.T, g *gen.Tags) []byte
}

func mustJSON(t *rapid.T, v interface{}, err error) []byte {
	if err != nil {
		t.Fatalf("HARNESS: marshal: %v", err)
	}
	b, err := json.Marshal(v)
	if err != nil {
		t.Fatalf("HARNESS: json marshal: %v", err)
	}
	return b
}

func jsonSeeds() []jsonSeed {
	return []jsonSeed{
		{"tx", []string{"json->Transaction"}, func(t *rapid.T, g *gen.Tags) []byte {
			b, err := gen.Tx(t, zoneLoc, -1, g).MarshalJSON()
			if err != nil {
				t.Fatalf("HARNESS: %v", err)
			}
			return b
		}},
		{"qitx", []string{"json->Transaction"}, func(t *rapid.T, g *gen.Tags) []byte {
			b, err := gen.QiTx(t, zoneLoc, false, false, g).MarshalJSON()
			if err != nil {
				t.Fatalf("HARNESS: %v", err)
			}
			return b
		}},
		{"header", []string{"json->Header"}, func(t *rapid.T, g *gen.Tags) []byte {
			return mustJSON(t, gen.Header(t, g).RPCMarshalHeader(), nil)
		}},
		{"woheader", []string{"json->WorkObjectHeader"}, func(t *rapid.T, g *gen.Tags) []byte {
			return mustJSON(t, gen.WorkObjectHeader(t, "wh", zoneLoc, gen.WoOpts{Regime: gen.AnyRegime, AuxPow: -1}, g).RPCMarshalWorkObjectHeader("v2"), nil)
		}},
		{"wo", []string{"json->WorkObject", "json->WorkObjectBody"}, func(t *rapid.T, g *gen.Tags) []byte {
			return mustJSON(t, gen.WorkObject(t, zoneLoc, gen.WoOpts{Regime: gen.AnyRegime, AuxPow: -1}, g).RPCMarshalWorkObject("v2"), nil)
		}},
		{"wobody", []string{"json->WorkObjectBody"}, func(t *rapid.T, g *gen.Tags) []byte {
			return mustJSON(t, gen.WorkObject(t, zoneLoc, gen.WoOpts{Regime: gen.AnyRegime, AuxPow: -1}, g).Body().RPCMarshalWorkObjectBody("v2"), nil)
		}},
		{"termini", []string{"json->Termini"}, func(t *rapid.T, g *gen.Tags) []byte {
			return mustJSON(t, gen.Termini(t, "tm"), nil)
		}},
		{"auxpow", []string{"json->AuxPow"}, func(t *rapid.T, g *gen.Tags) []byte {
			return mustJSON(t, gen.AuxPow(t, "ap", g).RPCMarshal(), nil)
		}},
		{"receipt", []string{"json->Receipt"}, func(t *rapid.T, g *gen.Tags) []byte {
			r := gen.Receipt(t, "r", zoneLoc, false, g)
			if r.Logs == nil {
				r.Logs = []*types.Log{}
			}
			if r.ContractAddress.Equal(common.Address{}) {
				r.ContractAddress = common.BytesToAddress(make([]byte, 20), zoneLoc) // the gencodec encoder needs an inner address
			}
			b, err := r.MarshalJSON()
			if err != nil {
				t.Fatalf("HARNESS: %v", err)
			}
			return b
		}},
		{"log", []string{"json->Log"}, func(t *rapid.T, g *gen.Tags) []byte {
			b, err := gen.Log(t, "l", zoneLoc).MarshalJSON()
			if err != nil {
				t.Fatalf("HARNESS: %v", err)
			}
			return b
		}},
		{"accesslist", []string{"json->AccessList"}, func(t *rapid.T, g *gen.Tags) []byte {
			return mustJSON(t, gen.AccessList(t, "al", zoneLoc, g), nil)
		}},
		{"outpoint", []string{"json->OutpointAndDenomination"}, func(t *rapid.T, g *gen.Tags) []byte {
			o := gen.OutpointAndDenomination(t, "o", g)
			m := map[string]interface{}{"txHash": o.TxHash, "index": hexutil.Uint64(o.Index), "denomination": hexutil.Uint64(o.Denomination)}
			if o.Lock != nil {
				m["lock"] = (*hexutil.Big)(o.Lock)
			}
			return mustJSON(t, m, nil)
		}},
		{"utxo", []string{"json->UtxoEntry"}, func(t *rapid.T, g *gen.Tags) []byte {
			u := gen.UtxoEntry(t, "u", zoneLoc, g)
			m := map[string]interface{}{"denomination": hexutil.Uint64(u.Denomination), "address": hexutil.Encode(u.Address)}
			if u.Lock != nil {
				m["lock"] = (*hexutil.Big)(u.Lock)
			}
			return mustJSON(t, m, nil)
		}},
		{"filter", []string{"json->filters.FilterCriteria"}, func(t *rapid.T, g *gen.Tags) []byte {
			a := gen.Address(t, "a", zoneLoc)
			m := map[string]interface{}{"fromBlock": "0x1", "toBlock": "latest", "address": []string{a.Hex()},
				"topics": []interface{}{gen.Hash(t, "t0").Hex(), nil, []string{gen.Hash(t, "t1").Hex(), gen.Hash(t, "t2").Hex()}}}
			if rapid.Bool().Draw(t, "byhash") {
				m = map[string]interface{}{"blockHash": gen.Hash(t, "bh").Hex(), "address": a.Hex(), "topics": []interface{}{}}
			}
			return mustJSON(t, m, nil)
		}},
		{"blocknumorhash", []string{"json->rpc.BlockNumberOrHash", "json->rpc.BlockNumber"}, func(t *rapid.T, g *gen.Tags) []byte {
			switch rapid.IntRange(0, 3).Draw(t, "k") {
			case 0:
				return []byte(`"latest"`)
			case 1:
				return mustJSON(t, map[string]interface{}{"blockHash": gen.Hash(t, "bh").Hex(), "requireCanonical": true}, nil)
			case 2:
				return mustJSON(t, map[string]interface{}{"blockNumber": "0x10"}, nil)
			default:
				return mustJSON(t, hexutil.Uint64(gen.U64(t, "n")), nil)
			}
		}},
	}
}

// TestC15A_JSON: every JSON decoder the RPC server and the RPC client side of a node use.
// (i) hostile scalars and arbitrary text into every target; (ii) for a valid document of each
// structured type: every key deleted or replaced by each hostile value (null, wrong type, odd /
// over-long / unprefixed hex, huge numbers), arrays emptied / shortened / extended, strings
// shortened / lengthened - the "any subset of fields missing or type-confused" domain for JSON.
func TestC15A_JSON(t *testing.T) {
	targets := jsonTargets()
	byName := map[string]jsonTarget{}
	for _, tg := range targets {
		byName[tg.name] = tg
	}
	seeds := jsonSeeds()
	defer surveyDump(t)
	run := func(rt *rapid.T, tg jsonTarget, input []byte, how, sig string) {
		p := &probe{part: "json", entry: tg.name, input: input, note: how, extra: map[string]any{"input_text": clip(string(input), 4000)}}
		stage := 0
		p.run(rt, func() { stage = tg.run(input) })
		lbl := stageLabel[stage]
		if lastCrash != nil {
			lbl = "crashed"
		}
		stats.Case("json", tg.name+"|"+sig+"|"+lbl, stage == 2 || lastCrash != nil, "entry:"+tg.name, lbl)
	}
	rapid.Check(t, func(rt *rapid.T) {
		g := &gen.Tags{}
		deepPoke = false
		defer func() { deepPoke = true }()
		switch k := rapid.IntRange(0, 9).Draw(rt, "kind"); {
		case k == 0:
			// hostile scalar or random text into every target
			var in []byte
			how := ""
			if rapid.Bool().Draw(rt, "hostile") {
				i := rapid.IntRange(0, len(hostileJSONValues)-1).Draw(rt, "hv")
				in, how = []byte(hostileJSONValues[i]), fmt.Sprintf("h%d", i)
			} else {
				in, how = []byte(rapid.StringN(0, 60, -1).Draw(rt, "text")), "text"
			}
			for _, tg := range targets {
				run(rt, tg, in, "scalar "+how, "scalar:"+how)
			}
		case k == 1:
			// deep nesting
			d := rapid.IntRange(1, 20000).Draw(rt, "depth")
			open := []string{"[", `{"a":`}[rapid.IntRange(0, 1).Draw(rt, "br")]
			in := []byte(strings.Repeat(open, d))
			for _, tg := range targets {
				run(rt, tg, in, fmt.Sprintf("nesting %q x%d", open, d), "nesting")
			}
		default:
			s := seeds[rapid.IntRange(0, len(seeds)-1).Draw(rt, "seed")]
			doc := s.mk(rt, g)
			for _, name := range s.targets {
				run(rt, byName[name], doc, "valid:"+s.name, "valid:"+s.name)
			}
			for _, m := range jsonMutations(doc, stats.Thorough()) {
				for _, name := range s.targets {
					run(rt, byName[name], m.out, s.name+" "+m.how, s.name+":"+m.sig)
				}
			}
			if k == 2 {
				// type confusion: a valid document of one type into every other target
				for _, tg := range targets {
					run(rt, tg, doc, "valid "+s.name+" into other target", "confused:"+s.name)
				}
			}
		}
	})
}

func clip(s string, n int) string {
	if len(s) > n {
		return s[:n] + "..."
	}
	return s
}
