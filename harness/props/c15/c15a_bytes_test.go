package c15

import (
	"bytes"
	"fmt"
	"sort"
	"testing"

	"google.golang.org/protobuf/encoding/protowire"
	"google.golang.org/protobuf/proto"
	"pgregory.net/rapid"

	"verifharness/gen"
	"verifharness/stats"
)

// ---- byte-level inputs -------------------------------------------------------------------------

// hostile wire fragments: over-long varints, length prefixes far beyond the buffer, deprecated
// group markers, nested empty messages, fields with the wrong wire type.
var hostileFragments = [][]byte{
	{0xff, 0xff, 0xff, 0xff, 0xff, 0xff, 0xff, 0xff, 0xff, 0x01},       // 10-byte varint
	{0xff, 0xff, 0xff, 0xff, 0xff, 0xff, 0xff, 0xff, 0xff, 0xff, 0x01}, // 11-byte varint (invalid)
	{0x0a, 0xff, 0xff, 0xff, 0xff, 0x0f},                               // field 1, length 2^32-1
	{0x0a, 0xff, 0xff, 0xff, 0xff, 0xff, 0xff, 0xff, 0xff, 0x7f},       // field 1, length 2^63-1
	{0x0b, 0x0c},                         // start/end group field 1
	{0x0b},                               // unterminated group
	{0x08, 0x00},                         // field 1 as varint (wrong wire type for messages)
	{0x0d, 1, 2, 3, 4},                   // field 1 as fixed32
	{0x09, 1, 2, 3, 4, 5, 6, 7, 8},       // field 1 as fixed64
	{0x0a, 0x00},                         // field 1 empty
	{0x12, 0x00},                         // field 2 empty
	{0x1a, 0x00},                         // field 3 empty
	{0x00},                               // field number 0 (invalid)
	{0xf8, 0xff, 0xff, 0xff, 0x0f, 0x00}, // highest field number
}

func nested(depth int, field protowire.Number) []byte {
	var b []byte
	for i := 0; i < depth; i++ {
		b = protowire.AppendBytes(protowire.AppendTag(nil, field, protowire.BytesType), b)
	}
	return b
}

func repeated(n int, frag []byte) []byte { return bytes.Repeat(frag, n) }

// mutateBytes applies one byte-level mutation chosen by rapid.
func mutateBytes(t *rapid.T, b []byte) ([]byte, string) {
	b = append([]byte(nil), b...)
	if len(b) == 0 {
		return hostileFragments[rapid.IntRange(0, len(hostileFragments)-1).Draw(t, "frag")], "fragment"
	}
	pos := rapid.IntRange(0, len(b)-1).Draw(t, "pos")
	switch k := rapid.IntRange(0, 9).Draw(t, "bytemut"); k {
	case 0:
		return b[:pos], "truncate"
	case 1:
		b[pos] ^= byte(1 << rapid.IntRange(0, 7).Draw(t, "bit"))
		return b, "bitflip"
	case 2:
		b[pos] = rapid.Byte().Draw(t, "byte")
		return b, "setbyte"
	case 3:
		b[pos] = 0xff
		return b, "ff"
	case 4:
		f := hostileFragments[rapid.IntRange(0, len(hostileFragments)-1).Draw(t, "frag")]
		return append(append(append([]byte(nil), b[:pos]...), f...), b[pos:]...), "insert-fragment"
	case 5:
		return append(b[:pos:pos], b[pos+1:]...), "delete-byte"
	case 6:
		end := rapid.IntRange(pos, len(b)).Draw(t, "end")
		return append(append(append([]byte(nil), b[:end]...), b[pos:end]...), b[end:]...), "dup-segment"
	case 7:
		f := hostileFragments[rapid.IntRange(0, len(hostileFragments)-1).Draw(t, "frag")]
		return append(b, f...), "append-fragment"
	case 8:
		// overwrite with a maximal length prefix
		return append(append(append([]byte(nil), b[:pos]...), 0xff, 0xff, 0xff, 0xff, 0x0f), b[pos:]...), "huge-length"
	default:
		n := rapid.IntRange(1, 3).Draw(t, "nmut")
		how := "multi"
		for i := 0; i < n && len(b) > 0; i++ {
			b[rapid.IntRange(0, len(b)-1).Draw(t, "p")] = rapid.Byte().Draw(t, "v")
		}
		return b, how
	}
}

func sortedEntryNames(m map[string]entry) []string {
	var out []string
	for k := range m {
		out = append(out, k)
	}
	sort.Strings(out)
	return out
}

// TestC15A_ProtoBytes: arbitrary bytes, hostile wire constructions and byte-level mutations of
// valid encodings, each fed to EVERY pure proto entry point (so every entry also sees the valid
// encodings of all other types: type confusion through wire compatibility).
func TestC15A_ProtoBytes(t *testing.T) {
	ents := pureProtoEntries()
	names := sortedEntryNames(ents)
	fams := families()
	defer surveyDump(t)
	rapid.Check(t, func(rt *rapid.T) {
		var input []byte
		how := ""
		switch k := rapid.IntRange(0, 9).Draw(rt, "kind"); {
		case k == 0:
			input = rapid.SliceOfN(rapid.Byte(), 0, 200).Draw(rt, "raw")
			how = "random"
		case k == 1:
			switch rapid.IntRange(0, 4).Draw(rt, "hostile") {
			case 0:
				input = nested(rapid.IntRange(1, 3000).Draw(rt, "depth"), protowire.Number(rapid.IntRange(1, 3).Draw(rt, "field")))
				how = "nested"
			case 1:
				input = repeated(rapid.IntRange(1, 16000).Draw(rt, "n"), hostileFragments[rapid.IntRange(9, 11).Draw(rt, "frag")])
				how = "repeated-empty"
			case 2:
				input = repeated(rapid.IntRange(1, 2000).Draw(rt, "n"), []byte{0x0a, 0x02, 0x0a, 0x00})
				how = "repeated-nested-empty"
			case 3:
				// an envelope around a fragment
				f := hostileFragments[rapid.IntRange(0, len(hostileFragments)-1).Draw(rt, "frag")]
				input = protowire.AppendBytes(protowire.AppendTag(nil, protowire.Number(rapid.IntRange(1, 4).Draw(rt, "field")), protowire.BytesType), f)
				how = "wrapped-fragment"
			default:
				input = hostileFragments[rapid.IntRange(0, len(hostileFragments)-1).Draw(rt, "frag")]
				how = "fragment"
			}
		default:
			f := drawFamily(rt, fams)
			m := f.seed(rt, nil)
			if f.wrap != nil && rapid.Bool().Draw(rt, "wrapped") {
				m = f.wrap(m)
			}
			b, err := proto.Marshal(m)
			if err != nil {
				rt.Fatalf("HARNESS: marshal: %v", err)
			}
			if k <= 3 {
				input, how = b, "valid:"+f.name
			} else {
				var mk string
				input, mk = mutateBytes(rt, b)
				how = mk + ":" + f.name
			}
		}
		deepPoke = false
		defer func() { deepPoke = true }()
		input = exact(input)
		for _, name := range names {
			e := ents[name]
			p := &probe{part: "proto_bytes", entry: name, input: input, note: how}
			stage := 0
			p.run(rt, func() { stage = e.run(input) })
			lbl := stageLabel[stage]
			if lastCrash != nil {
				lbl = "crashed"
			}
			stats.Case("proto_bytes", fmt.Sprintf("%s|%s|%s", name, how, lbl), stage >= 1 || lastCrash != nil, "entry:"+name, "input:"+how, lbl)
		}
	})
}

var _ = gen.Hash
