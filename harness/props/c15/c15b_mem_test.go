// C15 (b) — interpreter memory versus gas (DESIGN.md §4 C15 (b)).
//
// Programs from the evmgen grammar, biased to memory-touching opcodes of every kind (MLOAD,
// MSTORE, MSTORE8, MCOPY, SHA3, CALLDATACOPY, CODECOPY, EXTCODECOPY, RETURNDATACOPY, LOGn, RETURN,
// REVERT, CREATE, CREATE2, the four call opcodes, ETX) with offset/size operands from
// {0,1,31,32,33,2^10,2^16,2^20,2^24}, run through core.ApplyTransaction with gas budgets from the
// intrinsic cost to 5M. The tracer records the peak Memory.Len() of every frame.
//
// Oracle: for every frame, memoryGas(peak) = 3w + w^2/512 (w = words) is at most the gas limit of
// the transaction: memory can never exceed what the whole budget could buy. It cannot fire on
// correctly metered code and fires for any opcode whose expansion is not (fully) charged.
package c15

import (
	"fmt"
	"math/big"
	"runtime/debug"
	"strings"
	"testing"

	"github.com/dominant-strategies/go-quai/core/types"
	"github.com/dominant-strategies/go-quai/core/vm"
	"pgregory.net/rapid"

	"verifharness/evmgen"
	"verifharness/stats"
)

const c15bFpETX = "C15/mem-unmetered/op=ETX"

func c15bMemoryGas(bytes int) uint64 {
	w := (uint64(bytes) + 31) / 32
	return 3*w + w*w/512
}

func c15bExclusions() *evmgen.Exclusions {
	x := &evmgen.Exclusions{ETXUnmeteredMem: stats.IsKnown(c15bFpETX)}
	x.OnExcluded = func(class string) {
		if class == "etx-unmetered-mem" {
			stats.Excluded(c15bFpETX)
		}
	}
	return x
}

type c15bReport struct {
	labels     []string
	nontrivial bool
	sig        []string
	fps        []string
}

func c15bDump(c *evmgen.Case, o *evmgen.Outcome, extra map[string]any) map[string]any {
	m := map[string]any{"case": c.Dump()}
	if o != nil && o.Tracer != nil {
		m["trace"] = o.Tracer.Dump()
	}
	for k, v := range extra {
		m[k] = v
	}
	return m
}

func c15bCheck(t stats.TB, part string, c *evmgen.Case, o *evmgen.Outcome) *c15bReport {
	rp := &c15bReport{}
	rp.labels = append(rp.labels, "mode:"+c.Mode, "gas:"+c.Tx.GasClass)
	if o.Res.Err != nil {
		rp.labels = append(rp.labels, "tx-rejected")
		rp.sig = []string{"rejected"}
		return rp
	}
	if o.Res.Receipt.Status == types.ReceiptStatusSuccessful {
		rp.labels = append(rp.labels, "tx-ok")
	} else {
		rp.labels = append(rp.labels, "tx-failed")
	}
	peak := 0
	grown := map[string]bool{}
	for _, f := range o.Tracer.Frames {
		if f.PeakMem > peak {
			peak = f.PeakMem
		}
		if f.BigGrow >= 1024 {
			grown[f.BigGrowOp.String()] = true
		}
		need := c15bMemoryGas(f.PeakMem)
		if need > c.Tx.Gas {
			fp := "C15/mem-unmetered/op=" + f.BigGrowOp.String()
			msg := fmt.Sprintf("frame %d (%s, depth %d, self %s) grew its memory to %d bytes; metered expansion to that size costs %d gas but the whole transaction has a gas limit of %d (used %d). Largest single growth: %d bytes at opcode %s",
				f.ID, f.Kind, f.Depth, evmgen.U().Name(f.Self), f.PeakMem, need, c.Tx.Gas, o.Res.Receipt.GasUsed, f.BigGrow, f.BigGrowOp)
			rp.fps = append(rp.fps, fp)
			stats.Violation(t, part, fp, msg, c15bDump(c, o, map[string]any{"frame": f.ID, "peak_mem": f.PeakMem, "memory_gas": need}))
		}
	}
	switch {
	case peak <= 1<<10:
		rp.labels = append(rp.labels, "peak<=1K")
	case peak <= 1<<16:
		rp.labels = append(rp.labels, "peak<=64K")
	case peak <= 1<<20:
		rp.labels = append(rp.labels, "peak<=1M")
	default:
		rp.labels = append(rp.labels, "peak>1M")
	}
	rp.nontrivial = peak > 1<<10
	var ops []string
	for op := range grown {
		rp.labels = append(rp.labels, "grow>=1K:"+op)
		ops = append(ops, op)
	}
	if len(o.Tracer.Frames) > 1 {
		rp.labels = append(rp.labels, "nested-frames")
	}
	// signature: which opcodes grew memory by >= 1 KiB, peak class, outcome
	sortStrings(ops)
	rp.sig = append(ops, rp.labels[len(rp.labels)-1], fmt.Sprintf("status=%d", o.Res.Receipt.Status), fmt.Sprintf("peakbits=%d", bitlen(peak)))
	return rp
}

func bitlen(n int) int {
	b := 0
	for n > 0 {
		b++
		n >>= 1
	}
	return b
}

func sortStrings(s []string) {
	for i := 1; i < len(s); i++ {
		for j := i; j > 0 && s[j] < s[j-1]; j-- {
			s[j], s[j-1] = s[j-1], s[j]
		}
	}
}

// TestC15B_MemoryVsGas is the generated search.
func TestC15B_MemoryVsGas(t *testing.T) {
	excl := c15bExclusions()
	rapid.Check(t, func(rt *rapid.T) {
		cfg := evmgen.MemCfg()
		cfg.Excl = excl
		mode := []string{evmgen.ModeTracedEnforced, evmgen.ModeTracedBypass}[rapid.IntRange(0, 1).Draw(rt, "c15bmode")]
		c := evmgen.GenCase(rt, evmgen.CaseOpts{Cfg: cfg, AllowETX: true, ForceMode: mode, ContractPct: 80})
		var o *evmgen.Outcome
		var err error
		func() {
			// no generated program may crash the interpreter
			defer func() {
				if r := recover(); r != nil {
					cr := analyse(r, debug.Stack())
					stats.Violation(rt, "memgas", "C15/panic/"+cr.fp, fmt.Sprintf("executing a generated program panics: %v", r), c15bDump(c, nil, map[string]any{"panic": fmt.Sprint(r), "stack_top": cr.fp}))
				}
			}()
			o, err = c.Run()
		}()
		if o == nil && err == nil {
			return
		}
		if err != nil {
			rt.Fatalf("HARNESS: %v", err)
		}
		rp := c15bCheck(rt, "memgas", c, o)
		stats.Case("memgas", strings.Join(rp.sig, ","), rp.nontrivial, rp.labels...)
		if rp.nontrivial && stats.WantSample("memgas") {
			d := c.Dump()
			fr := []string{}
			for _, f := range o.Tracer.Frames {
				fr = append(fr, fmt.Sprintf("frame%d %s peak=%d biggest-step=%d@%s", f.ID, f.Kind, f.PeakMem, f.BigGrow, f.BigGrowOp))
			}
			stats.Sample("memgas", map[string]any{"tx": d["tx"], "frames": fr, "kinds": d["kinds"]})
		}
	})
}

// c15bHand builds a deterministic case: EOA4 calls contract0 with the given gas.
func c15bHand(gas uint64, code func(a *evmgen.Asm)) *evmgen.Case {
	u := evmgen.U()
	a := evmgen.NewAsm()
	code(a)
	p := a.Assemble()
	env := &evmgen.Env{BlockNumber: 3_500_000, PrimeTerminusNumber: evmgen.Regimes[len(evmgen.Regimes)-1], BaseFee: bigInt(7), GasLimit: 12_000_000, Time: 1_700_000_000,
		QuaiStateSize: bigInt(1_000_000), Eligible: evmgen.EligibleMask(*u.ForeignQuai[0].Location()), Coinbase: u.EOAs[0].Addr}
	pre := &evmgen.PreState{Accounts: []evmgen.AccountSpec{
		{Addr: u.Contracts[0], Balance: bigInt(1_000_000), Nonce: 1, Code: &p},
		{Addr: u.EOAs[4].Addr, Balance: bigInt(0).Exp(bigInt(10), bigInt(24), nil)},
	}}
	to := u.Contracts[0]
	return &evmgen.Case{Env: env, Pre: pre, Mode: evmgen.ModeTracedBypass, CleanFrom: true,
		Tx: evmgen.TxSpec{Kind: "quai", From: 4, To: &to, ToClass: "contract", Gas: gas, GasClass: "hand", Price: bigInt(7), PriceClass: "basefee", Value: bigInt(0), ALClass: "empty"}}
}

// TestC15B_Handwritten: (a) the minimal input of the recorded finding (ETX with a 1 MiB data
// region for ~21k gas), reported through stats.Violation (KNOWN-FINDING when listed); (b) anchors
// showing that every other memory opcode is charged: a 1 MiB touch with a 100k budget must end in
// out-of-gas with the memory NOT grown.
func TestC15B_Handwritten(t *testing.T) {
	if stats.Shard() != 0 {
		t.Skip("deterministic cases run on shard 0 only")
	}
	u := evmgen.U()
	const big = 1 << 20
	type hw struct {
		name string
		fp   string // expected finding ("" = must be clean and must NOT grow memory)
		mk   func(a *evmgen.Asm)
	}
	cases := []hw{
		{"ETX-1MiB-data", c15bFpETX, func(a *evmgen.Asm) {
			a.Push(0).Push(0).Push(big).Push(0).Push(0).Push(0).Push(21000).Push(0).PushAddr(u.ForeignQuai[0]).Push(0).Op(vm.ETX, vm.POP, vm.STOP)
		}},
		{"ETX-1MiB-accesslist-offset", c15bFpETX, func(a *evmgen.Asm) {
			a.Push(1).Push(big-1).Push(0).Push(0).Push(0).Push(0).Push(21000).Push(0).PushAddr(u.ForeignQuai[0]).Push(0).Op(vm.ETX, vm.POP, vm.STOP)
		}},
		{"MLOAD", "", func(a *evmgen.Asm) { a.Push(big).Op(vm.MLOAD, vm.POP) }},
		{"MSTORE", "", func(a *evmgen.Asm) { a.Push(1).Push(big).Op(vm.MSTORE) }},
		{"MSTORE8", "", func(a *evmgen.Asm) { a.Push(1).Push(big).Op(vm.MSTORE8) }},
		{"MCOPY", "", func(a *evmgen.Asm) { a.Push(big).Push(0).Push(0).Op(vm.MCOPY) }},
		{"SHA3", "", func(a *evmgen.Asm) { a.Push(big).Push(0).Op(vm.SHA3, vm.POP) }},
		{"CALLDATACOPY", "", func(a *evmgen.Asm) { a.Push(big).Push(0).Push(0).Op(vm.CALLDATACOPY) }},
		{"CODECOPY", "", func(a *evmgen.Asm) { a.Push(big).Push(0).Push(0).Op(vm.CODECOPY) }},
		{"EXTCODECOPY", "", func(a *evmgen.Asm) { a.Push(big).Push(0).Push(0).PushAddr(u.Contracts[0]).Op(vm.EXTCODECOPY) }},
		{"RETURNDATACOPY", "", func(a *evmgen.Asm) { a.Push(big).Push(0).Push(0).Op(vm.RETURNDATACOPY) }},
		{"LOG0", "", func(a *evmgen.Asm) { a.Push(big).Push(0).Op(vm.LOG0) }},
		{"RETURN", "", func(a *evmgen.Asm) { a.Push(big).Push(0).Op(vm.RETURN) }},
		{"REVERT", "", func(a *evmgen.Asm) { a.Push(big).Push(0).Op(vm.REVERT) }},
		{"CREATE", "", func(a *evmgen.Asm) { a.Push(big).Push(0).Push(0).Op(vm.CREATE, vm.POP) }},
		{"CREATE2", "", func(a *evmgen.Asm) { a.Push(0).Push(big).Push(0).Push(0).Op(vm.CREATE2, vm.POP) }},
		{"CALL-in", "", func(a *evmgen.Asm) {
			a.Push(0).Push(0).Push(big).Push(0).Push(0).PushAddr(u.Precompiles[3]).Op(vm.GAS, vm.CALL, vm.POP)
		}},
		{"CALL-out", "", func(a *evmgen.Asm) {
			a.Push(big).Push(0).Push(0).Push(0).Push(0).PushAddr(u.Precompiles[3]).Op(vm.GAS, vm.CALL, vm.POP)
		}},
		{"CALLCODE-out", "", func(a *evmgen.Asm) {
			a.Push(big).Push(0).Push(0).Push(0).Push(0).PushAddr(u.Precompiles[3]).Op(vm.GAS, vm.CALLCODE, vm.POP)
		}},
		{"DELEGATECALL-in", "", func(a *evmgen.Asm) {
			a.Push(0).Push(0).Push(big).Push(0).PushAddr(u.Precompiles[3]).Op(vm.GAS, vm.DELEGATECALL, vm.POP)
		}},
		{"STATICCALL-out", "", func(a *evmgen.Asm) {
			a.Push(big).Push(0).Push(0).Push(0).PushAddr(u.Precompiles[3]).Op(vm.GAS, vm.STATICCALL, vm.POP)
		}},
	}
	for _, tc := range cases {
		tc := tc
		t.Run(tc.name, func(t *testing.T) {
			c := c15bHand(100_000, tc.mk)
			o, err := c.Run()
			if err != nil {
				t.Fatalf("HARNESS: %v", err)
			}
			if o.Res.Err != nil {
				t.Fatalf("HARNESS: transaction rejected: %v", o.Res.Err)
			}
			rp := c15bCheck(t, "handwritten", c, o)
			stats.Case("handwritten", tc.name, true, append(rp.labels, "hand:"+tc.name)...)
			if tc.fp == "" {
				// correctly metered: 1 MiB costs ~2.2M gas, the budget is 100k => out of gas before the resize
				for _, f := range o.Tracer.Frames {
					if f.PeakMem >= big {
						t.Fatalf("HARNESS: anchor %s grew memory to %d bytes without tripping the oracle", tc.name, f.PeakMem)
					}
				}
				if o.Res.Receipt.Status == types.ReceiptStatusSuccessful {
					t.Fatalf("HARNESS: anchor %s was expected to run out of gas on a 1 MiB touch with a 100k budget", tc.name)
				}
				return
			}
			seen := false
			for _, fp := range rp.fps {
				seen = seen || fp == tc.fp
			}
			if !seen && stats.IsKnown(tc.fp) {
				t.Fatalf("HARNESS: finding %s is listed as known but its minimal input no longer reproduces it (observed %v); if the defect was repaired set its status to \"fixed\"", tc.fp, rp.fps)
			}
		})
	}
}

func bigInt(v int64) *big.Int { return big.NewInt(v) }
