package c15

import (
	"bytes"
	"fmt"
	"math/big"
	"testing"

	"github.com/dominant-strategies/go-quai/common"
	"github.com/dominant-strategies/go-quai/core/state"
	"github.com/dominant-strategies/go-quai/core/types"
	"github.com/dominant-strategies/go-quai/rlp"
	"pgregory.net/rapid"

	"verifharness/gen"
	"verifharness/stats"
)

// ---- a generic RLP tree for structure-aware mutation -------------------------------------------

type rnode struct {
	list bool
	str  []byte
	kids []*rnode
}

func parseRLP(b []byte) (*rnode, []byte, error) {
	k, content, rest, err := rlp.Split(b)
	if err != nil {
		return nil, nil, err
	}
	if k != rlp.List {
		return &rnode{str: append([]byte(nil), content...)}, rest, nil
	}
	n := &rnode{list: true}
	for len(content) > 0 {
		var kid *rnode
		kid, content, err = parseRLP(content)
		if err != nil {
			return nil, nil, err
		}
		n.kids = append(n.kids, kid)
	}
	return n, rest, nil
}

func (n *rnode) encode() []byte {
	if !n.list {
		b, _ := rlp.EncodeToBytes(n.str)
		return b
	}
	var raws []rlp.RawValue
	for _, k := range n.kids {
		raws = append(raws, k.encode())
	}
	b, _ := rlp.EncodeToBytes(raws)
	return b
}

func (n *rnode) clone() *rnode {
	c := &rnode{list: n.list, str: append([]byte(nil), n.str...)}
	for _, k := range n.kids {
		c.kids = append(c.kids, k.clone())
	}
	return c
}

type rmut struct {
	path []int
	op   string
	f    func(n *rnode)
}

func (m rmut) String() string { return fmt.Sprintf("%v:%s", m.path, m.op) }
func (m rmut) sig() string    { return fmt.Sprintf("d%d:%s", len(m.path), m.op) }

func rlpMutations(root *rnode) []rmut {
	var out []rmut
	var walk func(n *rnode, path []int)
	walk = func(n *rnode, path []int) {
		p := append([]int(nil), path...)
		add := func(op string, f func(*rnode)) { out = append(out, rmut{p, op, f}) }
		if n.list {
			add("list->emptystring", func(x *rnode) { x.list, x.kids, x.str = false, nil, nil })
			add("list->string", func(x *rnode) { x.list, x.kids, x.str = false, nil, []byte{1, 2, 3} })
			add("list-empty", func(x *rnode) { x.kids = nil })
			add("list-append-emptystring", func(x *rnode) { x.kids = append(x.kids, &rnode{}) })
			add("list-append-emptylist", func(x *rnode) { x.kids = append(x.kids, &rnode{list: true}) })
			add("list-prepend-emptylist", func(x *rnode) { x.kids = append([]*rnode{{list: true}}, x.kids...) })
			if len(n.kids) > 0 {
				add("list-drop-last", func(x *rnode) { x.kids = x.kids[:len(x.kids)-1] })
				add("list-drop-first", func(x *rnode) { x.kids = x.kids[1:] })
				add("list-dup-last", func(x *rnode) { x.kids = append(x.kids, x.kids[len(x.kids)-1].clone()) })
			}
			for i, k := range n.kids {
				walk(k, append(p, i))
			}
			return
		}
		add("str->emptylist", func(x *rnode) { x.list, x.str = true, nil })
		add("str->list1", func(x *rnode) { x.list, x.kids, x.str = true, []*rnode{{str: x.str}}, nil })
		add("str-len0", func(x *rnode) { x.str = nil })
		add("str-len1", func(x *rnode) { x.str = []byte{0xff} })
		add("str-zero", func(x *rnode) { x.str = []byte{0} }) // non-canonical integer
		if len(n.str) > 0 {
			add("str-len-1", func(x *rnode) { x.str = x.str[:len(x.str)-1] })
			add("str-leadzero", func(x *rnode) { x.str = append([]byte{0}, x.str...) })
		}
		add("str-len+1", func(x *rnode) { x.str = append(x.str, 0) })
		add("str-len33", func(x *rnode) { x.str = bytes.Repeat([]byte{0xfe}, 33) })
	}
	walk(root, nil)
	return out
}

func applyRmut(root *rnode, m rmut) *rnode {
	c := root.clone()
	n := c
	for _, i := range m.path {
		n = n.kids[i]
	}
	m.f(n)
	return c
}

// ---- entry points ------------------------------------------------------------------------------

func rlpEntries() map[string]entry {
	m := map[string]entry{}
	add := func(name string, f func(b []byte) int) { m[name] = entry{name, f} }
	// typed transaction bytes: the transaction journal, the receipts' ETX lists, DeriveSha inputs
	add("Transaction.UnmarshalBinary", func(b []byte) int {
		tx := new(types.Transaction)
		if tx.UnmarshalBinary(b) != nil {
			return 1
		}
		pokeTx(tx, zoneLoc)
		return 2
	})
	// rlp.DecodeBytes into a transaction: StateDB.ReadETX / PopETX (the ETX queue in the state) and
	// the pool journal; followed by exactly what ReadETX does next.
	add("rlp->Transaction", func(b []byte) int {
		tx := new(types.Transaction)
		if rlp.DecodeBytes(b, tx) != nil {
			return 1
		}
		stepAs("state.StateDB.ReadETX", func() {
			if tx.Type() == types.ExternalTxType {
				tx.SetTo(common.BytesToAddress(tx.To().Bytes(), zoneLoc))
			}
		})
		pokeTx(tx, zoneLoc)
		return 2
	})
	add("rlp->Receipt", func(b []byte) int {
		r := new(types.Receipt)
		if rlp.DecodeBytes(b, r) != nil {
			return 1
		}
		step(func() { _ = r.Size() })
		step(func() { rlp.EncodeToBytes(r) })
		step(func() { types.DeriveSha(types.Receipts{r}, newHasher()) })
		step(func() { r.MarshalJSON() })
		return 2
	})
	add("rlp->ReceiptsForStorage", func(b []byte) int {
		var rs []*types.ReceiptForStorage
		if rlp.DecodeBytes(b, &rs) != nil {
			return 1
		}
		step(func() {
			for _, r := range rs {
				rlp.EncodeToBytes(r)
				(*types.Receipt)(r).MarshalJSON()
			}
		})
		return 2
	})
	add("rlp->Log", func(b []byte) int {
		l := new(types.Log)
		if rlp.DecodeBytes(b, l) != nil {
			return 1
		}
		step(func() { l.MarshalJSON(); rlp.EncodeToBytes(l) })
		return 2
	})
	add("rlp->LogForStorage", func(b []byte) int {
		l := new(types.LogForStorage)
		if rlp.DecodeBytes(b, l) != nil {
			return 1
		}
		step(func() { rlp.EncodeToBytes(l) })
		return 2
	})
	// the ETX opcode decodes contract-supplied bytes into an access list
	add("rlp->AccessList", func(b []byte) int {
		var al types.AccessList
		if rlp.DecodeBytes(b, &al) != nil {
			return 1
		}
		step(func() { _ = al.StorageKeys(); al.ProtoEncode(); al.ConvertToMixedCase() })
		return 2
	})
	add("rlp->state.Account", func(b []byte) int {
		a := new(state.Account)
		if rlp.DecodeBytes(b, a) != nil {
			return 1
		}
		step(func() { rlp.EncodeToBytes(a) })
		return 2
	})
	add("rlp->Address", func(b []byte) int {
		a := new(common.Address)
		if rlp.DecodeBytes(b, a) != nil {
			return 1
		}
		step(func() { _, _ = a.Bytes(), a.Hex(); rlp.EncodeToBytes(a) })
		return 2
	})
	add("rlp->generic", func(b []byte) int {
		ok := 1
		var h common.Hash
		var bi *big.Int
		var u uint64
		var bs [][]byte
		var raw []rlp.RawValue
		var iface interface{}
		for _, v := range []interface{}{&h, &bi, &u, &bs, &raw, &iface} {
			if rlp.DecodeBytes(b, v) == nil {
				ok = 2
			}
		}
		return ok
	})
	return m
}

type rlpSeed struct {
	name string
	mk   func(t *rapid.T, g *gen.Tags) []byte
}

func mustRLP(t *rapid.T, v interface{}) []byte {
	b, err := rlp.EncodeToBytes(v)
	if err != nil {
		t.Fatalf("HARNESS: rlp encode: %v", err)
	}
	return b
}

func rlpSeeds() []rlpSeed {
	return []rlpSeed{
		{"tx-binary", func(t *rapid.T, g *gen.Tags) []byte {
			b, err := gen.Tx(t, zoneLoc, -1, g).MarshalBinary()
			if err != nil {
				t.Fatalf("HARNESS: %v", err)
			}
			return b
		}},
		{"tx-rlp", func(t *rapid.T, g *gen.Tags) []byte { return mustRLP(t, gen.Tx(t, zoneLoc, -1, g)) }},
		{"etx-rlp", func(t *rapid.T, g *gen.Tags) []byte { return mustRLP(t, gen.ExternalTx(t, zoneLoc, -1, g)) }},
		{"receipt", func(t *rapid.T, g *gen.Tags) []byte { return mustRLP(t, gen.Receipt(t, "r", zoneLoc, false, g)) }},
		{"receipts-storage", func(t *rapid.T, g *gen.Tags) []byte {
			rs := gen.Receipts(t, zoneLoc, false, g)
			out := make([]*types.ReceiptForStorage, len(rs))
			for i, r := range rs {
				out[i] = (*types.ReceiptForStorage)(r)
			}
			return mustRLP(t, out)
		}},
		{"log", func(t *rapid.T, g *gen.Tags) []byte { return mustRLP(t, gen.Log(t, "l", zoneLoc)) }},
		{"accesslist", func(t *rapid.T, g *gen.Tags) []byte {
			al := gen.AccessList(t, "al", zoneLoc, g)
			if al == nil {
				al = types.AccessList{}
			}
			return mustRLP(t, al)
		}},
		{"account", func(t *rapid.T, g *gen.Tags) []byte {
			return mustRLP(t, &state.Account{Nonce: gen.U64(t, "n"), Balance: gen.Big(t, "b", 256), Root: gen.Hash(t, "root"), CodeHash: gen.Blob(t, "ch", 32), Size: gen.Big(t, "sz", 64)})
		}},
	}
}

// TestC15A_RLP: (i) arbitrary bytes and byte-mutated valid encodings, (ii) every single-node
// mutation of the RLP tree of a valid encoding (element dropped / duplicated / emptied /
// truncated / string<->list confusion, non-canonical integers), fed to every RLP decode target
// the node uses (typed and plain transactions incl. the state's ETX queue path, receipts in the
// consensus and the storage form, logs, the ETX opcode's access list, state accounts, addresses).
func TestC15A_RLP(t *testing.T) {
	ents := rlpEntries()
	names := sortedEntryNames(ents)
	seeds := rlpSeeds()
	defer surveyDump(t)
	feed := func(rt *rapid.T, input []byte, how, sig string) {
		input = exact(input)
		for _, name := range names {
			e := ents[name]
			p := &probe{part: "rlp", entry: name, input: input, note: how}
			stage := 0
			p.run(rt, func() { stage = e.run(input) })
			lbl := stageLabel[stage]
			if lastCrash != nil {
				lbl = "crashed"
			}
			stats.Case("rlp", name+"|"+sig+"|"+lbl, stage == 2 || lastCrash != nil, "entry:"+name, lbl)
		}
	}
	rapid.Check(t, func(rt *rapid.T) {
		g := &gen.Tags{}
		switch k := rapid.IntRange(0, 9).Draw(rt, "kind"); {
		case k == 0:
			feed(rt, rapid.SliceOfN(rapid.Byte(), 0, 120).Draw(rt, "raw"), "random", "random")
		case k == 1:
			// hostile constructions: deep nesting, huge declared sizes
			switch rapid.IntRange(0, 3).Draw(rt, "hostile") {
			case 0:
				d := rapid.IntRange(1, 5000).Draw(rt, "depth")
				feed(rt, append(bytes.Repeat([]byte{0xc1}, d), 0xc0), "nested-lists", "nested")
			case 1:
				feed(rt, []byte{0xbf, 0xff, 0xff, 0xff, 0xff, 0xff, 0xff, 0xff, 0xff}, "string with 2^64-1 declared length", "hugelen")
			case 2:
				feed(rt, []byte{0xff, 0x7f, 0xff, 0xff, 0xff, 0xff, 0xff, 0xff, 0xff}, "list with 2^63-1 declared length", "hugelen")
			default:
				n := rapid.IntRange(1, 20000).Draw(rt, "n")
				feed(rt, mustRLP(rt, make([]rlp.RawValue, 0, 0)), "empty list", "emptylist")
				body := bytes.Repeat([]byte{0xc0}, n)
				b, _ := rlp.EncodeToBytes(rlp.RawValue(nil))
				_ = b
				hdr := mustRLP(rt, bytesAsRaw(body))
				feed(rt, hdr, fmt.Sprintf("list of %d empty lists", n), "many-empty")
			}
		case k <= 3:
			s := seeds[rapid.IntRange(0, len(seeds)-1).Draw(rt, "seed")]
			b, how := mutateBytes(rt, s.mk(rt, g))
			feed(rt, b, how+":"+s.name, "bytes:"+how+":"+s.name)
		default:
			s := seeds[rapid.IntRange(0, len(seeds)-1).Draw(rt, "seed")]
			enc := s.mk(rt, g)
			feed(rt, enc, "valid:"+s.name, "valid:"+s.name)
			prefix := []byte(nil)
			body := enc
			if s.name == "tx-binary" && len(enc) > 0 && enc[0] < 0x80 {
				prefix, body = enc[:1], enc[1:]
			}
			root, rest, err := parseRLP(body)
			if err != nil || len(rest) != 0 {
				rt.Fatalf("HARNESS: generated %s encoding does not parse as one RLP value: %v", s.name, err)
			}
			// typed receipts wrap a type byte + list into a string: descend into it
			if !root.list && len(root.str) > 1 && root.str[0] < 0x80 {
				if inner, r2, err := parseRLP(root.str[1:]); err == nil && len(r2) == 0 && inner.list {
					tb := root.str[0]
					for _, m := range rlpMutations(inner) {
						payload := append([]byte{tb}, applyRmut(inner, m).encode()...)
						feed(rt, mustRLP(rt, payload), s.name+" inner "+m.String(), s.name+":inner:"+m.sig())
					}
				}
			}
			for _, m := range rlpMutations(root) {
				feed(rt, append(append([]byte(nil), prefix...), applyRmut(root, m).encode()...), s.name+" "+m.String(), s.name+":"+m.sig())
			}
			if len(prefix) == 1 {
				for _, tb := range []byte{0, 1, 2, 3, 0x7f} {
					feed(rt, append([]byte{tb}, body...), fmt.Sprintf("%s type byte %d", s.name, tb), fmt.Sprintf("%s:type=%d", s.name, tb))
				}
			}
		}
	})
}

// bytesAsRaw wraps already-encoded list items into one list.
func bytesAsRaw(items []byte) []rlp.RawValue {
	out := make([]rlp.RawValue, 0, len(items))
	for _, b := range items {
		out = append(out, rlp.RawValue{b})
	}
	return out
}
