package c15

import (
	"fmt"
	"strings"
	"testing"

	"github.com/dominant-strategies/go-quai/common"
	"github.com/dominant-strategies/go-quai/core/types"
	"github.com/dominant-strategies/go-quai/p2p/pb"
	"github.com/dominant-strategies/go-quai/trie"
	"google.golang.org/protobuf/proto"
	"pgregory.net/rapid"

	"verifharness/gen"
	"verifharness/stats"
)

// ---- seeds: valid proto trees from the shared generators ---------------------------------------

// family groups a proto message type with the production entry points that accept its wire form.
type family struct {
	name    string
	seed    func(t *rapid.T, g *gen.Tags) proto.Message
	entries []string
	// wrap, if set, turns the (mutated) root into the bytes the "wrapped" entries take
	wrap           func(m proto.Message) proto.Message
	wrappedEntries []string
	// native: the entries of the view the seed was encoded for; value-level mutations (bytes,
	// numbers) go to these only, structural ones (fields / elements added or removed) to all
	native []string
	// deep: always run the expensive post-decode steps (otherwise only below aux_pow)
	deep bool
	opts enumOpts
}

func mustEnc[T proto.Message](t *rapid.T, m T, err error) T {
	if err != nil {
		t.Fatalf("HARNESS: encoding a generated object failed: %v", err)
	}
	return m
}

// consistentWo makes the body roots match the body (what SanityCheck*Body compares), so that
// mutated descendants of the tree are not all rejected by the first root comparison.
func consistentWo(wo *types.WorkObject) {
	h := wo.Body().Header()
	if h == nil {
		return
	}
	h.SetUncleHash(types.CalcUncleHash(wo.Uncles()))
	h.SetTxHash(types.DeriveSha(wo.Transactions(), trie.NewStackTrie(nil)))
	h.SetOutboundEtxHash(types.DeriveSha(wo.OutboundEtxs(), trie.NewStackTrie(nil)))
	wo.WorkObjectHeader().SetTxHash(h.TxHash())
}

func genWo(t *rapid.T, g *gen.Tags) *types.WorkObject {
	o := gen.WoOpts{Regime: gen.AnyRegime, AuxPow: -1}
	if rapid.IntRange(0, 2).Draw(t, "rich") > 0 {
		o = gen.WoOpts{Regime: gen.Regime(rapid.IntRange(1, 2).Draw(t, "rich_regime")), AuxPow: 1}
	}
	wo := gen.WorkObject(t, zoneLoc, o, g)
	if rapid.Bool().Draw(t, "consistent") {
		consistentWo(wo)
		g.Add("wo:consistent_roots")
	}
	return wo
}

func wrapView(m proto.Message) proto.Message {
	return &types.ProtoWorkObjectBlockView{WorkObject: m.(*types.ProtoWorkObject)}
}

// the Block, Header and WorkShareTx views are reached through pb.UnmarshalAndConvert (same decoder)
var woRawEntries = []string{"WorkObject.ProtoDecode/PEtx", "WorkObject.ProtoDecode/WorkShare"}
var woViewEntries = []string{"pb.UnmarshalAndConvert/BlockView", "pb.UnmarshalAndConvert/HeaderView", "pb.UnmarshalAndConvert/ShareView"}

func families() []family {
	return []family{
		{name: "wo/block", seed: func(t *rapid.T, g *gen.Tags) proto.Message {
			wo := genWo(t, g)
			p, err := wo.ProtoEncode(types.BlockObject)
			return mustEnc(t, p, err)
		}, entries: woRawEntries, wrap: wrapView, wrappedEntries: woViewEntries, native: []string{"pb.UnmarshalAndConvert/BlockView"}, opts: enumOpts{addAbsent: true}},
		{name: "wo/share", seed: func(t *rapid.T, g *gen.Tags) proto.Message {
			wo := genWo(t, g)
			sv := wo.ConvertToWorkObjectShareView(wo.Transactions())
			p, err := sv.WorkObject.ProtoEncode(types.WorkShareTxObject)
			return mustEnc(t, p, err)
		}, entries: woRawEntries, wrap: wrapView, wrappedEntries: woViewEntries, native: []string{"pb.UnmarshalAndConvert/ShareView"}, opts: enumOpts{addAbsent: true}},
		{name: "wo/petx", seed: func(t *rapid.T, g *gen.Tags) proto.Message {
			wo := genWo(t, g)
			p, err := wo.ConvertToPEtxView().ProtoEncode(types.PEtxObject)
			return mustEnc(t, p, err)
		}, entries: woRawEntries, wrap: wrapView, wrappedEntries: woViewEntries, native: []string{"WorkObject.ProtoDecode/PEtx"}, opts: enumOpts{addAbsent: true}},
		{name: "tx", seed: func(t *rapid.T, g *gen.Tags) proto.Message {
			var tx *types.Transaction
			if rapid.IntRange(0, 3).Draw(t, "qi_special") == 0 {
				tx = gen.QiTx(t, zoneLoc, rapid.Bool().Draw(t, "ck"), false, g)
			} else {
				tx = gen.Tx(t, zoneLoc, -1, g)
			}
			p, err := tx.ProtoEncode()
			return mustEnc(t, p, err)
		}, entries: []string{"Transaction.ProtoDecode"}, deep: true, opts: enumOpts{addAbsent: true, big: true}},
		{name: "woheader", seed: func(t *rapid.T, g *gen.Tags) proto.Message {
			wh := gen.WorkObjectHeader(t, "wh", zoneLoc, gen.WoOpts{Regime: gen.AnyRegime, AuxPow: -1}, g)
			p, err := wh.ProtoEncode()
			return mustEnc(t, p, err)
		}, entries: []string{"WorkObjectHeader.ProtoDecode"}, deep: true, opts: enumOpts{addAbsent: true, big: true}},
		{name: "header", seed: func(t *rapid.T, g *gen.Tags) proto.Message {
			p, err := gen.Header(t, g).ProtoEncode()
			return mustEnc(t, p, err)
		}, entries: []string{"Header.ProtoDecode"}, opts: enumOpts{addAbsent: true}},
		{name: "auxpow", seed: func(t *rapid.T, g *gen.Tags) proto.Message {
			return gen.AuxPow(t, "ap", g).ProtoEncode()
		}, entries: []string{"AuxPow.ProtoDecode"}, deep: true, opts: enumOpts{addAbsent: true, big: true}},
		{name: "auxtemplate", seed: func(t *rapid.T, g *gen.Tags) proto.Message {
			return gen.AuxTemplate(t, "at", g).ProtoEncode()
		}, entries: []string{"AuxTemplate.ProtoDecode", "pb.UnmarshalAndConvert/AuxTemplate"}, deep: true, opts: enumOpts{addAbsent: true, big: true}},
		{name: "quaimsg/request", seed: func(t *rapid.T, g *gen.Tags) proto.Message {
			r := gen.Request(t, g)
			b, err := pb.EncodeQuaiRequest(r.ID, r.Loc, r.Data, r.RespType)
			if err != nil {
				t.Fatalf("HARNESS: EncodeQuaiRequest: %v", err)
			}
			m := new(pb.QuaiMessage)
			if err := proto.Unmarshal(b, m); err != nil {
				t.Fatalf("HARNESS: %v", err)
			}
			return m
		}, entries: []string{"pb.DecodeQuaiMessage"}, opts: enumOpts{addAbsent: true}},
		{name: "quaimsg/response", seed: func(t *rapid.T, g *gen.Tags) proto.Message {
			r := gen.Response(t, g)
			b, err := pb.EncodeQuaiResponse(r.ID, r.Loc, r.RespType, r.Data)
			if err != nil {
				t.Fatalf("HARNESS: EncodeQuaiResponse: %v", err)
			}
			m := new(pb.QuaiMessage)
			if err := proto.Unmarshal(b, m); err != nil {
				t.Fatalf("HARNESS: %v", err)
			}
			return m
		}, entries: []string{"pb.DecodeQuaiMessage"}, opts: enumOpts{addAbsent: true, maxDepth: 6}},
		{name: "hash", seed: func(t *rapid.T, g *gen.Tags) proto.Message {
			return gen.Hash(t, "h").ProtoEncode()
		}, entries: []string{"pb.UnmarshalAndConvert/Hash"}, opts: enumOpts{big: true}},
	}
}

// Every case mutates one "big" tree (a work object in one of its encodings, or a peer response
// carrying one) and two "small" ones, so that the small decoders are covered in every case.
var bigFamilies = []string{"wo/block", "wo/block", "wo/share", "wo/petx", "quaimsg/response"}
var smallFamilies = []string{"tx", "tx", "woheader", "woheader", "header", "auxpow", "auxtemplate", "quaimsg/request", "hash"}

func familyByName(fams []family, name string) *family {
	for i := range fams {
		if fams[i].name == name {
			return &fams[i]
		}
	}
	panic("HARNESS: no family " + name)
}

// drawFamily is used by the byte-level test: any family, small ones more often.
func drawFamily(t *rapid.T, fams []family) *family {
	if rapid.IntRange(0, 2).Draw(t, "family_big") == 0 {
		return familyByName(fams, bigFamilies[rapid.IntRange(0, len(bigFamilies)-1).Draw(t, "family")])
	}
	return familyByName(fams, smallFamilies[rapid.IntRange(0, len(smallFamilies)-1).Draw(t, "family")])
}

var stageLabel = [...]string{"rejected:wire", "rejected:decoder", "decoded"}

// feed drives the entries of the family with one (mutated) message and records the cases.
func feed(t stats.TB, part string, ents map[string]entry, f *family, m proto.Message, all, deep bool, how, sig string, tags []string) {
	raw, err := proto.Marshal(m)
	if err != nil {
		return // e.g. invalid UTF-8 in a string field: cannot be put on the wire by this encoder
	}
	var wrapped []byte
	if f.wrap != nil {
		wrapped, _ = proto.Marshal(f.wrap(m))
	}
	deepPoke = deep || f.deep
	defer func() { deepPoke = true }()
	isNative := func(name string) bool {
		if all || len(f.native) == 0 {
			return true
		}
		for _, n := range f.native {
			if n == name {
				return true
			}
		}
		return false
	}
	run := func(name string, b []byte) {
		if !isNative(name) {
			return
		}
		b = exact(b)
		e := ents[name]
		p := &probe{part: part, entry: name, input: b, note: how}
		stage := 0
		p.run(t, func() { stage = e.run(b) })
		if lastCrash != nil {
			stats.Case(part, name+"|"+sig, true, append([]string{"entry:" + name, "family:" + f.name, "crashed"}, tags...)...)
			return
		}
		stats.Case(part, name+"|"+sig, stage >= 1, append([]string{"entry:" + name, "family:" + f.name, stageLabel[stage]}, tags...)...)
	}
	for _, name := range f.entries {
		run(name, raw)
	}
	for _, name := range f.wrappedEntries {
		run(name, wrapped)
	}
}

func structural(op string) bool {
	return op == "nil" || op == "empty" || op == "absent->empty" || op == "clear" || strings.HasPrefix(op, "list-")
}

func opClass(op string) string {
	if i := strings.IndexAny(op, "=-+"); i > 0 && !strings.HasPrefix(op, "absent") {
		return "op:" + op[:i]
	}
	return "op:" + op
}

// TestC15A_ProtoStruct: for a generated valid tree, EVERY single-point structural mutation
// (see c15a_mutate_test.go) is applied and the result is sent through every production decode
// path of the family - including the views the tree was not encoded for (view mismatch).
// In the thorough tier every PAIR of cleared message fields is enumerated as well.
func TestC15A_ProtoStruct(t *testing.T) {
	ents := pureProtoEntries()
	fams := families()
	defer surveyDump(t)
	one := func(rt *rapid.T, f *family) {
		g := &gen.Tags{}
		root := f.seed(rt, g)
		o := f.opts
		if !stats.Thorough() {
			o.big = false
		}
		// the unmutated tree first
		feed(rt, "proto_struct", ents, f, root, true, true, "valid "+f.name, "valid", []string{"op:none"})
		muts := enumerate(root, o)
		for _, mu := range muts {
			ps := mu.pathString(false)
			feed(rt, "proto_struct", ents, f, mutate(root, mu), structural(mu.op), strings.Contains(ps, "aux_pow"), f.name+" "+mu.String(), mu.sig(), []string{opClass(mu.op)})
		}
		if stats.Thorough() {
			nils := nilMutations(muts)
			budget := 4000
			for i := 0; i < len(nils) && budget > 0; i++ {
				for j := i + 1; j < len(nils) && budget > 0; j++ {
					if removesSubtreeOf(nils[i], nils[j]) {
						continue
					}
					budget--
					feed(rt, "proto_struct", ents, f, mutate(root, nils[i], nils[j]), true, false,
						fmt.Sprintf("%s %s + %s", f.name, nils[i], nils[j]), nils[i].sig()+"+"+nils[j].sig(), []string{"op:pair-nil"})
				}
			}
		}
		if stats.WantSample("proto_struct") {
			stats.Sample("proto_struct", map[string]any{"family": f.name, "tags": g.List(), "mutations": len(muts)})
		}
	}
	rapid.Check(t, func(rt *rapid.T) {
		one(rt, familyByName(fams, bigFamilies[rapid.IntRange(0, len(bigFamilies)-1).Draw(rt, "big")]))
		for i := 0; i < 2; i++ {
			one(rt, familyByName(fams, smallFamilies[rapid.IntRange(0, len(smallFamilies)-1).Draw(rt, fmt.Sprintf("small%d", i))]))
		}
	})
}

var _ = common.Hash{}
