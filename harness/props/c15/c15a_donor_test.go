package c15

import (
	"bytes"
	"fmt"
	"testing"

	"github.com/dominant-strategies/go-quai/common/hexutil"
	"github.com/dominant-strategies/go-quai/core/types"
	"pgregory.net/rapid"

	"verifharness/gen"
	"verifharness/stats"
)

// Donor-chain data: raw donor headers (Bitcoin / Bitcoin Cash / Litecoin 80 bytes, Ravencoin 120
// bytes), donor coinbase transactions and the extractors the share validator and
// Core.SubmitBlock run over them, and Core.SubmitBlock itself (header || tx count || coinbase as
// a stratum proxy submits it) on a live zone node for every donor algorithm.

func donorEntries() map[string]entry {
	m := map[string]entry{}
	add := func(name string, f func(b []byte) int) { m[name] = entry{name, f} }
	add("DecodeRavencoinHeader", func(b []byte) int {
		h, err := types.DecodeRavencoinHeader(b)
		if err != nil {
			return 1
		}
		step(func() { _, _, _ = h.GetKAWPOWHeaderHash(), h.BlockHash(), h.PowHash() })
		step(func() { _ = h.EncodeBinaryRavencoinHeader(); _ = h.String(); _ = h.Size() })
		step(func() { ah := types.NewAuxPowHeader(h); _, _, _ = ah.Bytes(), ah.SealHash(), ah.Copy() })
		return 2
	})
	des := func(name string, mk func() types.AuxHeaderData) {
		add(name, func(b []byte) int {
			h := mk()
			if h.Deserialize(bytes.NewReader(b)) != nil {
				return 1
			}
			step(func() { _, _ = h.BlockHash(), h.PowHash() })
			step(func() {
				ah := types.NewAuxPowHeader(h)
				_, _, _, _, _ = ah.Bytes(), ah.Timestamp(), ah.MerkleRoot(), ah.PrevBlock(), ah.Copy()
				_, _, _, _ = ah.Nonce(), ah.Nonce64(), ah.Height(), ah.MixHash()
			})
			return 2
		})
	}
	des("BitcoinHeaderWrapper.Deserialize", func() types.AuxHeaderData { return &types.BitcoinHeaderWrapper{} })
	des("BitcoinCashHeaderWrapper.Deserialize", func() types.AuxHeaderData { return &types.BitcoinCashHeaderWrapper{} })
	des("LitecoinHeaderWrapper.Deserialize", func() types.AuxHeaderData { return &types.LitecoinHeaderWrapper{} })
	des("RavencoinBlockHeader.Deserialize", func() types.AuxHeaderData { return &types.RavencoinBlockHeader{} })
	// the coinbase utilities on a raw coinbase transaction, in the order the share validator and
	// SubmitBlock use them
	add("coinbase-extractors(tx)", func(b []byte) int {
		sig := types.ExtractScriptSigFromCoinbaseTx(b)
		step(func() { types.ExtractCoinbaseOutFromCoinbaseTx(b) })
		step(func() { types.ValidatePrevOutPointIndexAndSequenceOfCoinbase(b) })
		for id := types.Kawpow; id <= types.Scrypt; id++ {
			id := id
			step(func() { types.AuxPowTxHash(id, b) })
			step(func() {
				types.CalculateMerkleRoot(id, b, [][]byte{nil, {1}, bytes.Repeat([]byte{2}, 32), bytes.Repeat([]byte{3}, 33)})
			})
		}
		if sig == nil {
			return 1
		}
		step(func() { types.ExtractSignatureTimeFromCoinbase(sig) })
		step(func() { types.ExtractSealHashFromCoinbase(sig) })
		step(func() { types.ExtractHeightFromCoinbase(sig) })
		step(func() { types.ExtractMerkleSizeAndNonceFromCoinbase(sig) })
		return 2
	})
	// ... and on an arbitrary scriptSig
	add("coinbase-extractors(scriptSig)", func(b []byte) int {
		ok := 1
		step(func() {
			if _, err := types.ExtractSignatureTimeFromCoinbase(b); err == nil {
				ok = 2
			}
		})
		step(func() { types.ExtractSealHashFromCoinbase(b) })
		step(func() { types.ExtractHeightFromCoinbase(b) })
		step(func() { types.ExtractMerkleSizeAndNonceFromCoinbase(b) })
		return ok
	})
	return m
}

func submitBlockEntry(n *fullNode, id types.PowID) entry {
	name := "Core.SubmitBlock/" + id.String()
	return entry{name, func(b []byte) int {
		_, err := n.core.SubmitBlock(hexutil.Bytes(b), id)
		if err != nil {
			return 1
		}
		return 2
	}}
}

// donorSubmission builds header || varint(txcount) || coinbase for the algorithm.
func donorSubmission(t *rapid.T, id types.PowID) ([]byte, []byte, []byte) {
	hdr := gen.DonorHeader(t, "hdr", id).Bytes()
	cb := gen.CoinbaseTx(t, "cb", id)
	return hdr, []byte{1}, cb
}

func TestC15A_Donor(t *testing.T) {
	n := getNode(t)
	ents := donorEntries()
	pows := []types.PowID{types.Kawpow, types.SHA_BTC, types.SHA_BCH, types.Scrypt}
	for _, id := range pows {
		e := submitBlockEntry(n, id)
		ents[e.name] = e
	}
	names := sortedEntryNames(ents)
	defer surveyDump(t)
	feed := func(rt *rapid.T, input []byte, how, sig string) {
		input = exact(input) // a submission arrives as an exactly sized buffer
		for _, name := range names {
			e := ents[name]
			p := &probe{part: "donor", entry: name, input: input, note: how, noGoroutineCheck: true}
			stage := 0
			p.run(rt, func() { stage = e.run(input) })
			lbl := stageLabel[stage]
			if lastCrash != nil {
				lbl = "crashed"
			}
			stats.Case("donor", name+"|"+sig+"|"+lbl, stage == 2 || lastCrash != nil, "entry:"+name, lbl)
		}
	}
	rapid.Check(t, func(rt *rapid.T) {
		switch k := rapid.IntRange(0, 9).Draw(rt, "kind"); {
		case k == 0:
			feed(rt, rapid.SliceOfN(rapid.Byte(), 0, 300).Draw(rt, "raw"), "random", "random")
		case k == 1:
			// every length around the header sizes
			l := rapid.IntRange(0, 260).Draw(rt, "len")
			feed(rt, gen.Blob(rt, "blob", l), fmt.Sprintf("blob of %d bytes", l), "len")
		case k <= 3:
			// a coinbase transaction alone (valid, byte-mutated, truncated at every offset class)
			id := gen.PowID(rt, "pow")
			cb := gen.CoinbaseTx(rt, "cb", id)
			feed(rt, cb, "valid coinbase", "coinbase:valid")
			for i := 0; i < 6; i++ {
				b, how := mutateBytes(rt, cb)
				feed(rt, b, "coinbase "+how, "coinbase:"+how)
			}
			for _, cut := range []int{0, 1, 3, 4, 5, 40, 41, 42, 43, len(cb) - 1} {
				if cut >= 0 && cut < len(cb) {
					feed(rt, cb[:cut], fmt.Sprintf("coinbase cut at %d", cut), "coinbase:cut")
				}
			}
			// hostile script lengths right after the outpoint
			for _, v := range [][]byte{{0xfd, 0xff, 0xff}, {0xfe, 0xff, 0xff, 0xff, 0xff}, {0xff, 0xff, 0xff, 0xff, 0xff, 0xff, 0xff, 0xff, 0xff}, {0xff, 0xff, 0xff, 0xff, 0xff, 0xff, 0xff, 0xff, 0x7f}} {
				if len(cb) > 41 {
					b := append(append(append([]byte(nil), cb[:41]...), v...), cb[41:]...)
					feed(rt, b, fmt.Sprintf("coinbase script length varint %x", v), "coinbase:scriptlen")
				}
			}
		default:
			// a full submission for one algorithm, then mutated
			id := gen.PowID(rt, "pow")
			hdr, cnt, cb := donorSubmission(rt, id)
			full := append(append(append([]byte(nil), hdr...), cnt...), cb...)
			feed(rt, full, "valid submission "+id.String(), "submit:valid")
			feed(rt, hdr, "header only", "submit:hdr")
			feed(rt, append(append([]byte(nil), hdr...), 0), "header + zero tx count", "submit:count0")
			feed(rt, append(append([]byte(nil), hdr...), 0xfd), "header + truncated varint", "submit:varint")
			feed(rt, append(append([]byte(nil), hdr...), 0xff, 0xff, 0xff, 0xff, 0xff, 0xff, 0xff, 0xff, 0xff), "header + 2^64-1 txs", "submit:maxcount")
			feed(rt, append(append(append([]byte(nil), hdr...), 0xfd, 0x01, 0x00), cb...), "3-byte tx count", "submit:longcount")
			for _, l := range []int{79, 80, 81, 119, 120, 121} {
				if l <= len(full) {
					feed(rt, full[:l], fmt.Sprintf("submission cut at %d", l), "submit:cut")
				}
			}
			for i := 0; i < 6; i++ {
				b, how := mutateBytes(rt, full)
				feed(rt, b, "submission "+how, "submit:"+how)
			}
		}
	})
}
