package c15

import (
	"bytes"
	"encoding/json"
	"math/big"

	"github.com/dominant-strategies/go-quai/common"
	"github.com/dominant-strategies/go-quai/core/types"
	"github.com/dominant-strategies/go-quai/crypto"
	"github.com/dominant-strategies/go-quai/p2p/pb"
	"github.com/dominant-strategies/go-quai/params"
	"github.com/dominant-strategies/go-quai/trie"
	"google.golang.org/protobuf/proto"
)

// An entry is one production decode path fed with raw bytes. run returns how far the input got:
//   0 rejected by the first layer (wire-format unmarshal)
//   1 passed the first layer, rejected by the type's decoder
//   2 decoded; the accessors production calls next were applied too
// It panics when the code under test panics (the probe recovers).
type entry struct {
	name string
	run  func(b []byte) int
}

// ---- what production does next with a decoded object ------------------------------------------

var testChainCfg = &params.ChainConfig{ChainID: big.NewInt(1337), Location: common.Location{0, 0}}

// pokeTx: what the RPC layer, the pool and the block sanity checks do with a decoded transaction
// before any state is consulted.
func pokeTx(tx *types.Transaction, loc common.Location) {
	if tx == nil {
		return
	}
	_ = tx.Hash()
	_ = tx.Hash(loc...)
	_ = tx.Size()
	_ = tx.Type()
	_ = tx.To()
	_ = tx.Data()
	if p, err := tx.ProtoEncode(); err == nil {
		proto.Marshal(p)
	}
	tx.MarshalJSON()
	// the transaction root of a body is an RLP encoding of every transaction (SanityCheck*Body)
	types.DeriveSha(types.Transactions{tx}, trie.NewStackTrie(nil))
	submitTransactionSteps(tx, loc)
}

// submitTransactionSteps transcribes internal/quaiapi.SubmitTransaction (reached from
// quai_sendRawTransaction and workshare_receiveTxFromPoolSharingClient) up to the pool hand-over,
// with an RPC fee cap of 1 ether (the default configuration).
func submitTransactionSteps(tx *types.Transaction, loc common.Location) {
	if tx.Type() == types.QiTxType {
		return
	}
	feeEth := new(big.Float).Quo(new(big.Float).SetInt(new(big.Int).Mul(tx.GasPrice(), new(big.Int).SetUint64(tx.Gas()))), new(big.Float).SetInt(big.NewInt(params.Ether)))
	if f, _ := feeEth.Float64(); f > 1 {
		return
	}
	signer := types.MakeSigner(testChainCfg, big.NewInt(1))
	from, err := types.Sender(signer, tx)
	if err != nil {
		return
	}
	if tx.To() == nil {
		_ = crypto.CreateAddress(from, tx.Nonce(), tx.Data(), loc)
		_, _, _ = tx.Hash().Hex(), tx.Nonce(), tx.Value()
	} else {
		_, _, _, _ = tx.Hash().Hex(), tx.Nonce(), tx.To(), tx.Value()
	}
}

func pokeWoHeader(wh *types.WorkObjectHeader) {
	if wh == nil {
		return
	}
	_ = wh.Hash()
	_ = wh.SealHash()
	_ = wh.NumberU64()
	_ = wh.Location()
	_ = wh.PrimaryCoinbase()
	if p, err := wh.ProtoEncode(); err == nil {
		proto.Marshal(p)
	}
	json.Marshal(wh.RPCMarshalWorkObjectHeader("v2"))
	if ap := wh.AuxPow(); ap != nil {
		pokeAuxPow(ap)
	}
}

func pokeAuxPow(ap *types.AuxPow) {
	_ = ap.PowID()
	if h := ap.Header(); h != nil {
		_ = h.Timestamp()
		_ = h.MerkleRoot()
		_ = h.PowHash()
		_ = h.Bytes()
	}
	proto.Marshal(ap.ProtoEncode())
	json.Marshal(ap.RPCMarshal())
	// the share validator (and Core.SubmitBlock) run these on every AuxPoW that decodes
	sig := types.ExtractScriptSigFromCoinbaseTx(ap.Transaction())
	types.ExtractSignatureTimeFromCoinbase(sig)
	types.ExtractSealHashFromCoinbase(sig)
	types.ExtractHeightFromCoinbase(sig)
	types.ExtractMerkleSizeAndNonceFromCoinbase(sig)
	types.CalculateMerkleRoot(ap.PowID(), ap.Transaction(), ap.MerkleBranch())
	types.ValidatePrevOutPointIndexAndSequenceOfCoinbase(ap.Transaction())
	tpl := ap.ConvertToTemplate()
	_ = tpl.Hash()
	tpl.VerifySignature()
	types.CopyAuxPow(ap)
}

func pokeHeader(h *types.Header) {
	if h == nil {
		return
	}
	_ = h.Hash()
	_ = h.NumberArray()
	if p, err := h.ProtoEncode(); err == nil {
		proto.Marshal(p)
	}
	json.Marshal(h.RPCMarshalHeader())
	types.CopyHeader(h)
}

// pokeWo: hash / identity accessors every consumer of a decoded work object uses first, the
// re-encoding in the view it was decoded in (re-broadcast, serving a peer request), the RPC
// marshalling and the copy made by the append queue.
func pokeWo(wo *types.WorkObject, view types.WorkObjectView) {
	if wo == nil {
		return
	}
	_ = wo.Hash()
	_ = wo.SealHash()
	_ = wo.Location()
	_ = wo.Time()
	pokeWoHeader(wo.WorkObjectHeader())
	if wo.Body() != nil {
		pokeHeader(wo.Body().Header())
		for _, tx := range wo.Transactions() {
			_ = tx.Hash()
		}
		for _, tx := range wo.OutboundEtxs() {
			_ = tx.Hash()
		}
		for _, u := range wo.Uncles() {
			_ = u.Hash()
		}
		types.CalcUncleHash(wo.Uncles())
		types.DeriveSha(wo.Transactions(), trie.NewStackTrie(nil))
		types.DeriveSha(wo.OutboundEtxs(), trie.NewStackTrie(nil))
		types.DeriveSha(wo.Manifest(), trie.NewStackTrie(nil))
	}
	if p, err := wo.ProtoEncode(view); err == nil {
		proto.Marshal(p)
	}
	_ = wo.Size()
	json.Marshal(wo.RPCMarshalWorkObject("v2"))
	json.Marshal(wo.RPCMarshalHeader("v2"))
	types.CopyWorkObject(wo)
}

func pokeAuxTemplate(at *types.AuxTemplate) {
	at.VerifySignature()
	_ = at.Hash()
	_ = at.SignatureTime()
	proto.Marshal(at.ProtoEncode())
}

// ---- the pure decode entry points --------------------------------------------------------------

func entWoView(name string, view types.WorkObjectView, loc common.Location) entry {
	return entry{name, func(b []byte) int {
		p := new(types.ProtoWorkObject)
		if proto.Unmarshal(b, p) != nil {
			return 0
		}
		wo := new(types.WorkObject)
		if wo.ProtoDecode(p, loc, view) != nil {
			return 1
		}
		pokeWo(wo, view)
		return 2
	}}
}

// entUnmarshalAndConvert: the gossip subscription worker (pubsubManager.Subscribe) and what
// quai.OnNewBroadcast / P2PNode.handleBroadcast read from the value before handing it on.
func entUnmarshalAndConvert(name string, datatype interface{}, loc common.Location) entry {
	return entry{name, func(b []byte) int {
		var data interface{}
		if err := pb.UnmarshalAndConvert(b, loc, &data, datatype); err != nil {
			// the function does not tell the layers apart; redo the first one
			if probeFirstLayer(b, datatype) {
				return 1
			}
			return 0
		}
		switch v := data.(type) {
		case types.WorkObjectBlockView:
			_ = v.Time()
			_ = v.Hash()
			pokeWo(v.WorkObject, types.BlockObject)
		case types.WorkObjectHeaderView:
			_ = v.Time()
			_ = v.Hash()
			pokeWo(v.WorkObject, types.HeaderObject)
		case types.WorkObjectShareView:
			_ = v.WorkObject.WorkObjectHeader()
			_ = v.WorkObject.Transactions()
			_ = v.WorkObject.Hash()
			_ = v.Location().Name()
			pokeWo(v.WorkObject, types.WorkShareTxObject)
			// pb.ConvertAndMarshal is how a share is re-broadcast
			pb.ConvertAndMarshal(&v)
		case *types.AuxTemplate:
			pokeAuxTemplate(v)
			pb.ConvertAndMarshal(v)
		case common.Hash:
			pb.ConvertAndMarshal(v)
		}
		return 2
	}}
}

func probeFirstLayer(b []byte, datatype interface{}) bool {
	var m proto.Message
	switch datatype.(type) {
	case *types.WorkObjectBlockView:
		m = new(types.ProtoWorkObjectBlockView)
	case *types.WorkObjectHeaderView:
		m = new(types.ProtoWorkObjectHeaderView)
	case *types.WorkObjectShareView:
		m = new(types.ProtoWorkObjectShareView)
	case common.Hash:
		m = new(common.ProtoHash)
	case *types.AuxTemplate:
		m = new(types.ProtoAuxTemplate)
	default:
		return false
	}
	return proto.Unmarshal(b, m) == nil
}

// entQuaiMessage transcribes p2p/protocol.handleMessage -> handleRequest / handleResponse (minus
// the stream and the request manager): decode, then what the handler reads from the result.
func entQuaiMessage() entry {
	return entry{"pb.DecodeQuaiMessage", func(b []byte) int {
		msg, err := pb.DecodeQuaiMessage(b)
		if err != nil {
			return 0
		}
		switch {
		case msg.GetRequest() != nil:
			_, decodedType, loc, query, err := pb.DecodeQuaiRequest(msg.GetRequest())
			if err != nil {
				return 1
			}
			_ = loc.Name()
			_ = loc.Context()
			switch q := query.(type) {
			case *common.Hash:
				_ = q.String()
			case *big.Int:
				_ = q.String()
			}
			_ = decodedType
			return 2
		case msg.GetResponse() != nil:
			_, recvd, err := pb.DecodeQuaiResponse(msg.GetResponse())
			if err != nil {
				return 1
			}
			// P2PNode.requestFromPeer compares hashes, the consumers write the block
			switch v := recvd.(type) {
			case *types.WorkObjectBlockView:
				_ = v.Hash()
				pokeWo(v.WorkObject, types.BlockObject)
			case *types.WorkObjectHeaderView:
				_ = v.Hash()
				pokeWo(v.WorkObject, types.HeaderObject)
			case []*types.WorkObjectBlockView:
				for _, x := range v {
					_ = x.Hash()
					pokeWo(x.WorkObject, types.BlockObject)
				}
			case common.Hash:
				_ = v.String()
			}
			return 2
		}
		return 1
	}}
}

func entTx(loc common.Location) entry {
	return entry{"Transaction.ProtoDecode", func(b []byte) int {
		p := new(types.ProtoTransaction)
		if proto.Unmarshal(b, p) != nil {
			return 0
		}
		tx := new(types.Transaction)
		if tx.ProtoDecode(p, loc) != nil {
			return 1
		}
		pokeTx(tx, loc)
		return 2
	}}
}

func entWoHeader(loc common.Location) entry {
	// quai_receiveRawWorkShare
	return entry{"WorkObjectHeader.ProtoDecode", func(b []byte) int {
		p := new(types.ProtoWorkObjectHeader)
		if proto.Unmarshal(b, p) != nil {
			return 0
		}
		wh := new(types.WorkObjectHeader)
		if wh.ProtoDecode(p, loc) != nil {
			return 1
		}
		pokeWoHeader(wh)
		return 2
	}}
}

func entHeader(loc common.Location) entry {
	return entry{"Header.ProtoDecode", func(b []byte) int {
		p := new(types.ProtoHeader)
		if proto.Unmarshal(b, p) != nil {
			return 0
		}
		h := new(types.Header)
		if h.ProtoDecode(p, loc) != nil {
			return 1
		}
		pokeHeader(h)
		return 2
	}}
}

func entAuxPow() entry {
	return entry{"AuxPow.ProtoDecode", func(b []byte) int {
		p := new(types.ProtoAuxPow)
		if proto.Unmarshal(b, p) != nil {
			return 0
		}
		// WorkObjectHeader.ProtoDecode only decodes an AuxPow carrying header and transaction
		if p.GetHeader() == nil || p.GetTransaction() == nil {
			return 1
		}
		ap := new(types.AuxPow)
		if ap.ProtoDecode(p) != nil {
			return 1
		}
		pokeAuxPow(ap)
		return 2
	}}
}

func entAuxTemplate() entry {
	// quai_submitAuxTemplate / quai_signAuxTemplate
	return entry{"AuxTemplate.ProtoDecode", func(b []byte) int {
		p := new(types.ProtoAuxTemplate)
		if proto.Unmarshal(b, p) != nil {
			return 0
		}
		at := new(types.AuxTemplate)
		if at.ProtoDecode(p) != nil {
			return 1
		}
		pokeAuxTemplate(at)
		return 2
	}}
}

// entSubWorkshare transcribes workshare_receiveSubWorkshare, which ignores the decoder's error
// and goes on with whatever was decoded (the backend's CheckIfValidWorkShare starts with the
// accessors below).
func entSubWorkshare(loc common.Location) entry {
	return entry{"ReceiveSubWorkshare", func(b []byte) int {
		p := new(types.ProtoWorkObject)
		if proto.Unmarshal(b, p) != nil {
			return 0
		}
		ws := new(types.WorkObject)
		err := ws.ProtoDecode(p, loc, types.WorkShareTxObject)
		wh := ws.WorkObjectHeader()
		// HeaderChain.CheckIfValidWorkShare -> GetEngineForHeader(header) / engine.CheckIfValidWorkShare
		if wh != nil {
			_ = wh.PrimeTerminusNumber()
			_ = wh.KawpowActivationHappened()
			_ = wh.Hash()
			_ = wh.NumberU64()
		} else {
			// the production code dereferences the header unconditionally
			_ = wh.NumberU64()
		}
		if err != nil {
			return 1
		}
		sv := ws.ConvertToWorkObjectShareView(ws.Transactions())
		pb.ConvertAndMarshal(sv)
		pokeTx(ws.Tx(), loc)
		return 2
	}}
}

func pureProtoEntries() map[string]entry {
	m := map[string]entry{}
	add := func(e entry) { m[e.name] = e }
	add(entWoView("WorkObject.ProtoDecode/Block", types.BlockObject, zoneLoc))
	add(entWoView("WorkObject.ProtoDecode/Header", types.HeaderObject, zoneLoc))
	add(entWoView("WorkObject.ProtoDecode/PEtx", types.PEtxObject, zoneLoc))
	add(entWoView("WorkObject.ProtoDecode/WorkShare", types.WorkShareObject, zoneLoc))
	add(entWoView("WorkObject.ProtoDecode/WorkShareTx", types.WorkShareTxObject, zoneLoc))
	add(entUnmarshalAndConvert("pb.UnmarshalAndConvert/BlockView", &types.WorkObjectBlockView{}, zoneLoc))
	add(entUnmarshalAndConvert("pb.UnmarshalAndConvert/HeaderView", &types.WorkObjectHeaderView{}, zoneLoc))
	add(entUnmarshalAndConvert("pb.UnmarshalAndConvert/ShareView", &types.WorkObjectShareView{}, zoneLoc))
	add(entUnmarshalAndConvert("pb.UnmarshalAndConvert/AuxTemplate", &types.AuxTemplate{}, zoneLoc))
	add(entUnmarshalAndConvert("pb.UnmarshalAndConvert/Hash", common.Hash{}, zoneLoc))
	add(entQuaiMessage())
	add(entTx(zoneLoc))
	add(entWoHeader(zoneLoc))
	add(entHeader(zoneLoc))
	add(entAuxPow())
	add(entAuxTemplate())
	return m
}

var _ = bytes.Equal
