package c15

import (
	"bytes"
	"encoding/json"
	"math/big"

	"github.com/dominant-strategies/go-quai/common"
	"github.com/dominant-strategies/go-quai/core/types"
	"github.com/dominant-strategies/go-quai/p2p/pb"
	"github.com/dominant-strategies/go-quai/params"
	"github.com/dominant-strategies/go-quai/trie"
	"google.golang.org/protobuf/proto"
)

// An entry is one production decode path fed with raw bytes. run returns how far the input got:
//
//	0 rejected by the first layer (wire-format unmarshal)
//	1 passed the first layer, rejected by the type's decoder
//	2 decoded; the accessors production calls next were applied too
//
// It panics when the code under test panics (the probe recovers).
type entry struct {
	name string
	run  func(b []byte) int
}

// ---- what production does next with a decoded object ------------------------------------------

var testChainCfg = &params.ChainConfig{ChainID: big.NewInt(1337), Location: common.Location{0, 0}}

// deepPoke enables the expensive steps (MuSig2 signature verification, sender recovery). The
// callers switch it on for the unmutated tree and for mutations inside the data those steps read.
var deepPoke = true

// pokeTx: what block sanity checks, the pool and the RPC marshalling do with a decoded
// transaction before any state is consulted. Accessors that are documented to panic for the
// wrong transaction type are only used on the right type, as production does.
func pokeTx(tx *types.Transaction, loc common.Location) {
	if tx == nil {
		return
	}
	// Two shapes a decoder can let through make every consumer crash (Hash, ProtoEncode, ...): an
	// external transaction without recipient and a Qi transaction without signature. They are
	// root causes of their own, named as such (unless an outer group already names the decoder).
	shape := ""
	func() {
		defer func() { recover() }()
		switch tx.Type() {
		case types.ExternalTxType:
			if tx.To() == nil {
				shape = "types.Transaction/etx-decoded-without-recipient"
			}
		case types.QiTxType:
			if tx.GetSchnorrSignature() == nil {
				shape = "types.Transaction/qi-decoded-without-signature"
			}
			for _, txo := range tx.TxOut() {
				if len(txo.Address) < common.AddressLength {
					shape = "types.Transaction/qi-decoded-with-short-output-address"
				}
			}
		}
	}()
	if shape != "" && stepGroup == "" {
		grouped(shape, func() { pokeTxSteps(tx, loc) })
		return
	}
	pokeTxSteps(tx, loc)
}

func pokeTxSteps(tx *types.Transaction, loc common.Location) {
	step(func() { _, _, _, _ = tx.Hash(), tx.Hash(loc...), tx.Size(), tx.Data() })
	step(func() {
		switch tx.Type() {
		case types.QuaiTxType:
			_, _, _, _, _ = tx.To(), tx.Nonce(), tx.GasPrice(), tx.Value(), tx.ChainId()
			_ = tx.Cost()
			if deepPoke {
				types.Sender(types.LatestSignerForChainID(tx.ChainId(), loc), tx)
			}
		case types.ExternalTxType:
			_, _, _, _ = tx.To(), tx.Value(), tx.ETXSender(), tx.EtxType()
			_ = types.IsConversionTx(tx)
		case types.QiTxType:
			_, _, _ = tx.TxIn(), tx.TxOut(), tx.ChainId()
			_ = tx.GetSchnorrSignature()
			_ = types.IsConversionTx(tx)
		}
	})
	if tx.Type() == types.QiTxType {
		// the pool's first look at a Qi transaction (TxPool.addQiTxs) and the gas accounting the
		// worker and the state processor run on every Qi transaction before touching state
		step(func() {
			for _, txo := range tx.TxOut() {
				common.IsInChainScope(txo.Address, loc)
			}
		})
		step(func() { types.CalculateQiTxGas(tx, 1.0, loc) })
		step(func() { types.CalculateBlockQiTxGas(tx, 1.0, loc) })
	}
	step(func() {
		if p, err := tx.ProtoEncode(); err == nil {
			proto.Marshal(p)
		}
	})
	step(func() { tx.MarshalJSON() })
	// the transaction root of a body is an RLP encoding of every transaction (SanityCheck*Body)
	step(func() { types.DeriveSha(types.Transactions{tx}, trie.NewStackTrie(nil)) })
}

func pokeWoHeader(wh *types.WorkObjectHeader) {
	if wh == nil {
		return
	}
	step(func() { _ = wh.Hash() })
	step(func() { _ = wh.SealHash() })
	step(func() { _, _, _ = wh.NumberU64(), wh.Location(), wh.PrimaryCoinbase() })
	step(func() {
		if p, err := wh.ProtoEncode(); err == nil {
			proto.Marshal(p)
		}
	})
	step(func() { json.Marshal(wh.RPCMarshalWorkObjectHeader("v2")) })
	step(func() { types.CopyWorkObjectHeader(wh) })
	if ap := wh.AuxPow(); ap != nil {
		pokeAuxPow(ap)
	}
}

func pokeAuxPow(ap *types.AuxPow) {
	step(func() {
		_ = ap.PowID()
		if h := ap.Header(); h != nil {
			_ = h.Timestamp()
			_ = h.MerkleRoot()
			_ = h.PowHash()
			_ = h.Bytes()
		}
	})
	step(func() { proto.Marshal(ap.ProtoEncode()) })
	step(func() { json.Marshal(ap.RPCMarshal()) })
	// the share validator (and Core.SubmitBlock) run these on every AuxPoW that decodes
	step(func() {
		sig := types.ExtractScriptSigFromCoinbaseTx(ap.Transaction())
		step(func() { types.ExtractSignatureTimeFromCoinbase(sig) })
		step(func() { types.ExtractSealHashFromCoinbase(sig) })
		step(func() { types.ExtractHeightFromCoinbase(sig) })
		step(func() { types.ExtractMerkleSizeAndNonceFromCoinbase(sig) })
	})
	step(func() { types.CalculateMerkleRoot(ap.PowID(), ap.Transaction(), ap.MerkleBranch()) })
	step(func() { types.ValidatePrevOutPointIndexAndSequenceOfCoinbase(ap.Transaction()) })
	step(func() {
		tpl := ap.ConvertToTemplate()
		_ = tpl.Hash()
		if deepPoke {
			tpl.VerifySignature()
		}
	})
	step(func() { types.CopyAuxPow(ap) })
}

func pokeHeader(h *types.Header) {
	if h == nil {
		return
	}
	step(func() { _ = h.Hash() })
	step(func() { _ = h.NumberArray() })
	step(func() {
		if p, err := h.ProtoEncode(); err == nil {
			proto.Marshal(p)
		}
	})
	step(func() { json.Marshal(h.RPCMarshalHeader()) })
	step(func() { types.CopyHeader(h) })
}

// pokeWo: hash / identity accessors every consumer of a decoded work object uses first, the
// re-encoding in the view it was decoded in (re-broadcast, serving a peer request), the RPC
// marshalling and the copy made by the append queue.
func pokeWo(wo *types.WorkObject, view types.WorkObjectView) {
	if wo == nil {
		return
	}
	step(func() { _, _, _, _ = wo.Hash(), wo.SealHash(), wo.Location(), wo.Time() })
	pokeWoHeader(wo.WorkObjectHeader())
	// A work object can decode without a body header (Block/Header view: header left nil; share
	// views: a zero-value Header is installed). Every header-dependent accessor then panics: one
	// root cause, reported under one fingerprint.
	hdrGroup := ""
	if wo.Body() != nil && (wo.Body().Header() == nil || hollowHeader(wo.Body().Header())) {
		hdrGroup = bodyHeaderAbsent
		if stepGroup != "" {
			hdrGroup = stepGroup
		}
	}
	hdr := func(f func()) {
		if hdrGroup != "" {
			grouped(hdrGroup, func() { step(f) })
		} else {
			step(f)
		}
	}
	if wo.Body() != nil {
		if hdrGroup != "" {
			grouped(hdrGroup, func() { pokeHeader(wo.Body().Header()) })
		} else {
			pokeHeader(wo.Body().Header())
		}
		step(func() {
			for _, tx := range wo.Transactions() {
				_ = tx.Hash()
			}
			for _, tx := range wo.OutboundEtxs() {
				_ = tx.Hash()
			}
			for _, u := range wo.Uncles() {
				_ = u.Hash()
			}
		})
		step(func() { types.CalcUncleHash(wo.Uncles()) })
		step(func() { types.DeriveSha(wo.Transactions(), trie.NewStackTrie(nil)) })
		step(func() { types.DeriveSha(wo.OutboundEtxs(), trie.NewStackTrie(nil)) })
		step(func() { types.DeriveSha(wo.Manifest(), trie.NewStackTrie(nil)) })
	}
	hdr(func() {
		if p, err := wo.ProtoEncode(view); err == nil {
			proto.Marshal(p)
		}
	})
	hdr(func() { _ = wo.Size() })
	hdr(func() { json.Marshal(wo.RPCMarshalWorkObject("v2")) })
	hdr(func() { json.Marshal(wo.RPCMarshalHeader("v2")) })
	hdr(func() { types.CopyWorkObject(wo) })
}

// hollowHeader reports a zero-value Header (no slices allocated).
func hollowHeader(h *types.Header) (hollow bool) {
	defer func() {
		if recover() != nil {
			hollow = true
		}
	}()
	_ = h.Number(0)
	_ = h.ParentEntropy(0)
	return false
}

func pokeAuxTemplate(at *types.AuxTemplate) {
	step(func() {
		if deepPoke {
			at.VerifySignature()
		}
	})
	step(func() { _, _ = at.Hash(), at.SignatureTime() })
	step(func() { proto.Marshal(at.ProtoEncode()) })
}

// ---- the pure decode entry points --------------------------------------------------------------

func entWoView(name string, view types.WorkObjectView, loc common.Location) entry {
	return entry{name, func(b []byte) int {
		p := new(types.ProtoWorkObject)
		if proto.Unmarshal(b, p) != nil {
			return 0
		}
		wo := new(types.WorkObject)
		if wo.ProtoDecode(p, loc, view) != nil {
			return 1
		}
		pokeWo(wo, view)
		return 2
	}}
}

// entUnmarshalAndConvert: the gossip subscription worker (pubsubManager.Subscribe) and what
// quai.OnNewBroadcast / P2PNode.handleBroadcast read from the value before handing it on.
func entUnmarshalAndConvert(name string, datatype interface{}, loc common.Location) entry {
	return entry{name, func(b []byte) int {
		var data interface{}
		if err := pb.UnmarshalAndConvert(b, loc, &data, datatype); err != nil {
			// the function does not tell the layers apart; redo the first one
			if probeFirstLayer(b, datatype) {
				return 1
			}
			return 0
		}
		switch v := data.(type) {
		case types.WorkObjectBlockView:
			_ = v.Time()
			_ = v.Hash()
			pokeWo(v.WorkObject, types.BlockObject)
		case types.WorkObjectHeaderView:
			_ = v.Time()
			_ = v.Hash()
			pokeWo(v.WorkObject, types.HeaderObject)
		case types.WorkObjectShareView:
			_ = v.WorkObject.WorkObjectHeader()
			_ = v.WorkObject.Transactions()
			_ = v.WorkObject.Hash()
			_ = v.Location().Name()
			pokeWo(v.WorkObject, types.WorkShareTxObject)
			// pb.ConvertAndMarshal is how a share is re-broadcast
			pb.ConvertAndMarshal(&v)
		case *types.AuxTemplate:
			pokeAuxTemplate(v)
			pb.ConvertAndMarshal(v)
		case common.Hash:
			pb.ConvertAndMarshal(v)
		}
		return 2
	}}
}

func probeFirstLayer(b []byte, datatype interface{}) bool {
	var m proto.Message
	switch datatype.(type) {
	case *types.WorkObjectBlockView:
		m = new(types.ProtoWorkObjectBlockView)
	case *types.WorkObjectHeaderView:
		m = new(types.ProtoWorkObjectHeaderView)
	case *types.WorkObjectShareView:
		m = new(types.ProtoWorkObjectShareView)
	case common.Hash:
		m = new(common.ProtoHash)
	case *types.AuxTemplate:
		m = new(types.ProtoAuxTemplate)
	default:
		return false
	}
	return proto.Unmarshal(b, m) == nil
}

// entQuaiMessage transcribes p2p/protocol.handleMessage -> handleRequest / handleResponse (minus
// the stream and the request manager): decode, then what the handler reads from the result.
func entQuaiMessage() entry {
	return entry{"pb.DecodeQuaiMessage", func(b []byte) int {
		msg, err := pb.DecodeQuaiMessage(b)
		if err != nil {
			return 0
		}
		switch {
		case msg.GetRequest() != nil:
			_, decodedType, loc, query, err := pb.DecodeQuaiRequest(msg.GetRequest())
			if err != nil {
				return 1
			}
			_ = loc.Name()
			_ = loc.Context()
			switch q := query.(type) {
			case *common.Hash:
				_ = q.String()
			case *big.Int:
				_ = q.String()
			}
			_ = decodedType
			return 2
		case msg.GetResponse() != nil:
			_, recvd, err := pb.DecodeQuaiResponse(msg.GetResponse())
			if err != nil {
				return 1
			}
			// P2PNode.requestFromPeer compares hashes, the consumers write the block
			switch v := recvd.(type) {
			case *types.WorkObjectBlockView:
				_ = v.Hash()
				pokeWo(v.WorkObject, types.BlockObject)
			case *types.WorkObjectHeaderView:
				_ = v.Hash()
				pokeWo(v.WorkObject, types.HeaderObject)
			case []*types.WorkObjectBlockView:
				for _, x := range v {
					_ = x.Hash()
					pokeWo(x.WorkObject, types.BlockObject)
				}
			case common.Hash:
				_ = v.String()
			}
			return 2
		}
		return 1
	}}
}

func entTx(loc common.Location) entry {
	return entry{"Transaction.ProtoDecode", func(b []byte) int {
		p := new(types.ProtoTransaction)
		if proto.Unmarshal(b, p) != nil {
			return 0
		}
		tx := new(types.Transaction)
		if tx.ProtoDecode(p, loc) != nil {
			return 1
		}
		pokeTx(tx, loc)
		return 2
	}}
}

func entWoHeader(loc common.Location) entry {
	// quai_receiveRawWorkShare
	return entry{"WorkObjectHeader.ProtoDecode", func(b []byte) int {
		p := new(types.ProtoWorkObjectHeader)
		if proto.Unmarshal(b, p) != nil {
			return 0
		}
		wh := new(types.WorkObjectHeader)
		if wh.ProtoDecode(p, loc) != nil {
			return 1
		}
		pokeWoHeader(wh)
		return 2
	}}
}

func entHeader(loc common.Location) entry {
	return entry{"Header.ProtoDecode", func(b []byte) int {
		p := new(types.ProtoHeader)
		if proto.Unmarshal(b, p) != nil {
			return 0
		}
		h := new(types.Header)
		if h.ProtoDecode(p, loc) != nil {
			return 1
		}
		pokeHeader(h)
		return 2
	}}
}

func entAuxPow() entry {
	return entry{"AuxPow.ProtoDecode", func(b []byte) int {
		p := new(types.ProtoAuxPow)
		if proto.Unmarshal(b, p) != nil {
			return 0
		}
		// WorkObjectHeader.ProtoDecode only decodes an AuxPow carrying header and transaction
		if p.GetHeader() == nil || p.GetTransaction() == nil {
			return 1
		}
		ap := new(types.AuxPow)
		if ap.ProtoDecode(p) != nil {
			return 1
		}
		pokeAuxPow(ap)
		return 2
	}}
}

func entAuxTemplate() entry {
	// quai_submitAuxTemplate / quai_signAuxTemplate
	return entry{"AuxTemplate.ProtoDecode", func(b []byte) int {
		p := new(types.ProtoAuxTemplate)
		if proto.Unmarshal(b, p) != nil {
			return 0
		}
		at := new(types.AuxTemplate)
		if at.ProtoDecode(p) != nil {
			return 1
		}
		pokeAuxTemplate(at)
		return 2
	}}
}

// entSubWorkshare transcribes workshare_receiveSubWorkshare, which ignores the decoder's error
// and goes on with whatever was decoded (the backend's CheckIfValidWorkShare starts with the
// accessors below).
func entSubWorkshare(loc common.Location) entry {
	return entry{"ReceiveSubWorkshare", func(b []byte) int {
		p := new(types.ProtoWorkObject)
		if proto.Unmarshal(b, p) != nil {
			return 0
		}
		ws := new(types.WorkObject)
		err := ws.ProtoDecode(p, loc, types.WorkShareTxObject)
		wh := ws.WorkObjectHeader()
		// HeaderChain.CheckIfValidWorkShare -> GetEngineForHeader(header) / engine.CheckIfValidWorkShare
		if wh != nil {
			_ = wh.PrimeTerminusNumber()
			_ = wh.KawpowActivationHappened()
			_ = wh.Hash()
			_ = wh.NumberU64()
		} else {
			// the production code dereferences the header unconditionally
			_ = wh.NumberU64()
		}
		if err != nil {
			return 1
		}
		sv := ws.ConvertToWorkObjectShareView(ws.Transactions())
		pb.ConvertAndMarshal(sv)
		pokeTx(ws.Tx(), loc)
		return 2
	}}
}

func pureProtoEntries() map[string]entry {
	m := map[string]entry{}
	add := func(e entry) { m[e.name] = e }
	add(entWoView("WorkObject.ProtoDecode/PEtx", types.PEtxObject, zoneLoc))
	add(entWoView("WorkObject.ProtoDecode/WorkShare", types.WorkShareObject, zoneLoc))
	add(entUnmarshalAndConvert("pb.UnmarshalAndConvert/BlockView", &types.WorkObjectBlockView{}, zoneLoc))
	add(entUnmarshalAndConvert("pb.UnmarshalAndConvert/HeaderView", &types.WorkObjectHeaderView{}, zoneLoc))
	add(entUnmarshalAndConvert("pb.UnmarshalAndConvert/ShareView", &types.WorkObjectShareView{}, zoneLoc))
	add(entUnmarshalAndConvert("pb.UnmarshalAndConvert/AuxTemplate", &types.AuxTemplate{}, zoneLoc))
	add(entUnmarshalAndConvert("pb.UnmarshalAndConvert/Hash", common.Hash{}, zoneLoc))
	add(entQuaiMessage())
	add(entTx(zoneLoc))
	add(entWoHeader(zoneLoc))
	add(entHeader(zoneLoc))
	add(entAuxPow())
	add(entAuxTemplate())
	return m
}

var _ = bytes.Equal

func newHasher() *trie.StackTrie { return trie.NewStackTrie(nil) }
