#!/bin/bash
# sweep_some.sh <tier> <seed> <property>... : like sweep.sh for the listed properties only.
cd "$(dirname "$0")/.."
tier=$1; s=$2; shift; shift
./setup.sh --nobuild >/dev/null 2>&1
mkdir -p .build/sweep
for p in "$@"; do
  t0=$(date +%s)
  VERIF_SEED=$s ./check $p --tier $tier > .build/sweep/$p-$tier-$s.log 2>&1
  rc=$?
  cp evidence/$p.json .build/sweep/evidence-$p-$tier-$s.json 2>/dev/null
  echo "SWEEP $p tier=$tier seed=$s exit=$rc secs=$(( $(date +%s) - t0 )) $(grep -c '^VIOLATION' .build/sweep/$p-$tier-$s.log) violations :: $(tail -1 .build/sweep/$p-$tier-$s.log | cut -c1-160)"
  if [ $rc -ne 0 ]; then grep -v 'rapid\] draw' .build/sweep/$p-$tier-$s.log | tail -15 | cut -c1-400; fi
done
