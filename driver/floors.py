#!/usr/bin/env python3
"""floors.py <dir-with-evidence-*.json> : for every generator floor of every property, the smallest
observed label fraction across the saved evidence files and its ratio to the floor. A ratio close
to 1 means the floor can trip on the unchanged tree at some seed (exit 2 = broken check)."""
import glob, json, os, sys
V = os.path.dirname(os.path.dirname(os.path.abspath(__file__)))
d = sys.argv[1]
rows = []
for vf in sorted(glob.glob(os.path.join(V, "harness/props/c*/verif.json"))):
    pid = os.path.basename(os.path.dirname(vf)).upper()
    cfg = json.load(open(vf))
    evs = [json.load(open(f)) for f in glob.glob(os.path.join(d, "evidence-%s-*.json" % pid))]
    for fl in cfg.get("floors", []):
        fr = []
        for e in evs:
            p = e["coverage"]["parts"].get(fl["part"])
            if not p or not p["evaluations"]:
                fr.append(0.0); continue
            fr.append(p["labels"].get(fl["label"], 0) / p["evaluations"])
        if fr:
            rows.append((min(fr) / max(fl["min"], 1e-9), pid, fl["part"], fl["label"], fl["min"], min(fr), len(fr)))
for r in sorted(rows):
    print("%6.2f  %s %s/%s floor=%.3f min_observed=%.3f over %d runs" % r)
