#!/usr/bin/env python3
"""Driver for the go-quai property checks (see DESIGN.md section 2).

  check.py <ID> --tier quick|thorough [--replay <path>]
  check.py --build-all

Exit codes: 0 property held on everything explored; 1 violation (prints
`VIOLATION property=<id> replay=<path>`); 2 inconclusive (build failure, timeout, worker death,
generator floor not met) -- never converted into a verdict.
"""
import argparse, concurrent.futures as cf, glob, json, os, re, shutil, subprocess, sys, time

VERIF = os.path.dirname(os.path.dirname(os.path.abspath(__file__)))
HARNESS = os.path.join(VERIF, "harness")
BUILD = os.path.join(VERIF, ".build")
REPO = os.environ.get("VERIF_REPO", "/repo")
TAG = "verif"

def goenv():
    e = dict(os.environ)
    e.update(GOFLAGS="-mod=mod", GOPROXY="off", GOSUMDB="off", GOTOOLCHAIN="local")
    e.setdefault("GOCACHE", os.path.expanduser("~/.cache/go-build"))
    return e

def log(*a):
    print(*a, flush=True)

def load_cfg(pid):
    p = os.path.join(HARNESS, "props", pid.lower(), "verif.json")
    with open(p) as f:
        return json.load(f)

def all_props():
    out = []
    for p in sorted(glob.glob(os.path.join(HARNESS, "props", "c*", "verif.json"))):
        out.append(os.path.basename(os.path.dirname(p)).upper())
    return out

def ensure_mod():
    if not os.path.exists(os.path.join(HARNESS, "go.mod")) or \
       os.path.getmtime(os.path.join(REPO, "go.mod")) > os.path.getmtime(os.path.join(HARNESS, "go.mod")):
        subprocess.run([os.path.join(VERIF, "setup.sh"), "--nobuild"], check=True, env=goenv())

def build(pid, race=False):
    """(Re)build the test binary of a property from /repo's current working tree."""
    ensure_mod()
    os.makedirs(BUILD, exist_ok=True)
    outp = os.path.join(BUILD, "%s%s.%d.test" % (pid.lower(), ".race" if race else "", os.getpid()))
    cmd = ["go", "test", "-c", "-vet=off", "-tags", TAG, "-o", outp]
    if race:
        cmd.append("-race")
    cmd.append("./props/" + pid.lower())
    t0 = time.time()
    r = subprocess.run(cmd, cwd=HARNESS, env=goenv(), stdout=subprocess.PIPE, stderr=subprocess.STDOUT, text=True)
    if r.returncode != 0:
        log("BUILD-FAILURE (inconclusive) for", pid)
        log(r.stdout[-6000:])
        return None
    log("built %s in %.1fs" % (os.path.basename(outp), time.time() - t0))
    return outp

def tier_of(test, tier):
    t = dict(test.get(tier) or test.get("quick") or {})
    t.setdefault("checks", 100)
    t.setdefault("shards", 1)
    t.setdefault("timeout", 900 if tier == "quick" else 7200)
    # the case counts bound the work; the timeout only catches a wedged process. On a loaded
    # machine a quick test that needs a minute alone was seen to need ten: leave ample room.
    t["timeout"] = max(t["timeout"], 2400 if tier == "quick" else 10800)
    return t

def run_task(task):
    rd = task["rundir"]
    shutil.rmtree(rd, ignore_errors=True)
    os.makedirs(rd)
    try:
        shutil.copy(os.path.join(REPO, "VERSION"), os.path.join(rd, "VERSION"))
    except Exception:
        pass
    for extra in task.get("copy", []):
        src = os.path.join(HARNESS, "props", task["pid"].lower(), extra)
        if os.path.isdir(src):
            shutil.copytree(src, os.path.join(rd, extra))
        elif os.path.exists(src):
            shutil.copy(src, os.path.join(rd, extra))
    env = goenv()
    env.update(task["env"])
    env["TMPDIR"] = os.path.join(rd, "tmp")
    os.makedirs(env["TMPDIR"])
    t0 = time.time()
    try:
        r = subprocess.run(task["cmd"], cwd=rd, env=env, stdout=subprocess.PIPE, stderr=subprocess.STDOUT,
                           text=True, errors="replace", timeout=task["timeout"] + 60)
        rc, outp, timed = r.returncode, r.stdout, False
    except subprocess.TimeoutExpired as e:
        o = e.stdout or ""
        if isinstance(o, bytes):
            o = o.decode("utf8", "replace")
        rc, outp, timed = -9, o, True
    task["rc"], task["out"], task["timed_out"], task["wall"] = rc, outp, timed, time.time() - t0
    fails = glob.glob(os.path.join(rd, "testdata", "rapid", "**", "*.fail"), recursive=True)
    task["failfiles"] = fails
    crashers = [p for p in glob.glob(os.path.join(rd, "testdata", "fuzz", "*", "*")) if os.path.isfile(p)
                and not os.path.basename(p).startswith("seed-")]
    task["crashers"] = crashers
    if task.get("fuzz") and crashers and rc != 0:
        # A native fuzz worker that is killed (10 s per-input deadline under load, OOM) also leaves a
        # "crasher" behind. Re-run the saved inputs as plain seed-corpus cases: only a reproducible
        # failure counts as a violation, anything else is inconclusive.
        try:
            r2 = subprocess.run([task["cmd"][0], "-test.run=^%s$" % task["name"], "-test.timeout=600s"], cwd=rd, env=env,
                                stdout=subprocess.PIPE, stderr=subprocess.STDOUT, text=True, errors="replace", timeout=700)
            task["crasher_reproduced"] = r2.returncode != 0
            task["out"] = (task["out"] or "") + "\n--- crasher re-run ---\n" + (r2.stdout or "")[-3000:]
        except Exception as e:
            task["crasher_reproduced"] = False
            task["out"] = (task["out"] or "") + "\n--- crasher re-run failed: %s ---\n" % e
    return task

def panic_site(out):
    """innermost repository frame of a panic reported in a test's output, or None"""
    repo = os.path.realpath(REPO)
    m = re.search(r"\[rapid\] panic after \d+ tests?: (.*)\n(?:.*\n)*?\s*Traceback:\n\s*(\S+\.go):(\d+) in (\S+)", out)
    if m:
        path = os.path.realpath(m.group(2)) if os.path.isabs(m.group(2)) else m.group(2)
        if path.startswith(repo + os.sep):
            return "%s (%s:%s): %s" % (m.group(4), os.path.relpath(path, repo), m.group(3), m.group(1)[:200])
        return None
    m = re.search(r"^panic: (.*)$", out, re.M)
    if m and "goroutine " in out[m.end():]:
        # standard runtime trace: function line followed by "\t/path/file.go:NN +0x.."
        frames = re.findall(r"^(\S.*)\n\t(\S+\.go):(\d+)", out[m.end():], re.M)
        for fn, path, line in frames:
            if fn.startswith(("panic(", "runtime.", "testing.", "runtime/")) or "/usr/local/go/" in path or "/go/src/" in path:
                continue
            rp = os.path.realpath(path)
            if rp.startswith(repo + os.sep):
                return "%s (%s:%s): %s" % (fn.split("(")[0], os.path.relpath(rp, repo), line, m.group(1)[:200])
            return None
    return None

def classify(task):
    """returns 'ok' | 'violation' | 'inconclusive'"""
    out = task["out"] or ""
    if task["timed_out"] or "panic: test timed out" in out:
        return "inconclusive"
    if task["rc"] == 0:
        if task.get("rapid"):
            m = re.findall(r"OK, passed (\d+) tests", out)
            if m and min(int(x) for x in m) < task["checks"]:
                task["note"] = "rapid ran %s of %d requested cases" % (m, task["checks"])
                return "inconclusive"
        return "ok"
    if "VERIF-VIOLATION" in out:
        return "violation"
    # a Go panic raised inside the code under test (innermost frame below the repository root)
    # while a property was being evaluated: the operation the property is about crashed instead of
    # answering. Panics whose innermost frame is in the harness or a library stay inconclusive.
    site = panic_site(out)
    if site:
        task["panic_site"] = site
        return "violation"
    if task.get("fuzz") and task["crashers"] and task.get("crasher_reproduced"):
        return "violation"
    return "inconclusive"

def main():
    ap = argparse.ArgumentParser()
    ap.add_argument("pid", nargs="?")
    ap.add_argument("--tier", default=os.environ.get("VERIF_TIER", "quick"), choices=["quick", "thorough"])
    ap.add_argument("--replay")
    ap.add_argument("--build-all", action="store_true")
    ap.add_argument("--only", help="regexp filter on test names (debugging)")
    ap.add_argument("--keep", action="store_true")
    a = ap.parse_args()
    if a.build_all:
        ok = True
        for pid in all_props():
            cfg = load_cfg(pid)
            outs = [build(pid)]
            if any(t.get("race") for t in cfg["tests"]):
                outs.append(build(pid, race=True))
            for o in outs:
                if o is None:
                    ok = False
                else:
                    os.remove(o)  # only the Go build cache is wanted; every check rebuilds anyway
        sys.exit(0 if ok else 2)
    pid = a.pid.upper()
    cfg = load_cfg(pid)
    tier = a.tier
    seed = int(os.environ.get("VERIF_SEED", "0") or 0)
    t_start = time.time()
    replay = None
    if a.replay:
        with open(a.replay) as f:
            replay = json.load(f)
        tier = replay.get("tier", tier)
        seed = int(replay.get("verif_seed", seed))

    need_race = any(t.get("race") for t in cfg["tests"])
    bins = {False: build(pid)}
    if bins[False] is None:
        sys.exit(2)
    if need_race:
        bins[True] = build(pid, race=True)
        if bins[True] is None:
            sys.exit(2)

    replay_dir = os.path.join(VERIF, "replays", pid)
    os.makedirs(replay_dir, exist_ok=True)
    runroot = os.path.join(BUILD, "run", "%s-%s%s-%d" % (pid, tier, "-replay" if replay else "", os.getpid()))
    shutil.rmtree(runroot, ignore_errors=True)
    os.makedirs(runroot)
    known_path = os.path.join(VERIF, "KNOWN_FINDINGS.json")

    tasks = []
    for test in cfg["tests"]:
        if a.only and not re.search(a.only, test["name"]):
            continue
        if replay and replay.get("test") != test["name"]:
            continue
        if test.get("tiers") and tier not in test["tiers"]:
            continue
        tt = tier_of(test, tier)
        nsh = tt["shards"]
        for sh in range(nsh):
            if replay and int(replay.get("shard", 0)) != sh:
                continue
            name = test["name"]
            rd = os.path.join(runroot, "%s-%d" % (name, sh))
            rseed = 1 + seed * 1000 + sh
            env = {
                "VERIF_PROPERTY": pid, "VERIF_TIER": tier, "VERIF_SEED": str(seed), "VERIF_SHARD": str(sh),
                "VERIF_NSHARDS": str(nsh), "VERIF_STATS": os.path.join(rd, "stats.json"),
                "VERIF_KNOWN": known_path, "VERIF_REPLAY_DIR": replay_dir, "VERIF_TEST": name,
                "VERIF_RAPID_SEED": str(rseed), "VERIF_RAPID_CHECKS": str(tt["checks"]),
                "VERIF_REPO": REPO,
            }
            env.update({k: str(v) for k, v in (test.get("env") or {}).items()})
            env.update({k: str(v) for k, v in (tt.get("env") or {}).items()})
            binp = bins[bool(test.get("race"))]
            if test.get("fuzz"):
                if tier != "thorough" and not test.get("fuzz_in_quick"):
                    continue
                cmd = [binp, "-test.run=^$", "-test.fuzz=^%s$" % name, "-test.fuzztime=%ds" % tt.get("seconds", 60),
                       "-test.fuzzcachedir=" + os.path.join(rd, "fuzzcache"), "-test.parallel=%d" % tt.get("parallel", 4),
                       "-test.timeout=%ds" % tt["timeout"]]
            else:
                cmd = [binp, "-test.run=^%s$" % name, "-test.v", "-test.timeout=%ds" % tt["timeout"], "-test.count=1"]
                if test.get("rapid", True):
                    has_ff = bool(replay and replay.get("rapid_failfile") and os.path.exists(replay["rapid_failfile"]))
                    cmd += ["-rapid.checks=%d" % (1 if has_ff else tt["checks"]), "-rapid.seed=%d" % rseed,
                            "-rapid.shrinktime=%s" % ("20s" if tier == "quick" else "60s"), "-rapid.nofailfile=false"]
                    if replay and replay.get("rapid_failfile") and os.path.exists(replay["rapid_failfile"]):
                        cmd += ["-rapid.failfile=" + replay["rapid_failfile"]]
            if test.get("gomaxprocs"):
                env["GOMAXPROCS"] = str(test["gomaxprocs"])
            tasks.append(dict(pid=pid, name=name, shard=sh, rundir=rd, env=env, cmd=cmd, timeout=tt["timeout"],
                              rapid=test.get("rapid", True) and not test.get("fuzz"), checks=(1 if (replay and replay.get("rapid_failfile")) else tt["checks"]),
                              fuzz=bool(test.get("fuzz")), copy=test.get("copy", []), weight=test.get("weight", 1)))
    if not tasks:
        log("no tasks selected")
        sys.exit(2)

    jobs = int(os.environ.get("VERIF_JOBS", "16"))
    done = []
    with cf.ThreadPoolExecutor(max_workers=jobs) as ex:
        for t in ex.map(run_task, tasks):
            done.append(t)

    # ---- a task that failed without a verdict (harness Fatalf, worker death) is run once more: the
    # simulated nodes have wall-clock-driven parts (pool tickers, goroutine scheduling), so a rare
    # schedule can trip a harness assertion; only a failure that repeats stays inconclusive
    retried = []
    for i, t in enumerate(done):
        if classify(t) == "inconclusive" and not t["timed_out"] and not replay:
            first_out = t["out"]
            try:
                fd = os.path.join(BUILD, "failed")
                os.makedirs(fd, exist_ok=True)
                with open(os.path.join(fd, "%s-%s-seed%d-%s-s%d-first-attempt.log" % (pid, tier, seed, t["name"], t["shard"])), "w") as f:
                    f.write(first_out or "")
            except Exception:
                pass
            log("---- task %s shard %d failed without a verdict (rc=%s); running it once more" % (t["name"], t["shard"], t["rc"]))
            t2 = run_task(dict(t))
            t2["note"] = "second attempt after a failure without verdict"
            done[i] = t2
            retried.append("%s/%d" % (t["name"], t["shard"]))

    # ---- aggregate -------------------------------------------------------------------------
    parts, known_hits, excluded, violations, notes = {}, {}, {}, [], []
    status = "ok"
    if retried:
        notes.append("tasks re-run once after a failure without verdict: " + ", ".join(retried))
    for t in done:
        c = classify(t)
        t["class"] = c
        sp = t["env"]["VERIF_STATS"]
        st = None
        if os.path.exists(sp):
            try:
                st = json.load(open(sp))
            except Exception:
                st = None
        if st is None and c == "ok":
            c = t["class"] = "inconclusive"
            t["note"] = "statistics file missing"
        if st:
            for pn, p in st["parts"].items():
                agg = parts.setdefault(pn, dict(evaluations=0, nontrivial=0, labels={}, sigs=set(), samples=[], exhaustive=True, shards=0))
                agg["evaluations"] += p["evaluations"]
                agg["nontrivial"] += p["nontrivial"]
                agg["shards"] += 1
                for k, v in p["labels"].items():
                    agg["labels"][k] = agg["labels"].get(k, 0) + v
                agg["sigs"].update(p.get("sigs") or [])
                if len(agg["samples"]) < 6:
                    agg["samples"].extend((p.get("samples") or [])[:2])
                agg["exhaustive"] = agg["exhaustive"] and bool(p.get("exhaustive"))
            for k, v in (st.get("known_hits") or {}).items():
                known_hits[k] = known_hits.get(k, 0) + v
            for k, v in (st.get("excluded_known") or {}).items():
                excluded[k] = excluded.get(k, 0) + v
            notes.extend(st.get("notes") or [])
            if c == "violation":
                for v in st.get("violations") or []:
                    v = dict(v)
                    v["test"], v["shard"] = t["name"], t["shard"]
                    violations.append(v)
        if c == "violation":
            # keep rapid fail files next to the replay json and patch the json with their path
            kept = []
            for ff in t["failfiles"]:
                dst = os.path.join(replay_dir, os.path.basename(ff))
                shutil.copy(ff, dst)
                kept.append(dst)
            for cr in t["crashers"]:
                dst = os.path.join(replay_dir, "fuzz-%s-%s" % (t["name"], os.path.basename(cr)))
                shutil.copy(cr, dst)
                kept.append(dst)
            mine = [v for v in violations if v.get("test") == t["name"] and v.get("shard") == t["shard"]]
            if not mine:
                # violation detected from output only (e.g. fuzz crasher): synthesise a replay file
                rp = os.path.join(replay_dir, "%s-s%d-output.json" % (t["name"], t["shard"]))
                json.dump({"property": pid, "test": t["name"], "tier": tier, "shard": t["shard"], "verif_seed": seed,
                           "files": kept, "output_tail": (t["out"] or "")[-4000:]}, open(rp, "w"), indent=1)
                if t.get("panic_site"):
                    fn = t["panic_site"].split(" ")[0]
                    violations.append(dict(fingerprint="%s/panic/%s" % (pid, fn.split("/")[-1]), part=t["name"], message="the code under test panicked while the property was evaluated: " + t["panic_site"], replay=rp, test=t["name"], shard=t["shard"]))
                else:
                    violations.append(dict(fingerprint="unclassified", part=t["name"], message="see output", replay=rp, test=t["name"], shard=t["shard"]))
            else:
                for v in mine:
                    if v.get("replay") and os.path.exists(v["replay"]) and kept:
                        try:
                            j = json.load(open(v["replay"]))
                            j["rapid_failfile"] = kept[0]
                            json.dump(j, open(v["replay"], "w"), indent=1)
                        except Exception:
                            pass
            status = "violation"
        elif c == "inconclusive" and status == "ok":
            status = "inconclusive"
        if c != "ok":
            log("---- task %s shard %d: %s (rc=%s, %.0fs) %s" % (t["name"], t["shard"], c, t["rc"], t["wall"], t.get("note", "")))
            # rapid prints the failure message first and then hundreds of draw lines: show the
            # output without them, and keep the whole output of the task for inspection
            lines = [l for l in (t["out"] or "").splitlines() if "[rapid] draw" not in l]
            txt = "\n".join(lines)
            log(txt if len(txt) < 6000 else txt[:3000] + "\n[...]\n" + txt[-3000:])
            try:
                fd = os.path.join(BUILD, "failed")
                os.makedirs(fd, exist_ok=True)
                with open(os.path.join(fd, "%s-%s-seed%d-%s-s%d.log" % (pid, tier, seed, t["name"], t["shard"])), "w") as f:
                    f.write(t["out"] or "")
            except Exception:
                pass

    # generator floors
    floor_fail = []
    if not replay and not a.only:
        for fl in cfg.get("floors", []):
            p = parts.get(fl["part"])
            if not p or p["evaluations"] == 0:
                floor_fail.append("%s: part missing" % fl["part"])
                continue
            frac = p["labels"].get(fl["label"], 0) / float(p["evaluations"])
            if frac < fl["min"]:
                floor_fail.append("%s/%s: %.4f < %.4f" % (fl["part"], fl["label"], frac, fl["min"]))
    if floor_fail and status == "ok":
        status = "inconclusive"
        log("GENERATOR-FLOOR not met (harness problem, inconclusive):", floor_fail)

    # known findings
    known = []
    if os.path.exists(known_path):
        known = [k for k in json.load(open(known_path)).get("findings", []) if k["property"] == pid]
    for k in known:
        if k.get("status") == "known" and known_hits.get(k["fingerprint"], 0) > 0:
            log("KNOWN-FINDING: property=%s %s [%s] (observed %d times this run)" % (pid, k["description"], k["fingerprint"], known_hits[k["fingerprint"]]))

    # evidence
    wall = time.time() - t_start
    if not replay and not a.only:
        tot_eval = sum(p["evaluations"] for p in parts.values())
        tot_dist = sum(len(p["sigs"]) for p in parts.values())
        samples = []
        for pn, p in sorted(parts.items()):
            for s in p["samples"][:3]:
                samples.append({"part": pn, "case": s})
        ev = {
            "property_id": pid, "tier": tier, "seed": seed, "level": cfg.get("level", "exploration"),
            "coverage": {
                "evaluations": tot_eval, "distinct_nontrivial": tot_dist, "rule": cfg.get("rule", ""),
                "samples": samples[:12],
                "parts": {pn: {"evaluations": p["evaluations"], "nontrivial": p["nontrivial"], "distinct_nontrivial": len(p["sigs"]),
                                "labels": p["labels"], "exhaustive": bool(p["exhaustive"] and p["shards"] > 0)} for pn, p in sorted(parts.items())},
                "known_findings_observed": known_hits, "excluded_known": excluded,
                "tasks": [{"test": t["name"], "shard": t["shard"], "class": t["class"], "wall_s": round(t["wall"], 1)} for t in done],
                "status": status,
            },
            "assumptions": cfg.get("assumptions", []),
            "wall_s": round(wall, 2),
            "violations": len(violations),
        }
        if all(p["exhaustive"] for p in parts.values()) and parts:
            ev["coverage"]["exhaustive"] = True
        if notes:
            ev["coverage"]["notes"] = sorted(set(notes))[:20]
        os.makedirs(os.path.join(VERIF, "evidence"), exist_ok=True)
        with open(os.path.join(VERIF, "evidence", pid + ".json"), "w") as f:
            json.dump(ev, f, indent=1, sort_keys=False, default=str)
    if not a.keep:
        shutil.rmtree(runroot, ignore_errors=True)
    for b in bins.values():
        try:
            os.remove(b)
        except Exception:
            pass

    if status == "violation":
        seen = set()
        for v in violations:
            key = (v.get("fingerprint"), v.get("replay"))
            if key in seen:
                continue
            seen.add(key)
            log("VIOLATION property=%s replay=%s" % (pid, v.get("replay")))
            log("  fingerprint=%s test=%s: %s" % (v.get("fingerprint"), v.get("test"), (v.get("message") or "")[:600]))
        sys.exit(1)
    if status == "inconclusive":
        log("INCONCLUSIVE property=%s (infrastructure: timeout / build / worker death / floor); no verdict" % pid)
        sys.exit(2)
    log("OK property=%s tier=%s seed=%d evaluations=%d distinct_nontrivial=%d wall=%.0fs" % (
        pid, tier, seed, sum(p["evaluations"] for p in parts.values()), sum(len(p["sigs"]) for p in parts.values()), wall))
    sys.exit(0)

if __name__ == "__main__":
    main()
