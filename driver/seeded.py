#!/usr/bin/env python3
"""Runs the registered check of each seeded defect under /verif/seeded/<name>/ against /repo with the
patch applied, and restores /repo afterwards.  usage: seeded.py [name ...] [--tier quick] [--seeds 0,1]
Writes /verif/seeded/RESULTS.json (name -> {property, detected, exit codes, seconds})."""
import json, os, subprocess, sys, time
V = os.path.dirname(os.path.dirname(os.path.abspath(__file__)))
names = [a for a in sys.argv[1:] if not a.startswith("--")]
tier = "quick"
seeds = ["0"]
for a in sys.argv[1:]:
    if a.startswith("--tier="): tier = a.split("=")[1]
    if a.startswith("--seeds="): seeds = a.split("=")[1].split(",")
if not names:
    names = sorted(d for d in os.listdir(os.path.join(V, "seeded")) if os.path.isdir(os.path.join(V, "seeded", d)))
resf = os.path.join(V, "seeded", "RESULTS.json")
res = json.load(open(resf)) if os.path.exists(resf) else {}
def clean():
    subprocess.run(["git", "-C", "/repo", "checkout", "--", "."], check=True)
    st = subprocess.run(["git", "-C", "/repo", "status", "--porcelain"], capture_output=True, text=True).stdout
    if st.strip():
        print("WARNING: /repo not clean after restore:\n" + st)
st = subprocess.run(["git", "-C", "/repo", "status", "--porcelain"], capture_output=True, text=True).stdout
if st.strip():
    sys.exit("refusing to run: /repo has local changes\n" + st)
for n in names:
    d = os.path.join(V, "seeded", n)
    meta = json.load(open(os.path.join(d, "meta.json")))
    prop = meta["property"]
    patch = os.path.join(d, "patch.diff")
    r = subprocess.run(["git", "-C", "/repo", "apply", patch], capture_output=True, text=True)
    if r.returncode != 0:
        print(n, "patch does not apply:", r.stderr); continue
    out = {"property": prop, "runs": []}
    try:
        for s in seeds:
            t0 = time.time()
            env = dict(os.environ, VERIF_SEED=s)
            p = subprocess.run([os.path.join(V, "check"), prop, "--tier", tier], cwd=V, env=env, capture_output=True, text=True)
            viol = [l for l in p.stdout.splitlines() if l.startswith("VIOLATION")]
            fps = sorted(set(l.strip() for l in p.stdout.splitlines() if l.strip().startswith("fingerprint=")))
            out["runs"].append({"seed": s, "exit": p.returncode, "seconds": round(time.time() - t0), "violations": len(viol), "fingerprints": [f[:160] for f in fps[:4]]})
            print(n, prop, "seed", s, "exit", p.returncode, "violations", len(viol), "%ds" % (time.time() - t0), flush=True)
            if p.returncode == 1:
                break
    finally:
        clean()
    out["detected"] = any(r["exit"] == 1 for r in out["runs"])
    res[n] = out
    json.dump(res, open(resf, "w"), indent=1)
