#!/usr/bin/env python3
"""Runs the registered check of each seeded defect under /verif/seeded/<name>/ against a scratch
worktree of /repo with the patch applied (neither /repo nor /verif is modified: the harness is
copied to a scratch directory whose go.mod points at the scratch worktree).
usage: seeded.py [name ...] [--tier=quick] [--seeds=0,1]
Writes /verif/seeded/RESULTS.json (name -> {property, detected, runs})."""
import json, os, shutil, subprocess, sys, time
V = os.path.dirname(os.path.dirname(os.path.abspath(__file__)))
names = [a for a in sys.argv[1:] if not a.startswith("--")]
tier, seeds = "quick", ["0"]
for a in sys.argv[1:]:
    if a.startswith("--tier="): tier = a.split("=")[1]
    if a.startswith("--seeds="): seeds = a.split("=")[1].split(",")
adhoc = None
extra = []
for a in sys.argv[1:]:
    # ad hoc mutation run: --patch=<diff> --prop=C13 [--only=<regex>]; nothing is recorded
    if a.startswith("--patch="): adhoc = a.split("=", 1)[1]
    if a.startswith("--prop="): adhoc_prop = a.split("=", 1)[1]
    if a.startswith("--only="): extra = ["--only", a.split("=", 1)[1]]
if adhoc:
    names = ["adhoc-%d" % os.getpid()]
if not names:
    names = sorted(d for d in os.listdir(os.path.join(V, "seeded")) if os.path.isdir(os.path.join(V, "seeded", d)))
resf = os.path.join(V, "seeded", "RESULTS.json")
res = json.load(open(resf)) if os.path.exists(resf) else {}
for n in names:
    d = os.path.join(V, "seeded", n)
    if adhoc:
        prop, patch = adhoc_prop, os.path.abspath(adhoc)
    else:
        meta = json.load(open(os.path.join(d, "meta.json")))
        prop, patch = meta["property"], os.path.join(d, "patch.diff")
    wt, vc = "/tmp/seedrepo-" + n, "/tmp/vseed-" + n
    subprocess.run(["git", "-C", "/repo", "worktree", "remove", "--force", wt], capture_output=True)
    shutil.rmtree(vc, ignore_errors=True)
    subprocess.run(["git", "-C", "/repo", "worktree", "add", "-q", wt, "HEAD"], check=True)
    out = {"property": prop, "runs": []}
    try:
        r = subprocess.run(["git", "-C", wt, "apply", patch], capture_output=True, text=True)
        if r.returncode != 0:
            print(n, "patch does not apply:", r.stderr); out["error"] = "patch does not apply"; continue
        subprocess.run(["rsync", "-a", "--exclude", ".build", "--exclude", ".git", "--exclude", "replays", "--exclude", "evidence", V + "/", vc + "/"], check=True)
        env = dict(os.environ, VERIF_REPO=wt)
        subprocess.run(["./setup.sh", "--nobuild"], cwd=vc, env=env, check=True)
        for s in seeds:
            t0 = time.time()
            env["VERIF_SEED"] = s
            p = subprocess.run(["./check", prop, "--tier", tier] + extra, cwd=vc, env=env, capture_output=True, text=True)
            viol = [l for l in p.stdout.splitlines() if l.startswith("VIOLATION")]
            fps = sorted(set(l.strip().split(" test=")[0] for l in p.stdout.splitlines() if l.strip().startswith("fingerprint=")))
            out["runs"].append({"seed": s, "exit": p.returncode, "seconds": round(time.time() - t0), "violations": len(viol), "fingerprints": fps[:5]})
            print(n, prop, "seed", s, "exit", p.returncode, "violations", len(viol), "%ds" % (time.time() - t0), fps[:3], flush=True)
            if p.returncode == 2:
                keep = [l[:400] for l in p.stdout.splitlines() if "[rapid] draw" not in l and not l.startswith("KNOWN-FINDING")]
                print("\n".join(keep[-40:]))
            if p.returncode == 1:
                break
    finally:
        subprocess.run(["git", "-C", "/repo", "worktree", "remove", "--force", wt], capture_output=True)
        shutil.rmtree(vc, ignore_errors=True)
    out["detected"] = any(r["exit"] == 1 for r in out["runs"])
    if adhoc:
        print("adhoc", prop, "detected" if out["detected"] else "MISSED")
        continue
    # merge with the file as it is now (several runners may be active)
    res = json.load(open(resf)) if os.path.exists(resf) else {}
    res[n] = out
    json.dump(res, open(resf, "w"), indent=1)
