#!/bin/bash
# verify_seed.sh <worktree> : confirms a seeded defect (demo fails with the patch, passes without; touched packages' tests pass with it)
export GOFLAGS=-mod=mod GOPROXY=off GOSUMDB=off GOTOOLCHAIN=local
W=$1; cd $W || exit 2
CMD=$(jq -r .demo_cmd SEED/meta.json | sed 's/^GOFLAGS=[^ ]* GOPROXY=[^ ]* GOSUMDB=[^ ]* GOTOOLCHAIN=[^ ]* //')
echo "demo_cmd: $CMD"
git apply --check -R SEED/patch.diff 2>/dev/null || { echo "patch not applied in worktree"; git apply SEED/patch.diff || exit 2; }
echo "--- with patch (expect FAIL)"; bash -c "$CMD" > /tmp/vs_with.log 2>&1; A=$?; tail -3 /tmp/vs_with.log
git apply -R SEED/patch.diff || exit 2
echo "--- without patch (expect PASS)"; bash -c "$CMD" > /tmp/vs_without.log 2>&1; B=$?; tail -3 /tmp/vs_without.log
git apply SEED/patch.diff
echo "RESULT with=$A without=$B"
[ $A -ne 0 ] && [ $B -eq 0 ] && echo CONFIRMED || echo NOT-CONFIRMED
