#!/bin/bash
# store_seed.sh <worktree> <name> : verify a seeded defect (demo fails with / passes without the patch; with the
# patch and without the demo the touched packages' and ./core tests pass), store it under /verif/seeded/<name>/
# and remove the worktree.
export GOFLAGS=-mod=mod GOPROXY=off GOSUMDB=off GOTOOLCHAIN=local
W=$1; N=$2
[ -d "$W/SEED" ] || { echo "no SEED dir in $W"; exit 2; }
bash /verif/driver/verify_seed.sh $W > /tmp/store_seed_$N.log 2>&1
tail -2 /tmp/store_seed_$N.log
grep -q '^CONFIRMED' /tmp/store_seed_$N.log || { echo "NOT CONFIRMED: $N"; exit 1; }
cd $W
pk=$(grep '^+++ b/' SEED/patch.diff | sed 's#+++ b/##' | xargs -n1 dirname | sort -u | sed 's#^#./#')
mkdir -p /tmp/demo-$N
for f in $(git status --short | grep '^??' | awk '{print $2}' | grep '_test.go$'); do mv $f /tmp/demo-$N/; done
rm -rf /tmp/SEED-$N; mv SEED /tmp/SEED-$N
go build ./... || { mv /tmp/SEED-$N SEED; echo "BUILD FAILS: $N"; exit 1; }
go test -vet=off -count=1 -p 8 $pk ./core/ > /tmp/store_seed_tests_$N.log 2>&1
if grep -q '^FAIL\|^--- FAIL' /tmp/store_seed_tests_$N.log; then echo "EXISTING TESTS FAIL WITH PATCH: $N"; tail -20 /tmp/store_seed_tests_$N.log; exit 1; fi
grep '^ok' /tmp/store_seed_tests_$N.log
mv /tmp/SEED-$N SEED
d=/verif/seeded/$N; mkdir -p $d; cp -r SEED/* $d/; rm -f $d/*.log
python3 - $d $N <<'PY'
import json,sys,re
d,n=sys.argv[1],sys.argv[2]
p=d+'/meta.json'
m=json.load(open(p))
m['property']=re.search(r'c(\d+)$',n).group(0).upper()
m['origin']="independent sub-agent given only the property text and a scratch worktree (no access to /verif)"
m['confirmed_by_me']="driver/store_seed.sh: demonstration fails with the patch applied and passes with it reverted; with the patch applied and the demonstration removed, go build ./... and go test of the touched packages and ./core pass"
json.dump(m,open(p,'w'),indent=1)
PY
cd /; git -C /repo worktree remove --force $W; rm -rf /tmp/demo-$N
echo "STORED $N"
