#!/bin/bash
# sweep.sh <tier> <seed> [<seed> ...] : runs every registered check at the given VERIF_SEED values
# and prints one line per run (property, seed, exit code, seconds, last line). Used to look for
# false alarms / flakiness on the unchanged tree; the verdicts are those of ./check itself.
cd "$(dirname "$0")/.."
tier=$1; shift
./setup.sh --nobuild >/dev/null 2>&1
mkdir -p .build/sweep
for s in "$@"; do
  for p in C01 C02 C03 C04 C05 C06 C07 C08 C09 C10 C11 C12 C13 C14 C15 C16 C17 C18 C19 C20; do
    t0=$(date +%s)
    VERIF_SEED=$s ./check $p --tier $tier > .build/sweep/$p-$tier-$s.log 2>&1
    rc=$?
    cp evidence/$p.json .build/sweep/evidence-$p-$tier-$s.json 2>/dev/null
    echo "SWEEP $p tier=$tier seed=$s exit=$rc secs=$(( $(date +%s) - t0 )) $(grep -c '^VIOLATION' .build/sweep/$p-$tier-$s.log) violations :: $(tail -1 .build/sweep/$p-$tier-$s.log | cut -c1-160)"
    if [ $rc -ne 0 ]; then grep -v 'rapid\] draw' .build/sweep/$p-$tier-$s.log | tail -15 | cut -c1-400; fi
  done
done
