#!/usr/bin/env python3
"""Regenerates MANIFEST.json from driver/manifest_checks.json (per-property text) + properties.jsonl."""
import json, os, subprocess
V = os.path.dirname(os.path.dirname(os.path.abspath(__file__)))
checks_src = json.load(open(os.path.join(V, "driver", "manifest_checks.json")))
props = [json.loads(l) for l in open(os.path.join(V, "properties.jsonl"))]
hooks = subprocess.run(["git", "-C", "/repo", "log", "--format=%H %s"], capture_output=True, text=True).stdout.splitlines()
hook_commits = [l.split()[0] for l in hooks if "verif hooks" in l or "verif hook" in l]
checks, na = [], []
for p in props:
    pid = p["id"]
    c = checks_src["checks"].get(pid)
    have = os.path.exists(os.path.join(V, "harness", "props", pid.lower(), "verif.json"))
    if c and have and not c.get("disabled"):
        lvl = json.load(open(os.path.join(V, "harness", "props", pid.lower(), "verif.json"))).get("level", "exploration")
        checks.append({
            "property_id": pid,
            "quick_cmd": "./check %s --tier quick" % pid,
            "thorough_cmd": "./check %s --tier thorough" % pid,
            "evidence_file": "evidence/%s.json" % pid,
            "replay_cmd_template": "./check %s --replay {path}" % pid,
            "engine": "rapid-harness",
            "level_claimed": {"category": lvl, "text": c["text"], "design_ref": "DESIGN.md §4 " + pid},
            "level_note": c["note"],
            "technique": c["technique"],
        })
    else:
        na.append({"property_id": pid, "reason": (c or {}).get("na_reason", "check not built yet in this session (work in progress; DESIGN.md §8 build order)")})
m = {
    "version": 1,
    "setup_cmd": "./setup.sh",
    "hooks": {
        "guard": "verif",
        "enable": "go test -tags verif (the harness module /verif/harness replaces github.com/dominant-strategies/go-quai with /repo; every check is built with -tags verif)",
        "baseline_off_cmd": "cd /repo && GOFLAGS=-mod=mod go test -vet=off -count=1 -timeout 25m ./...",
        "source_commits": hook_commits,
        "add_only": False,
    },
    "engines": [{"name": "rapid-harness", "path": "harness/", "serves_properties": [c["property_id"] for c in checks],
                 "kind_free_text": "Go test packages (pgregory.net/rapid v1.3.0 generators and state machines, exhaustive small-scope enumerations, native go fuzz targets in the thorough tier) driven and sharded by driver/check.py; an in-process prime+region+zone go-quai hierarchy (harness/sim) for history-based properties"}],
    "checks": checks,
    "not_applicable": na,
    "notes": checks_src.get("notes", ""),
}
json.dump(m, open(os.path.join(V, "MANIFEST.json"), "w"), indent=1)
print("claimed:", [c["property_id"] for c in checks])
print("not claimed:", [n["property_id"] for n in na])
