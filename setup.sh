#!/bin/bash
# Regenerates harness/go.mod + go.sum from /repo's module files and pre-builds the test binaries.
# Offline: uses only the module cache.
set -e
cd "$(dirname "$0")"
export GOFLAGS=-mod=mod GOPROXY=off GOSUMDB=off GOTOOLCHAIN=local
REPO=${VERIF_REPO:-/repo}
python3 - "$REPO" <<'PY'
import re,sys
repo=sys.argv[1]
src=open(repo+'/go.mod').read()
out=[]
out.append('module verifharness\n')
m=re.search(r'^go\s+\S+\s*$',src,re.M)
out.append(m.group(0).strip()+'\n')
m=re.search(r'^toolchain\s+\S+\s*$',src,re.M)
if m: out.append(m.group(0).strip()+'\n')
for blk in re.findall(r'^require \(.*?^\)',src,re.M|re.S):
    out.append(blk+'\n')
for line in re.findall(r'^require [^(\n]+$',src,re.M):
    out.append(line+'\n')
for blk in re.findall(r'^replace .*?$',src,re.M):
    out.append(blk+'\n')
out.append('require github.com/dominant-strategies/go-quai v0.0.0\n')
out.append('require pgregory.net/rapid v1.3.0\n')
out.append('replace github.com/dominant-strategies/go-quai => '+repo+'\n')
open('harness/go.mod','w').write('\n'.join(out))
PY
cp "$REPO/go.sum" harness/go.sum
cat harness/rapid.sum >> harness/go.sum
if [ "$1" != "--nobuild" ]; then
  python3 driver/check.py --build-all
fi
